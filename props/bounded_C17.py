"""E4 bounded driver for C17: DFE integration = theta * documented quadrature of a schedule-independent cache.

Oracles (independent of dadi/DFE/*): explicit trapezoid sums over the cached spectra with pdf values, tail masses and corner
masses computed by mpmath (closed-form cdfs / tanh-sinh quadrature), explicit mixture bookkeeping from the docstrings,
mpmath.gamma and the textbook density formulas for the compiled pdfs.  Cache contents are compared bitwise across schedules.
"""
import os, sys, itertools, math, warnings
from vf.core import Task
from vf.bounded import Driver


def tasks(tier):
    q = tier == 'quick'
    T = lambda fn, name, **kw: Task('props.bounded_C17:' + fn, name='C17/bounded/' + name, tier=tier, timeout=1500, **kw)
    out = [T('drv_pdfs', 'pdfs'), T('drv_quad1d', 'quad1d'), T('drv_point1d', 'point1d'),
           T('drv_merge', 'merge'), T('drv_sched1d', 'sched1d'), T('drv_sched2d', 'sched2d'), T('drv_faults', 'faults'),
           T('drv_mixtures', 'mixtures')]
    for i in range(3 if q else 8):
        out.append(T('drv_quad2d', 'quad2d.%d' % i, shard=i))
    return out


# ======================================================================================================
# mpmath side
# ======================================================================================================
def _mp():
    import mpmath
    mpmath.mp.dps = 30
    return mpmath


class Fam1D:
    """1-D density families: mpmath pdf / cdf and the dadi sel_dist of the same name"""
    names = ('exponential', 'gamma', 'lognormal', 'beta', 'expmix')

    @staticmethod
    def pdf(name, x, p):
        mp = _mp()
        x = mp.mpf(x)
        if name == 'exponential':
            return mp.exp(-x / p[0]) / p[0]
        if name == 'gamma':
            a, b = p
            return x ** (a - 1) * mp.exp(-x / b) / (mp.mpf(b) ** a * mp.gamma(a))
        if name == 'lognormal':
            mu, s = p
            return mp.exp(-(mp.log(x) - mu) ** 2 / (2 * mp.mpf(s) ** 2)) / (x * s * mp.sqrt(2 * mp.pi))
        if name == 'beta':
            a, b = p
            if x >= 1:
                return mp.mpf(0)
            return x ** (a - 1) * (1 - x) ** (b - 1) / mp.beta(a, b)
        if name == 'expmix':
            w, s1, s2 = p
            return w * mp.exp(-x / s1) / s1 + (1 - w) * mp.exp(-x / s2) / s2
        raise ValueError(name)

    @staticmethod
    def cdf(name, x, p):
        mp = _mp()
        x = mp.mpf(x)
        if name == 'exponential':
            return 1 - mp.exp(-x / p[0])
        if name == 'gamma':
            a, b = p
            return mp.gammainc(a, 0, x / b, regularized=True)
        if name == 'lognormal':
            mu, s = p
            return mp.ncdf((mp.log(x) - mu) / s)
        if name == 'beta':
            a, b = p
            return mp.betainc(a, b, 0, min(x, mp.mpf(1)), regularized=True)
        if name == 'expmix':
            w, s1, s2 = p
            return w * (1 - mp.exp(-x / s1)) + (1 - w) * (1 - mp.exp(-x / s2))
        raise ValueError(name)

    @staticmethod
    def sf(name, x, p):
        """1 - cdf without cancellation"""
        mp = _mp()
        x = mp.mpf(x)
        if name == 'exponential':
            return mp.exp(-x / p[0])
        if name == 'gamma':
            a, b = p
            return mp.gammainc(a, x / b, mp.inf, regularized=True)
        if name == 'lognormal':
            mu, s = p
            return mp.ncdf(-(mp.log(x) - mu) / s)
        if name == 'beta':
            a, b = p
            return mp.betainc(a, b, min(x, mp.mpf(1)), 1, regularized=True)
        if name == 'expmix':
            w, s1, s2 = p
            return w * mp.exp(-x / s1) + (1 - w) * mp.exp(-x / s2)
        raise ValueError(name)

    @staticmethod
    def dadi_func(name):
        import numpy
        from dadi.DFE import PDFs
        if name == 'expmix':
            def expmix(xx, params):
                w, s1, s2 = params
                xx = numpy.asarray(xx, dtype=float)
                return w * numpy.exp(-xx / s1) / s1 + (1 - w) * numpy.exp(-xx / s2) / s2
            return expmix
        return getattr(PDFs, name)

    @staticmethod
    def random_params(name, rng, gmin, gmax):
        if name == 'exponential':
            return [rng.uniform(0.3, 1.5) * math.sqrt(gmin * gmax) * rng.choice([0.3, 1, 5])]
        if name == 'gamma':
            return [rng.uniform(0.15, 3.0), rng.uniform(0.2, 0.6) * gmax]
        if name == 'lognormal':
            return [rng.uniform(math.log(gmin) + 0.5, math.log(gmax)), rng.uniform(0.4, 2.5)]
        if name == 'beta':
            return [rng.uniform(0.5, 3.0), rng.uniform(0.5, 3.0)]
        if name == 'expmix':
            return [rng.uniform(0.1, 0.9), rng.uniform(0.05, 0.5) * gmax, rng.uniform(0.5, 1.5) * gmax]


def trapz_explicit(ys, xs):
    """sum_i (x[i+1]-x[i]) * (y[i]+y[i+1]) / 2 along axis 0, float64"""
    tot = 0.0 * ys[0]
    for i in range(len(xs) - 1):
        tot = tot + (xs[i + 1] - xs[i]) * (ys[i] + ys[i + 1]) / 2.0
    return tot


def maxrel(a, b, scale=None):
    import numpy
    a = numpy.asarray(numpy.ma.getdata(a), dtype=float)
    b = numpy.asarray(numpy.ma.getdata(b), dtype=float)
    if a.shape != b.shape:
        return float('inf')
    sc = scale if scale is not None else max(float(numpy.max(numpy.abs(b))), 1e-300)
    d = numpy.abs(a - b)
    if not numpy.all(numpy.isfinite(d)):
        return float('inf')
    return float(numpy.max(d)) / sc


# ======================================================================================================
# cheap stand-ins for demographic models (the property is about the cache and its quadrature, not the PDE)
# ======================================================================================================
def fake1d(params, ns, pts):
    import numpy, dadi
    a, gamma = params
    k = numpy.arange(ns[0] + 1, dtype=float)
    data = a * (1.0 + 0.3 * numpy.cos(k)) / (1.0 + k) * numpy.exp(0.05 * gamma * (k + 1) / math.sqrt(1 + abs(gamma)))
    fs = dadi.Spectrum(data, mask_corners=False)
    fs.extrap_x = 1.0 / pts
    return fs


def flat1d(params, ns, pts):
    """selection has no effect"""
    import numpy, dadi
    a, gamma = params
    k = numpy.arange(ns[0] + 1, dtype=float)
    fs = dadi.Spectrum(a / (1.0 + k), mask_corners=False)
    fs.extrap_x = 1.0 / pts
    return fs


def fake2d(params, ns, pts):
    import numpy, dadi
    a, g1, g2 = params
    i = numpy.arange(ns[0] + 1, dtype=float)[:, None]
    j = numpy.arange(ns[1] + 1, dtype=float)[None, :]
    data = a / (1.0 + i + 2 * j) * numpy.exp(0.05 * g1 * (i + 1) / math.sqrt(1 + abs(g1))) \
        * (1.0 + 0.5 * numpy.tanh(0.1 * g2 * (j + 1))) + 0.01 * numpy.exp(0.002 * g2) * (i == 1)
    fs = dadi.Spectrum(data, mask_corners=False)
    fs.extrap_x = 1.0 / pts
    return fs


def fake1d_as2d(params, ns, pts):
    a, g = params
    return fake2d((a, g, g), ns, pts)


def flat2d(params, ns, pts):
    import numpy, dadi
    a = params[0]
    i = numpy.arange(ns[0] + 1, dtype=float)[:, None]
    j = numpy.arange(ns[1] + 1, dtype=float)[None, :]
    fs = dadi.Spectrum(a / (1.0 + i + 2 * j), mask_corners=False)
    fs.extrap_x = 1.0 / pts
    return fs


def flat1d_as2d(params, ns, pts):
    return flat2d(params, ns, pts)


# ======================================================================================================
# compiled pdfs
# ======================================================================================================
def drv_pdfs(tier):
    warnings.simplefilter('ignore')
    import ctypes
    import numpy
    import dadi
    from dadi.DFE import PDFs
    mp = _mp()
    n_par = 30 if tier == 'quick' else 300
    d = Driver('C17', 'pdfs',
               bound='%d random parameter sets per family; biv_lognormal 3- and 5-parameter layouts, rho in (-0.995,0.995) incl. 0 and '
                     '+-0.99; biv_ind_gamma 2,3,4,5-parameter layouts, alpha in (0.05,40) (gamma_func also up to 170); xx, yy of different lengths 1..7 in (1e-4,3e3), '
                     'scalars, integer arrays, strided views; compiled == Python reference (1e-12 rel) == mpmath formula (1e-10 rel); '
                     'gamma_func (ctypes on PDFs.c) vs mpmath.gamma on 400 points of (0.01, 170) 1e-10 rel; 1-D PDFs vs mpmath 1e-10' % n_par)
    rng = d.rng

    def grid(n):
        return numpy.array(sorted(10 ** rng.uniform(-4, 3.5) for _ in range(n)))

    def cmp_mat(got, want, tol):
        got = numpy.asarray(got, dtype=float)
        want = numpy.asarray(want, dtype=float)
        if got.shape != want.shape:
            return float('inf')
        with numpy.errstate(all='ignore'):
            den = numpy.maximum(numpy.abs(want), 1e-290)
            return float(numpy.max(numpy.abs(got - want) / den))

    def ln_mp(x, y, p):
        mu1, mu2, s1, s2, rho = [mp.mpf(v) for v in p]
        dx = (mp.log(x) - mu1) / s1
        dy = (mp.log(y) - mu2) / s2
        q = (dx * dx - 2 * rho * dx * dy + dy * dy) / (1 - rho * rho)
        return mp.exp(-q / 2) / (2 * mp.pi * s1 * s2 * mp.sqrt(1 - rho * rho) * x * y)

    def g_mp(x, a, b):
        return mp.mpf(x) ** (a - 1) * mp.exp(-mp.mpf(x) / b) / (mp.mpf(b) ** a * mp.gamma(a))

    for ci in range(n_par):
        nx, ny = rng.randint(1, 7), rng.randint(1, 7)
        xx, yy = grid(nx), grid(ny)
        rho = rng.choice([0.0, 0.99, -0.99, rng.uniform(-0.995, 0.995), rng.uniform(-0.5, 0.5)])
        if ci % 2:
            p = [rng.uniform(-3, 5), rng.uniform(0.3, 3), rho]
            p5 = [p[0], p[0], p[1], p[1], rho]
        else:
            p = [rng.uniform(-3, 5), rng.uniform(-3, 5), rng.uniform(0.3, 3), rng.uniform(0.3, 3), rho]
            p5 = p
        info = dict(xx=xx.tolist(), yy=yy.tolist(), params=p)

        def ln_case():
            got = numpy.atleast_2d(PDFs.biv_lognormal(xx, yy, p))
            if nx == 1 or ny == 1:
                got = got.reshape(nx, ny)
            ref = numpy.atleast_2d(PDFs.biv_lognormal_py(xx, yy, p)).reshape(nx, ny)
            want = numpy.array([[float(ln_mp(mp.mpf(x), mp.mpf(y), p5)) for y in yy] for x in xx])
            e1, e2 = cmp_mat(got, ref, 0), cmp_mat(got, want, 0)
            # entries below 1e-290 are compared absolutely through the 1e-290 floor in cmp_mat
            return e1 <= 1e-11 and e2 <= 1e-10, dict(err_vs_py=e1, err_vs_mpmath=e2)
        d.check(('lognormal', ci, len(p), nx, ny), ln_case, info, fail_key='biv_lognormal-value')
        # gamma
        lay = rng.choice([2, 3, 4, 5])
        if lay in (2, 3):
            a, b = rng.choice([rng.uniform(0.05, 1), rng.uniform(1, 40)]), rng.uniform(0.1, 50)
            pg = [a, b] + ([rng.uniform(-1, 1)] if lay == 3 else [])
            a1 = a2 = a
            b1 = b2 = b
        else:
            a1, a2 = rng.uniform(0.05, 1), rng.uniform(1, 40)
            b1, b2 = rng.uniform(0.1, 50), rng.uniform(0.1, 50)
            if ci % 3 == 1:
                a2 = a1          # coinciding shapes with different scales (and, below, coinciding scales with different shapes)
            elif ci % 3 == 2:
                b2 = b1
            pg = [a1, a2, b1, b2] + ([rng.uniform(-1, 1)] if lay == 5 else [])
        infog = dict(xx=xx.tolist(), yy=yy.tolist(), params=pg)

        def g_case():
            got = numpy.atleast_2d(PDFs.biv_ind_gamma(xx, yy, pg)).reshape(nx, ny)
            ref = numpy.atleast_2d(PDFs.biv_ind_gamma_py(xx, yy, pg)).reshape(nx, ny)
            want = numpy.array([[float(g_mp(x, a1, b1) * g_mp(y, a2, b2)) for y in yy] for x in xx])
            e1, e2 = cmp_mat(got, ref, 0), cmp_mat(got, want, 0)
            return e1 <= 1e-10 and e2 <= 1e-10, dict(err_vs_py=e1, err_vs_mpmath=e2)
        d.check(('gamma', ci, lay, nx, ny), g_case, infog, fail_key='biv_ind_gamma-value')
        if ci < 12:
            # layouts: scalars, integer arrays, strided views (the wrapper hands raw data pointers to C)
            def scalar_case():
                x, y = float(xx[0]), float(yy[-1])
                got = float(PDFs.biv_lognormal(x, y, p))
                want = float(ln_mp(mp.mpf(x), mp.mpf(y), p5))
                return abs(got - want) <= 1e-10 * abs(want) + 1e-300, dict(got=got, want=want)
            d.check(('lognormal-scalar', ci), scalar_case, info, fail_key='biv_lognormal-scalar')

            def int_case():
                xi = numpy.array([1, 2, 5, 40])
                yi = numpy.array([3, 7])
                got = PDFs.biv_lognormal(xi, yi, p)
                want = numpy.array([[float(ln_mp(mp.mpf(int(x)), mp.mpf(int(y)), p5)) for y in yi] for x in xi])
                e = cmp_mat(got, want, 0)
                return e <= 1e-10, dict(err=e)
            d.check(('lognormal-int', ci), int_case, info, fail_key='biv_lognormal-integer-input')

            def strided_case():
                big_x = numpy.repeat(grid(4), 2) * numpy.tile([1.0, 7.0], 4)
                big_y = grid(5)
                xs, ys = big_x[::2], big_y[::-1]
                out = {}
                ok = True
                for nm, fn, pp, ref in (('biv_lognormal', PDFs.biv_lognormal, p, lambda x, y: ln_mp(mp.mpf(x), mp.mpf(y), p5)),
                                        ('biv_ind_gamma', PDFs.biv_ind_gamma, pg, lambda x, y: g_mp(x, a1, b1) * g_mp(y, a2, b2))):
                    got = fn(xs, ys, pp)
                    want = numpy.array([[float(ref(float(x), float(y))) for y in ys] for x in xs])
                    e = cmp_mat(got, want, 0)
                    out[nm] = e
                    ok = ok and e <= 1e-10
                return ok, dict(err=out, xs=xs.tolist(), ys=ys.tolist())
            d.check(('strided', ci), strided_case, dict(params=p, gparams=pg), fail_key='pdf-strided-input-read-as-contiguous')

            def strided_params():
                buf = numpy.array([p5[0], 99.0, p5[1], 99.0, p5[2], 99.0, p5[3], 99.0, p5[4], 99.0])
                got = numpy.atleast_2d(PDFs.biv_lognormal(xx, yy, buf[::2])).reshape(nx, ny)
                want = numpy.array([[float(ln_mp(mp.mpf(x), mp.mpf(y), p5)) for y in yy] for x in xx])
                e = cmp_mat(got, want, 0)
                return e <= 1e-10, dict(err=e)
            d.check(('strided-params', ci), strided_params, info, fail_key='pdf-strided-input-read-as-contiguous')
    # 1-D pdfs used as sel_dist
    for name in ('exponential', 'gamma', 'lognormal', 'beta'):
        for ci in range(10 if tier == 'quick' else 60):
            p = Fam1D.random_params(name, rng, 1e-3, 50.0)
            xs = numpy.array(sorted(10 ** rng.uniform(-3, 1.7) for _ in range(6)))
            if name == 'beta':
                xs = numpy.array(sorted(rng.uniform(0.001, 0.999) for _ in range(6)))

            def one():
                got = getattr(PDFs, name)(xs, p)
                want = numpy.array([float(Fam1D.pdf(name, x, p)) for x in xs])
                e = cmp_mat(got, want, 0)
                return e <= 1e-10, dict(err=e)
            d.check((name, ci), one, dict(xs=xs.tolist(), params=p), fail_key='pdf1d-' + name)
    # gamma_func
    try:
        from vf import overlay
        lib = ctypes.CDLL(overlay.build_pdfs_lib())
        lib.gamma_func.restype = ctypes.c_double
        lib.gamma_func.argtypes = [ctypes.c_double]
        zs = [0.01 + 0.0123 * k for k in range(80)] + [rng.uniform(0.01, 170) for _ in range(300)] + \
             [0.5, 1.0, 1.5, 2.0, 10.0, 100.0, 140.0, 145.0, 170.0, 0.4999999, 0.5000001]
        for z in zs:
            got = lib.gamma_func(z)
            want = float(mp.gamma(z))
            # Gamma(z) is representable up to z = 171.6; the Lanczos form evaluates pow(t, z+0.5) first, which overflows earlier
            d.case(('gamma_func', z), abs(got - want) <= 1e-10 * abs(want), dict(z=z, got=got, want=want),
                   fail_key='gamma_func' if z < 141 else 'gamma_func-overflows-for-z-above-141')
    except Exception as e:
        d.case(('gamma_func', 'lib'), False, dict(error=repr(e)), fail_key='gamma_func-lib')
    return d.results()


# ======================================================================================================
# Cache1D.integrate
# ======================================================================================================
def oracle1d(cache, name, p, theta, exterior=True):
    """theta * (trapz_i pdf(|g_i|) S_i dg + S_neutral * cdf(|g|_min) + S_most_deleterious * sf(|g|_max)), explicit sums"""
    import numpy
    Nneg = len(cache.neg_gammas)
    xs = [float(g) for g in cache.neg_gammas]
    S = [numpy.asarray(numpy.ma.getdata(cache.spectra[i]), dtype=float) for i in range(Nneg)]
    w = [float(Fam1D.pdf(name, -x, p)) for x in xs]
    tot = trapz_explicit([wi * Si for wi, Si in zip(w, S)], xs)
    weights = dict(interior=float(trapz_explicit(numpy.array(w), xs)))
    if exterior:
        wn = float(Fam1D.cdf(name, -xs[-1], p))
        wd = float(Fam1D.sf(name, -xs[0], p))
        tot = tot + numpy.asarray(numpy.ma.getdata(cache.neu_spec), dtype=float) * wn + S[0] * wd
        weights.update(neutral=wn, lethal=wd)
    return theta * tot, weights


def drv_quad1d(tier):
    warnings.simplefilter('ignore')
    import numpy
    import dadi
    from dadi import DFE
    n_par = 6 if tier == 'quick' else 30
    d = Driver('C17', 'quad1d',
               bound='Cache1D (cpus=1) over a synthetic gamma-dependent spectrum function, a selection-free one and the real '
                     'two_epoch_sel (ns 6, pts 10/12/14); gamma grids of 6-12 points with bounds in {(1e-3,30),(1e-2,500),(0.05,0.9),(1e-4,2000)}; '
                     'pdfs exponential, gamma, lognormal, beta and a user-defined two-exponential mixture x %d parameter sets each; '
                     'theta in {1, 0.37, 1234.5}; integrate == theta*(explicit trapezoid + neutral + lethal tails, mpmath cdfs) to '
                     '2e-7*theta*max|S| (scipy.quad default accuracy), exterior_int=False to 1e-13; linear in theta 1e-13; no-selection '
                     'limit == theta*S*total weight and |total weight - 1| <= trapezoid error computed with mpmath' % n_par)
    rng = d.rng
    mp = _mp()
    bounds_l = [(1e-3, 30.0), (1e-2, 500.0), (0.05, 0.9), (1e-4, 2000.0)]
    caches = []
    for bi, gb in enumerate(bounds_l):
        gp = rng.randint(6, 12)
        caches.append(('fake', gb, DFE.Cache1D((1.7,), (7,), fake1d, [10], gamma_bounds=gb, gamma_pts=gp, cpus=1)))
        caches.append(('flat', gb, DFE.Cache1D((1.7,), (7,), flat1d, [10], gamma_bounds=gb, gamma_pts=gp, cpus=1)))
    caches.append(('two_epoch_sel', (1e-2, 20.0), DFE.Cache1D((2.0, 0.1), (6,), DFE.DemogSelModels.two_epoch_sel, [10, 12, 14],
                                                              gamma_bounds=(1e-2, 20.0), gamma_pts=7, cpus=1)))
    for kind, gb, cache in caches:
        # grid contract: index 0 = most deleterious, log spaced, ascending
        g = cache.neg_gammas
        okg = abs(g[0] + gb[1]) <= 1e-9 * gb[1] and abs(g[-1] + gb[0]) <= 1e-9 * gb[0] and bool(numpy.all(numpy.diff(g) > 0))
        lg = numpy.log(-g)
        okg = okg and float(numpy.max(numpy.abs(numpy.diff(lg) - numpy.diff(lg)[0]))) < 1e-9
        d.case(('grid', kind, gb), okg, dict(neg_gammas=g.tolist(), bounds=gb), fail_key='gamma-grid')
        smax = float(numpy.max(numpy.abs(cache.spectra)))
        for name in Fam1D.names:
            if name == 'beta' and gb[1] > 1 and kind != 'fake':
                continue
            for ci in range(n_par):
                p = Fam1D.random_params(name, rng, gb[0], gb[1])
                theta = [1.0, 0.37, 1234.5][ci % 3]
                sel = Fam1D.dadi_func(name)
                info = dict(cache=kind, bounds=gb, gamma_pts=len(g), pdf=name, params=p, theta=theta)
                key = (kind, gb, name, ci)

                def full():
                    got = cache.integrate(p, None, sel, theta, None)
                    want, w = oracle1d(cache, name, p, theta)
                    e = maxrel(got, want, scale=theta * smax)
                    return e <= 2e-7, dict(err=e, weights=w)
                d.check(key + ('full',), full, info, fail_key='integrate-quadrature')

                def interior():
                    got = cache.integrate(p, None, sel, theta, None, exterior_int=False)
                    want, w = oracle1d(cache, name, p, theta, exterior=False)
                    e = maxrel(got, want, scale=theta * smax)
                    return e <= 1e-13, dict(err=e)
                d.check(key + ('interior',), interior, info, fail_key='integrate-interior')

                def linear():
                    a = cache.integrate(p, None, sel, 1.0, None)
                    b = cache.integrate(p, None, sel, theta * 3.0, None)
                    e = maxrel(numpy.ma.getdata(b) / (theta * 3.0), a)
                    return e <= 1e-13, dict(err=e)
                d.check(key + ('linear',), linear, info, fail_key='integrate-theta-linearity')
                if kind == 'flat':
                    def nosel():
                        got = numpy.ma.getdata(cache.integrate(p, None, sel, theta, None))
                        S = numpy.ma.getdata(cache.neu_spec)
                        _, w = oracle1d(cache, name, p, 1.0)
                        W = w['interior'] + w['neutral'] + w['lethal']
                        e = maxrel(got, theta * S * W, scale=theta * smax)
                        # trapezoid error of the interior weight, exactly: trapz - (cdf(max) - cdf(min))
                        exact_int = float(Fam1D.cdf(name, gb[1], p) - Fam1D.cdf(name, gb[0], p))
                        quad_err = abs(w['interior'] - exact_int)
                        return e <= 2e-7 and abs(W - 1.0) <= quad_err + 1e-12, dict(err=e, total_weight=W, trapezoid_error=quad_err)
                    d.check(key + ('nosel',), nosel, info, fail_key='no-selection-limit')
    return d.results()


# ======================================================================================================
# Cache1D.integrate_point_pos
# ======================================================================================================
def drv_point1d(tier):
    warnings.simplefilter('ignore')
    import numpy
    from dadi import DFE
    n_par = 8 if tier == 'quick' else 60
    d = Driver('C17', 'point1d',
               bound='Cache1D over the synthetic spectrum function, bounds (1e-2,50), 8 gamma points, additional_gammas [0.5, 4, 12]; '
                     '%d parameter sets x pdfs {exponential, gamma, lognormal}; Npos 1 and 2; point masses at cached gammas, and at '
                     'uncached gammas with demo_sel_func given (then the same call repeated with another theta); theta in {1, 0.37, 250}; '
                     'result == (1-sum p)*integrate + sum p_k*theta*S(gamma_k) to 2e-7*theta*max|S|; uncached without demo_sel_func '
                     'must raise IndexError' % n_par)
    rng = d.rng

    def build():
        return DFE.Cache1D((1.3,), (6,), fake1d, [10], gamma_bounds=(1e-2, 50.0), gamma_pts=8, additional_gammas=[0.5, 4.0, 12.0], cpus=1)
    cache = build()
    smax = float(numpy.max(numpy.abs(cache.spectra)))

    def S_at(g):
        return numpy.asarray(numpy.ma.getdata(fake1d((1.3, g), (6,), 10)), dtype=float)
    d.case(('additional-cached',), all(maxrel(cache.spectra[len(cache.neg_gammas) + i], S_at(g)) <= 1e-15
                                      for i, g in enumerate([0.5, 4.0, 12.0])), dict(), fail_key='additional-gammas-cached')
    for name in ('exponential', 'gamma', 'lognormal'):
        sel = Fam1D.dadi_func(name)
        for ci in range(n_par):
            p = Fam1D.random_params(name, rng, 1e-2, 50.0)
            theta = [1.0, 0.37, 250.0][ci % 3]
            npos = 1 + ci % 2
            gpos = rng.sample([0.5, 4.0, 12.0], npos)
            pp = [round(rng.uniform(0.02, 0.3), 3) for _ in range(npos)]
            params = list(p) + [v for pair in zip(pp, gpos) for v in pair]
            info = dict(pdf=name, params=params, Npos=npos, theta=theta)
            base, _ = oracle1d(cache, name, p, theta)
            want = (1 - sum(pp)) * base + sum(pk * theta * S_at(gk) for pk, gk in zip(pp, gpos))

            def cached():
                got = cache.integrate_point_pos(params, None, sel, theta, Npos=npos)
                e = maxrel(got, want, scale=theta * smax)
                return e <= 2e-7, dict(err=e)
            d.check((name, ci, 'cached', npos, theta), cached, info,
                    fail_key='point-pos-cached-spectrum-not-scaled-by-theta' if theta != 1.0 else 'point-pos-value')
            # uncached gamma computed on the fly
            gnew = round(rng.uniform(1.0, 30.0), 3)
            params_u = list(p) + [pp[0], gnew]
            want_u = (1 - pp[0]) * base + pp[0] * theta * S_at(gnew)
            theta2 = theta * 2.5
            base2, _ = oracle1d(cache, name, p, theta2)
            want_u2 = (1 - pp[0]) * base2 + pp[0] * theta2 * S_at(gnew)
            c2 = build()

            def uncached_first():
                got = c2.integrate_point_pos(params_u, None, sel, theta, demo_sel_func=fake1d, Npos=1)
                e = maxrel(got, want_u, scale=theta * smax)
                return e <= 2e-7, dict(err=e, gammapos=gnew)
            d.check((name, ci, 'uncached', theta), uncached_first, info, fail_key='point-pos-uncached-value')

            def uncached_again():
                got = c2.integrate_point_pos(params_u, None, sel, theta2, demo_sel_func=fake1d, Npos=1)
                e = maxrel(got, want_u2, scale=theta2 * smax)
                return e <= 2e-7, dict(err=e, gammapos=gnew, theta_first=theta, theta_second=theta2)
            d.check((name, ci, 'uncached-again', theta), uncached_again, info,
                    fail_key='point-pos-uncached-spectrum-stored-scaled-by-first-theta')

            def missing():
                c3 = cache
                try:
                    c3.integrate_point_pos(list(p) + [0.1, 7.77], None, sel, theta, Npos=1)
                except IndexError:
                    return True, {}
                return False, dict(note='no IndexError for a gamma that is not cached')
            if ci < 3:
                d.check((name, ci, 'missing'), missing, info, fail_key='point-pos-missing-gamma-not-reported')
    return d.results()


# ======================================================================================================
# 2-D densities: mpmath pdf, edge and corner masses
# ======================================================================================================
class Fam2D:
    """family -> pdf(x, y), mass over rectangles R1 x R2 with R in {'N': (0, s), 'D': (L, inf)}, and the edge functions
    e1(R, y) = int_{x in R} pdf(x, y) dx,  e2(R, x) = int_{y in R} pdf(x, y) dy."""

    def __init__(self, name, p, s, L):
        self.name, self.p, self.s, self.L = name, list(p), s, L
        mp = _mp()
        self.mp = mp
        if name == 'indgamma':
            if len(p) in (2, 3):
                self.a1 = self.a2 = p[0]
                self.b1 = self.b2 = p[1]
            else:
                self.a1, self.a2, self.b1, self.b2 = p[:4]
        elif name == 'lognormal':
            if len(p) == 3:
                self.m1 = self.m2 = p[0]
                self.s1 = self.s2 = p[1]
                self.rho = p[2]
            else:
                self.m1, self.m2, self.s1, self.s2, self.rho = p
        elif name == 'expmix':
            self.w, self.c1, self.c2, self.c3, self.c4 = p

    # ---- marginal helpers
    def _g(self, x, a, b):
        mp = self.mp
        return mp.mpf(x) ** (a - 1) * mp.exp(-mp.mpf(x) / b) / (mp.mpf(b) ** a * mp.gamma(a))

    def _gmass(self, R, a, b):
        mp = self.mp
        if R == 'N':
            return mp.gammainc(a, 0, mp.mpf(self.s) / b, regularized=True)
        return mp.gammainc(a, mp.mpf(self.L) / b, mp.inf, regularized=True)

    def _emass(self, R, c):
        mp = self.mp
        if R == 'N':
            return 1 - mp.exp(-mp.mpf(self.s) / c)
        return mp.exp(-mp.mpf(self.L) / c)

    def pdf(self, x, y):
        mp = self.mp
        x, y = mp.mpf(x), mp.mpf(y)
        if self.name == 'indgamma':
            return self._g(x, self.a1, self.b1) * self._g(y, self.a2, self.b2)
        if self.name == 'expmix':
            e = lambda t, c: mp.exp(-t / c) / c
            return self.w * e(x, self.c1) * e(y, self.c2) + (1 - self.w) * e(x, self.c3) * e(y, self.c4)
        dx = (mp.log(x) - self.m1) / self.s1
        dy = (mp.log(y) - self.m2) / self.s2
        r = mp.mpf(self.rho)
        q = (dx * dx - 2 * r * dx * dy + dy * dy) / (1 - r * r)
        return mp.exp(-q / 2) / (2 * mp.pi * self.s1 * self.s2 * mp.sqrt(1 - r * r) * x * y)

    def _ln_cond(self, R, v, which):
        """P(first variable in R | second = exp(v)) (which=1) or P(second in R | first = exp(v)) (which=2), lognormal"""
        mp = self.mp
        r = mp.mpf(self.rho)
        if which == 1:
            m = self.m1 + r * self.s1 * (v - self.m2) / self.s2
            sd = self.s1 * mp.sqrt(1 - r * r)
        else:
            m = self.m2 + r * self.s2 * (v - self.m1) / self.s1
            sd = self.s2 * mp.sqrt(1 - r * r)
        if R == 'N':
            return mp.ncdf((mp.log(self.s) - m) / sd)
        return mp.ncdf(-(mp.log(self.L) - m) / sd)

    def e1(self, R, y):
        """int over x in R of pdf(x, y)"""
        mp = self.mp
        y = mp.mpf(y)
        if self.name == 'indgamma':
            return self._gmass(R, self.a1, self.b1) * self._g(y, self.a2, self.b2)
        if self.name == 'expmix':
            e = lambda t, c: mp.exp(-t / c) / c
            return self.w * self._emass(R, self.c1) * e(y, self.c2) + (1 - self.w) * self._emass(R, self.c3) * e(y, self.c4)
        v = mp.log(y)
        fy = mp.npdf((v - self.m2) / self.s2) / (self.s2 * y)
        return fy * self._ln_cond(R, v, 1)

    def e2(self, R, x):
        mp = self.mp
        x = mp.mpf(x)
        if self.name == 'indgamma':
            return self._g(x, self.a1, self.b1) * self._gmass(R, self.a2, self.b2)
        if self.name == 'expmix':
            e = lambda t, c: mp.exp(-t / c) / c
            return self.w * e(x, self.c1) * self._emass(R, self.c2) + (1 - self.w) * e(x, self.c3) * self._emass(R, self.c4)
        u = mp.log(x)
        fx = mp.npdf((u - self.m1) / self.s1) / (self.s1 * x)
        return fx * self._ln_cond(R, u, 2)

    def corner(self, R1, R2):
        """mass of {x in R1, y in R2}"""
        mp = self.mp
        if self.name == 'indgamma':
            return self._gmass(R1, self.a1, self.b1) * self._gmass(R2, self.a2, self.b2)
        if self.name == 'expmix':
            return self.w * self._emass(R1, self.c1) * self._emass(R2, self.c2) + \
                (1 - self.w) * self._emass(R1, self.c3) * self._emass(R2, self.c4)
        lo, hi = (-mp.inf, mp.log(self.s)) if R2 == 'N' else (mp.log(self.L), mp.inf)
        f = lambda v: mp.npdf((v - self.m2) / self.s2) / self.s2 * self._ln_cond(R1, v, 1)
        pts = [lo, hi]
        if lo == -mp.inf:
            pts = [lo, min(hi, self.m2) - 6 * self.s2, hi] if hi > self.m2 - 6 * self.s2 else [lo, hi]
        else:
            pts = [lo, max(lo, self.m2) + 6 * self.s2, hi]
        return mp.quad(f, pts)

    def interior_mass(self):
        """exact mass of (s, L) x (s, L)"""
        mp = self.mp
        tot = mp.mpf(1)
        NN, ND, DN, DD = self.corner('N', 'N'), self.corner('N', 'D'), self.corner('D', 'N'), self.corner('D', 'D')
        m1N = self.marg(1, 'N')
        m1D = self.marg(1, 'D')
        m2N = self.marg(2, 'N')
        m2D = self.marg(2, 'D')
        # inclusion-exclusion: P(x in I, y in I) = 1 - P(x out) - P(y out) + P(both out)
        return 1 - (m1N + m1D) - (m2N + m2D) + (NN + ND + DN + DD)

    def marg(self, which, R):
        mp = self.mp
        if self.name == 'indgamma':
            return self._gmass(R, self.a1, self.b1) if which == 1 else self._gmass(R, self.a2, self.b2)
        if self.name == 'expmix':
            if which == 1:
                return self.w * self._emass(R, self.c1) + (1 - self.w) * self._emass(R, self.c3)
            return self.w * self._emass(R, self.c2) + (1 - self.w) * self._emass(R, self.c4)
        m, sd = (self.m1, self.s1) if which == 1 else (self.m2, self.s2)
        if R == 'N':
            return mp.ncdf((mp.log(self.s) - m) / sd)
        return mp.ncdf(-(mp.log(self.L) - m) / sd)

    def dadi_func(self):
        import numpy
        from dadi.DFE import PDFs
        if self.name == 'indgamma':
            return PDFs.biv_ind_gamma
        if self.name == 'lognormal':
            return PDFs.biv_lognormal
        return expmix2d


def expmix2d(xx, yy, params):
    """user-defined asymmetric density: w*Exp(x;c1)Exp(y;c2) + (1-w)*Exp(x;c3)Exp(y;c4); [i,j] = pdf(xx[i], yy[j])"""
    import numpy
    w, c1, c2, c3, c4 = params
    e = lambda t, c: numpy.exp(-t / c) / c
    if numpy.ndim(xx) == 0 and numpy.ndim(yy) == 0:
        return float(w * e(xx, c1) * e(yy, c2) + (1 - w) * e(xx, c3) * e(yy, c4))
    xx = numpy.atleast_1d(numpy.asarray(xx, dtype=float))[:, None]
    yy = numpy.atleast_1d(numpy.asarray(yy, dtype=float))[None, :]
    return numpy.squeeze(w * e(xx, c1) * e(yy, c2) + (1 - w) * e(xx, c3) * e(yy, c4))


def oracle2d(cache, fam, theta, exterior=True, corners=4):
    """documented quadrature: double trapezoid over the negative grid + four edge terms + corner terms.
    corners=3 leaves out the both-strongly-deleterious corner (what the code documents); 4 adds it."""
    import numpy
    N = len(cache.neg_gammas)
    xs = [float(g) for g in cache.neg_gammas]
    ab = [-x for x in xs]
    S = numpy.asarray(numpy.ma.getdata(cache.spectra), dtype=float)
    W = [[float(fam.pdf(ab[i], ab[j])) for j in range(N)] for i in range(N)]
    inner = [trapz_explicit([W[i][j] * S[i, j] for j in range(N)], xs) for i in range(N)]
    tot = trapz_explicit(inner, xs)
    wi = float(trapz_explicit(numpy.array([float(trapz_explicit(numpy.array(W[i]), xs)) for i in range(N)]), xs))
    weights = dict(interior=wi)
    if not exterior:
        return theta * tot, weights
    e2D = [float(fam.e2('D', ab[i])) for i in range(N)]     # gamma2 strongly deleterious, gamma1 on the grid
    e2N = [float(fam.e2('N', ab[i])) for i in range(N)]
    e1D = [float(fam.e1('D', ab[j])) for j in range(N)]     # gamma1 strongly deleterious, gamma2 on the grid
    e1N = [float(fam.e1('N', ab[j])) for j in range(N)]
    tot = tot + trapz_explicit([e2D[i] * S[i, 0] for i in range(N)], xs)
    tot = tot + trapz_explicit([e2N[i] * S[i, N - 1] for i in range(N)], xs)
    tot = tot + trapz_explicit([e1D[j] * S[0, j] for j in range(N)], xs)
    tot = tot + trapz_explicit([e1N[j] * S[N - 1, j] for j in range(N)], xs)
    cNN, cDN, cND, cDD = [float(fam.corner(a, b)) for (a, b) in (('N', 'N'), ('D', 'N'), ('N', 'D'), ('D', 'D'))]
    tot = tot + S[N - 1, N - 1] * cNN + S[0, N - 1] * cDN + S[N - 1, 0] * cND
    if corners == 4:
        tot = tot + S[0, 0] * cDD
    weights.update(edge_g2_del=float(trapz_explicit(numpy.array(e2D), xs)), edge_g2_neu=float(trapz_explicit(numpy.array(e2N), xs)),
                   edge_g1_del=float(trapz_explicit(numpy.array(e1D), xs)), edge_g1_neu=float(trapz_explicit(numpy.array(e1N), xs)),
                   NN=cNN, DN=cDN, ND=cND, DD=cDD)
    return theta * tot, weights


def random_fam2d(rng, s, L, kind=None):
    kind = kind or rng.choice(['indgamma2', 'indgamma4', 'lognormal3', 'lognormal5', 'expmix'])
    gm = math.sqrt(s * L)
    if kind == 'indgamma2':
        p = [rng.uniform(0.3, 2.5), rng.uniform(0.15, 0.5) * L]
        if rng.random() < 0.3:
            p.append(rng.uniform(-1, 1))
        return Fam2D('indgamma', p, s, L)
    if kind == 'indgamma4':
        p = [rng.uniform(0.3, 2.5), rng.uniform(0.3, 2.5), rng.uniform(0.1, 0.5) * L, rng.uniform(0.1, 0.5) * L]
        if rng.random() < 0.3:
            p.append(rng.uniform(-1, 1))
        return Fam2D('indgamma', p, s, L)
    if kind == 'lognormal3':
        return Fam2D('lognormal', [math.log(gm) + rng.uniform(-1, 1.5), rng.uniform(0.6, 2.0),
                                   rng.choice([0.0, rng.uniform(-0.9, 0.9), 0.95])], s, L)
    if kind == 'lognormal5':
        return Fam2D('lognormal', [math.log(gm) + rng.uniform(-1, 1.5), math.log(gm) + rng.uniform(-1, 1.5),
                                   rng.uniform(0.6, 2.0), rng.uniform(0.6, 2.0), rng.uniform(-0.9, 0.9)], s, L)
    return Fam2D('expmix', [rng.uniform(0.2, 0.8), rng.uniform(0.05, 0.3) * L, rng.uniform(0.3, 0.8) * L,
                            rng.uniform(0.3, 0.8) * L, rng.uniform(0.05, 0.3) * L], s, L)


def drv_quad2d(tier, shard):
    warnings.simplefilter('ignore')
    import numpy
    from dadi import DFE
    n_par = 5 if tier == 'quick' else 14
    d = Driver('C17', 'quad2d.%d' % shard,
               bound='Cache2D (cpus=1) over a synthetic spectrum function asymmetric in (gamma1,gamma2) and in the two sample axes, and '
                     'a selection-free one; ns (3,2); gamma grids of 5-7 points, bounds in {(1e-2,30),(0.05,200),(1e-3,8)}; '
                     'additional_gammas [0.7, 5]; %d parameter sets per shard from biv_ind_gamma (2/3/4/5 params), biv_lognormal (3/5 '
                     'params, rho in (-0.9,0.95)) and a user-defined asymmetric two-component exponential density; theta in {1,0.37,321}; '
                     'integrate == theta*(double trapezoid + 4 edge + 3 corner terms) with mpmath masses, tolerance 2e-3*theta*max|S| '
                     '(quad/dblquad are called with epsabs=1e-4, epsrel=1e-3), exterior_int=False 1e-12; linear in theta 1e-12; '
                     'no-selection limit: == theta*S*W_documented (2e-3); the total weight of the property (all trapezoid terms + four exact corner '
                     'masses, which is 1 up to the trapezoid error - checked with mpmath) to 2e-3; '
                     'integrate_point_pos / integrate_symmetric_point_pos == documented quadrant formula (2e-3), quadrant weights sum to 1'
                     % n_par)
    import random
    rng = random.Random(d.rng.randrange(2 ** 30) * 16 + shard)
    bounds_l = [(1e-2, 30.0), (0.05, 200.0), (1e-3, 8.0)]
    gb = bounds_l[shard % 3]
    gp = 5 + shard % 3
    add = [0.7, 5.0]
    cache = DFE.Cache2D((1.4,), (3, 2), fake2d, [10], gamma_bounds=gb, gamma_pts=gp, additional_gammas=add, cpus=1)
    flat = DFE.Cache2D((1.4,), (3, 2), flat2d, [10], gamma_bounds=gb, gamma_pts=gp, additional_gammas=add, cpus=1)
    smax = float(numpy.max(numpy.abs(cache.spectra)))
    N = len(cache.neg_gammas)
    # cache contents: [i, j] holds the spectrum for (gammas[i], gammas[j])
    okc = all(maxrel(cache.spectra[i, j], fake2d((1.4, cache.gammas[i], cache.gammas[j]), (3, 2), 10)) <= 1e-15
              for i in range(len(cache.gammas)) for j in range(len(cache.gammas)))
    d.case(('cache-indexing', shard), okc, dict(gammas=cache.gammas.tolist()), fail_key='cache2d-indexing')
    TOL = 2e-3
    kinds = ['indgamma2', 'indgamma4', 'lognormal3', 'lognormal5', 'expmix']
    for ci in range(n_par):
        fam = random_fam2d(rng, gb[0], gb[1], kinds[(ci + shard) % 5])
        sel = fam.dadi_func()
        theta = [1.0, 0.37, 321.0][ci % 3]
        info = dict(bounds=gb, gamma_pts=gp, pdf=fam.name, params=fam.p, theta=theta)
        key = (shard, ci, fam.name, len(fam.p))
        want3, w = oracle2d(cache, fam, theta, corners=3)
        want4, _ = oracle2d(cache, fam, theta, corners=4)

        def full():
            got = cache.integrate(fam.p, None, sel, theta, None)
            e = maxrel(got, want3, scale=theta * smax)
            return e <= TOL, dict(err=e, weights=w)
        d.check(key + ('full',), full, info, fail_key='integrate2d-quadrature')

        def interior():
            got = cache.integrate(fam.p, None, sel, theta, None, exterior_int=False)
            want, _ = oracle2d(cache, fam, theta, exterior=False)
            e = maxrel(got, want, scale=theta * smax)
            return e <= 1e-12, dict(err=e)
        d.check(key + ('interior',), interior, info, fail_key='integrate2d-interior')

        def linear():
            a = numpy.ma.getdata(cache.integrate(fam.p, None, sel, 1.0, None))
            b = numpy.ma.getdata(cache.integrate(fam.p, None, sel, theta * 3.0, None))
            e = maxrel(b / (theta * 3.0), a)
            return e <= 1e-12, dict(err=e)
        d.check(key + ('linear',), linear, info, fail_key='integrate2d-theta-linearity')

        def nosel():
            got = numpy.ma.getdata(flat.integrate(fam.p, None, sel, theta, None))
            S = numpy.asarray(numpy.ma.getdata(flat.spectra[0, 0]), dtype=float)
            Wdoc = sum(w[k] for k in ('interior', 'edge_g2_del', 'edge_g2_neu', 'edge_g1_del', 'edge_g1_neu', 'NN', 'DN', 'ND'))
            e = maxrel(got, theta * S * Wdoc, scale=theta * float(numpy.max(S)))
            return e <= TOL, dict(err=e, W_documented=Wdoc)
        d.check(key + ('nosel-documented',), nosel, info, fail_key='integrate2d-no-selection-documented-weight')

        def total_one():
            """property: total quadrature weight is one up to quadrature error.  Quadrature error = what the trapezoid rule does to
            the interior and to the four edge integrals, obtained exactly from mpmath; everything else must add up."""
            got = numpy.ma.getdata(flat.integrate(fam.p, None, sel, 1.0, None))
            S = numpy.asarray(numpy.ma.getdata(flat.spectra[0, 0]), dtype=float)
            Wgot = float(numpy.mean(got / S))
            mp = fam.mp
            exact_int = float(fam.interior_mass())
            exact_edges = {
                'edge_g2_del': float(fam.marg(2, 'D') - fam.corner('N', 'D') - fam.corner('D', 'D')),
                'edge_g2_neu': float(fam.marg(2, 'N') - fam.corner('N', 'N') - fam.corner('D', 'N')),
                'edge_g1_del': float(fam.marg(1, 'D') - fam.corner('D', 'N') - fam.corner('D', 'D')),
                'edge_g1_neu': float(fam.marg(1, 'N') - fam.corner('N', 'N') - fam.corner('N', 'D'))}
            qerr = abs(w['interior'] - exact_int) + sum(abs(w[k] - v) for k, v in exact_edges.items())
            W4 = sum(w[k] for k in ('interior', 'edge_g2_del', 'edge_g2_neu', 'edge_g1_del', 'edge_g1_neu', 'NN', 'DN', 'ND', 'DD'))
            if abs(W4 - 1.0) > qerr + 1e-9:
                raise AssertionError('oracle decomposition does not add up: W4=%r qerr=%r' % (W4, qerr))
            ok = abs(Wgot - W4) <= TOL
            return ok, dict(total_weight=Wgot, expected_total_weight=W4, trapezoid_error=qerr, both_deleterious_corner_mass=w['DD'])
        d.check(key + ('nosel-total-one',), total_one, info, fail_key='integrate2d-both-deleterious-corner-omitted')
        # ---- point masses
        rho = fam.p[-1] if fam.name == 'lognormal' else rng.uniform(0, 0.9)
        rho = abs(rho) if rho != 0 else 0.3
        pp1, pp2 = round(rng.uniform(0.02, 0.3), 3), round(rng.uniform(0.02, 0.3), 3)
        g1, g2 = rng.choice(add), rng.choice(add)

        def quadrants(rho_, p1, p2, ga, gb_):
            neg_neg, _ = oracle2d(cache, fam, 1.0, corners=3)
            S = numpy.asarray(numpy.ma.getdata(cache.spectra), dtype=float)
            ia = list(cache.gammas).index(ga)
            ib = list(cache.gammas).index(gb_)
            xs = [float(g) for g in cache.neg_gammas]
            ab = [-x for x in xs]
            W = [[float(fam.pdf(ab[i], ab[j])) for j in range(N)] for i in range(N)]
            m2 = [float(trapz_explicit(numpy.array([W[i][j] for i in range(N)]), xs)) for j in range(N)]   # marginal for pop 2
            m1 = [float(trapz_explicit(numpy.array([W[i][j] for j in range(N)]), xs)) for i in range(N)]   # marginal for pop 1
            pos_pos = S[ia, ib]
            pos_neg = trapz_explicit([m2[j] * S[ia, j] for j in range(N)], xs)
            neg_pos = trapz_explicit([m1[i] * S[i, ib] for i in range(N)], xs)
            sq = math.sqrt(p1 * p2)
            ppp = p1 * p2 + rho_ * (sq - p1 * p2)
            ppn = (1 - rho_) * p1 * (1 - p2)
            pnp = (1 - rho_) * (1 - p1) * p2
            pnn = (1 - p1) * (1 - p2) + rho_ * (1 - sq - (1 - p1) * (1 - p2))
            return ppp * pos_pos + ppn * pos_neg + pnp * neg_pos + pnn * neg_neg, (ppp, ppn, pnp, pnn)

        def point():
            params = list(fam.p) + [pp1, g1, pp2, g2]
            got = cache.integrate_point_pos(params, None, sel, theta, rho=rho)
            want, ws = quadrants(rho, pp1, pp2, g1, g2)
            e = maxrel(got, theta * want, scale=theta * smax)
            return e <= TOL and abs(sum(ws) - 1) <= 1e-12, dict(err=e, quadrant_weights=ws, rho=rho, ppos=[pp1, pp2], gpos=[g1, g2])
        d.check(key + ('point',), point, info, fail_key='integrate_point_pos-2d')
        if fam.name == 'lognormal':
            def sym_point():
                params = list(fam.p) + [pp1, g1]
                got = cache.integrate_symmetric_point_pos(params, None, sel, theta)
                want, ws = quadrants(fam.p[-1], pp1, pp1, g1, g1)
                e = maxrel(got, theta * want, scale=theta * smax)
                return e <= TOL, dict(err=e, rho=fam.p[-1], ppos=pp1, gpos=g1)
            d.check(key + ('sym-point',), sym_point, info, fail_key='integrate_symmetric_point_pos')

    def missing():
        fam = random_fam2d(rng, gb[0], gb[1], 'indgamma2')
        try:
            cache.integrate_point_pos(list(fam.p) + [0.1, 3.33, 0.1, 5.0], None, fam.dadi_func(), 1.0)
        except IndexError:
            return True, {}
        return False, dict(note='no IndexError for an uncached positive gamma')
    d.check(('point-missing', shard), missing, {}, fail_key='integrate_point_pos-missing-gamma-not-reported')
    return d.results()


# ======================================================================================================
# mixtures
# ======================================================================================================
def drv_mixtures(tier):
    warnings.simplefilter('ignore')
    import numpy
    from dadi import DFE
    from dadi.DFE import PDFs, Cache2D_mod, Vourlaki2022
    n_par = 4 if tier == 'quick' else 20
    d = Driver('C17', 'mixtures',
               bound='synthetic 1-D (perfectly correlated) and 2-D caches over the same gamma grid (6 points, bounds (1e-2,30), '
                     'additional_gammas [0.7,5]), ns (3,2); %d parameter sets each for lognormal and gamma shared parameters; '
                     'mixture, mixture_symmetric_point_pos, mixture_point_pos, Vourlaki_mixture == explicit (1-p2d, p2d) / quadrant / '
                     'six-class bookkeeping of the oracle pieces, tolerance 2e-3*theta*max|S|; theta=1 for the point-mass mixtures '
                     '(plus theta=7.5 cases filed under the Cache1D theta defect); Vourlaki weights sum to one in the no-selection limit'
                     % n_par)
    rng = d.rng
    gb, gp, add = (1e-2, 30.0), 6, [0.7, 5.0]
    s1 = DFE.Cache1D((1.4,), (3, 2), fake1d_as2d, [10], gamma_bounds=gb, gamma_pts=gp, additional_gammas=add, cpus=1)
    s2 = DFE.Cache2D((1.4,), (3, 2), fake2d, [10], gamma_bounds=gb, gamma_pts=gp, additional_gammas=add, cpus=1)
    f1 = DFE.Cache1D((1.4,), (3, 2), flat1d_as2d, [10], gamma_bounds=gb, gamma_pts=gp, additional_gammas=add, cpus=1)
    f2 = DFE.Cache2D((1.4,), (3, 2), flat2d, [10], gamma_bounds=gb, gamma_pts=gp, additional_gammas=add, cpus=1)
    smax = float(numpy.max(numpy.abs(s2.spectra)))
    N = gp
    TOL = 2e-3
    xs = [float(g) for g in s2.neg_gammas]
    ab = [-x for x in xs]
    S2 = numpy.asarray(numpy.ma.getdata(s2.spectra), dtype=float)

    def S1_at(g):
        return numpy.asarray(numpy.ma.getdata(fake1d_as2d((1.4, g), (3, 2), 10)), dtype=float)

    def quadrants(fam, rho_, p1, p2, ga, gb_):
        neg_neg, _ = oracle2d(s2, fam, 1.0, corners=3)
        ia, ib = list(s2.gammas).index(ga), list(s2.gammas).index(gb_)
        W = [[float(fam.pdf(ab[i], ab[j])) for j in range(N)] for i in range(N)]
        m2 = [float(trapz_explicit(numpy.array([W[i][j] for i in range(N)]), xs)) for j in range(N)]
        m1 = [float(trapz_explicit(numpy.array([W[i][j] for j in range(N)]), xs)) for i in range(N)]
        pos_neg = trapz_explicit([m2[j] * S2[ia, j] for j in range(N)], xs)
        neg_pos = trapz_explicit([m1[i] * S2[i, ib] for i in range(N)], xs)
        sq = math.sqrt(p1 * p2)
        return (p1 * p2 + rho_ * (sq - p1 * p2)) * S2[ia, ib] + (1 - rho_) * p1 * (1 - p2) * pos_neg + \
            (1 - rho_) * (1 - p1) * p2 * neg_pos + ((1 - p1) * (1 - p2) + rho_ * (1 - sq - (1 - p1) * (1 - p2))) * neg_neg
    for famname in ('lognormal', 'gamma'):
        for ci in range(n_par):
            if famname == 'lognormal':
                shared = [math.log(0.5) + rng.uniform(-1, 1.5), rng.uniform(0.6, 2.0)]
                rho = rng.uniform(0.05, 0.9)
                fam = Fam2D('lognormal', shared + [rho], gb[0], gb[1])
                sel1, sel2, n1 = PDFs.lognormal, PDFs.biv_lognormal, 'lognormal'
            else:
                shared = [rng.uniform(0.3, 2.5), rng.uniform(2, 12)]
                rho = rng.uniform(0.05, 0.9)
                fam = Fam2D('indgamma', shared + [rho], gb[0], gb[1])
                sel1, sel2, n1 = PDFs.gamma, PDFs.biv_ind_gamma, 'gamma'
            p2d = round(rng.uniform(0.1, 0.9), 3)
            theta = [1.0, 0.37, 55.0][ci % 3]
            info = dict(family=famname, shared=shared, rho=rho, p2d=p2d, theta=theta)
            key = (famname, ci)
            o1, _ = oracle1d(s1, n1, shared, 1.0)
            o2, _ = oracle2d(s2, fam, 1.0, corners=3)

            def mix():
                got = DFE.mixture(shared + [rho, p2d], None, s1, s2, sel1, sel2, theta, None)
                want = theta * ((1 - p2d) * o1 + p2d * o2)
                e = maxrel(got, want, scale=theta * smax)
                return e <= TOL, dict(err=e)
            d.check(key + ('mixture',), mix, info, fail_key='mixture-weights')
            ppos1, ppos2 = round(rng.uniform(0.02, 0.3), 3), round(rng.uniform(0.02, 0.3), 3)
            g1, g2 = rng.choice(add), rng.choice(add)
            for th in (1.0, 7.5):
                infop = dict(info, theta=th, ppos=[ppos1, ppos2], gpos=[g1, g2])

                def mix_sym():
                    got = DFE.mixture_symmetric_point_pos(shared + [rho, ppos1, g1, p2d], None, s1, s2, sel1, sel2, th)
                    fs1 = (1 - ppos1) * th * o1 + ppos1 * th * S1_at(g1)
                    fs2 = th * quadrants(fam, rho, ppos1, ppos1, g1, g1)
                    e = maxrel(got, (1 - p2d) * fs1 + p2d * fs2, scale=th * smax)
                    return e <= TOL, dict(err=e)
                d.check(key + ('mixture_symmetric_point_pos', th), mix_sym, infop,
                        fail_key='mixture_symmetric_point_pos' if th == 1.0 else 'point-pos-cached-spectrum-not-scaled-by-theta')

                def mix_pp():
                    got = Cache2D_mod.mixture_point_pos(shared + [rho, ppos1, g1, ppos2, g2, p2d], None, s1, s2, sel1, sel2, th)
                    fs1 = (1 - ppos1) * th * o1 + ppos1 * th * S1_at(g1)
                    fs2 = th * quadrants(fam, rho, ppos1, ppos2, g1, g2)
                    e = maxrel(got, (1 - p2d) * fs1 + p2d * fs2, scale=th * smax)
                    return e <= TOL, dict(err=e)
                if th == 1.0 or ci == 0:
                    d.check(key + ('mixture_point_pos', th), mix_pp, infop, fail_key='mixture_point_pos-rho-passed-in-pts-slot')
        # Vourlaki
    for ci in range(n_par):
        a, b = rng.uniform(0.3, 2.5), rng.uniform(2, 12)
        pw, pc, pcp = [round(rng.uniform(0.05, 0.9), 3) for _ in range(3)]
        gpos = rng.choice(add)
        theta = [1.0, 0.37, 55.0][ci % 3]
        params = [a, b, pw, gpos, pc, pcp]
        info = dict(params=params, theta=theta)
        fam = Fam2D('indgamma', [a, b], gb[0], gb[1])

        def parts(c1, c2):
            Sx = numpy.asarray(numpy.ma.getdata(c2.spectra), dtype=float)
            m5, _ = oracle1d(c1, 'gamma', [a, b], 1.0)
            m6, _ = oracle2d(c2, fam, 1.0, corners=3)
            ip = list(c2.gammas).index(gpos)
            m2 = Sx[ip, ip]
            w = [float(Fam1D.pdf('gamma', x, [a, b])) for x in ab]
            wn, wd = float(Fam1D.cdf('gamma', gb[0], [a, b])), float(Fam1D.sf('gamma', gb[1], [a, b]))
            m4 = trapz_explicit([w[j] * Sx[ip, j] for j in range(N)], xs) + Sx[ip, 0] * wd + Sx[ip, N - 1] * wn
            m7 = trapz_explicit([w[i] * Sx[i, ip] for i in range(N)], xs) + Sx[0, ip] * wd + Sx[N - 1, ip] * wn
            return m5 * (1 - pw) * (1 - pc) + m6 * (1 - pw) * pc * (1 - pcp) + m7 * (1 - pw) * pc * pcp + \
                m2 * pw * (1 - pc) + m2 * pw * pc * pcp + m4 * pw * pc * (1 - pcp)

        def vour():
            got = Vourlaki2022.Vourlaki_mixture(params, None, s1, s2, theta, None)
            e = maxrel(got, theta * parts(s1, s2), scale=theta * smax)
            return e <= TOL, dict(err=e)
        d.check(('vourlaki', ci), vour, info, fail_key='vourlaki-mixture')

        def vour_flat():
            got = numpy.ma.getdata(Vourlaki2022.Vourlaki_mixture(params, None, f1, f2, theta, None))
            S = numpy.asarray(numpy.ma.getdata(f2.spectra[0, 0]), dtype=float)
            _, w1 = oracle1d(f1, 'gamma', [a, b], 1.0)
            W1 = w1['interior'] + w1['neutral'] + w1['lethal']
            _, w2 = oracle2d(f2, fam, 1.0, corners=3)
            W2 = sum(w2[k] for k in ('interior', 'edge_g2_del', 'edge_g2_neu', 'edge_g1_del', 'edge_g1_neu', 'NN', 'DN', 'ND'))
            classes = [(1 - pw) * (1 - pc), (1 - pw) * pc * (1 - pcp), (1 - pw) * pc * pcp, pw * (1 - pc), pw * pc * pcp, pw * pc * (1 - pcp)]
            Wtot = classes[0] * W1 + classes[1] * W2 + classes[2] * W1 + classes[3] + classes[4] + classes[5] * W1
            e = maxrel(got, theta * S * Wtot, scale=theta * float(numpy.max(S)))
            return e <= TOL and abs(sum(classes) - 1) <= 1e-12, dict(err=e, class_weights=classes)
        d.check(('vourlaki-flat', ci), vour_flat, info, fail_key='vourlaki-mixture-no-selection')
    return d.results()


# ======================================================================================================
# split_jobs / merge
# ======================================================================================================
def _same_cache(a, b):
    import numpy
    A = numpy.asarray(numpy.ma.getdata(a.spectra), dtype=float)
    B = numpy.asarray(numpy.ma.getdata(b.spectra), dtype=float)
    return A.shape == B.shape and bool(numpy.array_equal(A, B)) and bool(numpy.array_equal(a.gammas, b.gammas))


def drv_merge(tier):
    warnings.simplefilter('ignore')
    import copy
    import numpy
    from dadi import DFE
    kmax = 4 if tier == 'quick' else 6
    d = Driver('C17', 'merge',
               bound='Cache2D over the synthetic function, 3 negative gammas + 1 additional (16 pairs), cpus=1, split_jobs 1..%d '
                     '(and one larger than the number of pairs): jobs partition the pairs by evaluation index mod split_jobs; every '
                     'non-empty subset of jobs in shuffled order: merge succeeds iff all jobs are present and then equals the unsplit '
                     'cache bitwise, otherwise ValueError; every job duplicated; a duplicated job with one altered entry -> ValueError; '
                     'merge leaves its inputs untouched' % kmax)
    rng = d.rng
    mk = lambda **kw: DFE.Cache2D((1.4,), (3, 2), fake2d, [10], gamma_bounds=(0.1, 10.0), gamma_pts=3, additional_gammas=[2.0], cpus=1, **kw)
    full = mk()
    G = len(full.gammas)
    for k in list(range(1, kmax + 1)) + [G * G + 3]:
        jobs = [mk(split_jobs=k, this_job_id=j) for j in range(k)]
        # partition by evaluation index
        okp = True
        for i in range(G):
            for j in range(G):
                owner = (i * G + j) % k
                for jj, c in enumerate(jobs):
                    present = c.spectra[i][j] is not None
                    if present != (jj == owner):
                        okp = False
        d.case(('partition', k), okp, dict(split_jobs=k), fail_key='split-jobs-partition')
        if k > kmax:
            subsets = [tuple(range(k))]
        else:
            subsets = [s for r in range(1, k + 1) for s in itertools.combinations(range(k), r)]
        for sub in subsets:
            order = list(sub)
            rng.shuffle(order)
            complete = len(sub) == k

            def run():
                snapshot = [[x is None for x in row] for row in jobs[order[0]].spectra] if k > 1 else None
                try:
                    m = DFE.Cache2D.merge([jobs[j] for j in order])
                except ValueError as e:
                    return (not complete), dict(raised=str(e)[:80])
                if not complete:
                    return False, dict(note='incomplete set of jobs merged without an error', missing=[j for j in range(k) if j not in sub])
                same = _same_cache(m, full)
                untouched = True if snapshot is None else snapshot == [[x is None for x in row] for row in jobs[order[0]].spectra]
                return same and untouched, dict(same=same, inputs_untouched=untouched)
            d.check(('subset', k, tuple(order)), run, dict(split_jobs=k, jobs=order),
                    fail_key='merge-missing-job-not-reported' if not complete else 'merge-result')
        if k <= kmax:
            for dup in range(k):
                order = list(range(k)) + [dup]
                rng.shuffle(order)

                def run_dup():
                    m = DFE.Cache2D.merge([jobs[j] for j in order])
                    return _same_cache(m, full), {}
                d.check(('duplicate', k, dup), run_dup, dict(split_jobs=k, jobs=order), fail_key='merge-duplicate-job')

                def run_conflict():
                    bad = copy.deepcopy(jobs[dup])
                    cells = [(i, j) for i in range(G) for j in range(G) if bad.spectra[i][j] is not None]
                    i, j = rng.choice(cells)
                    bad.spectra[i][j] = bad.spectra[i][j] * 1.0000001
                    for pos in (0, len(order)):
                        lst = [jobs[jx] for jx in range(k)]
                        lst.insert(pos if pos == 0 else len(lst), bad)
                        try:
                            DFE.Cache2D.merge(lst)
                        except ValueError as e:
                            continue
                        return False, dict(note='conflicting duplicate merged silently', cell=[i, j], position=pos)
                    return True, {}
                d.check(('conflict', k, dup), run_conflict, dict(split_jobs=k, dup=dup), fail_key='merge-conflict-not-reported')
    return d.results()


# ======================================================================================================
# schedules: cpus, split_jobs with real (small) demographic models
# ======================================================================================================
def _spawned(code, timeout=600):
    """run `code` in a fresh interpreter that imports the overlay's dadi; returns (returncode, stdout, stderr)"""
    import subprocess, dadi
    ov = os.environ.get('DADI_OVERLAY') or os.path.dirname(os.path.dirname(os.path.abspath(dadi.__file__)))
    env = dict(os.environ, PYTHONPATH=ov + os.pathsep + '/verif', PYTHONDONTWRITEBYTECODE='1')
    r = subprocess.run([sys.executable, '-W', 'ignore', '-c', code], capture_output=True, text=True, env=env, timeout=timeout)
    return r.returncode, r.stdout, r.stderr


def drv_sched1d(tier):
    warnings.simplefilter('ignore')
    import numpy
    from dadi import DFE
    cpus_l = [1, 2, 4] if tier == 'quick' else list(range(1, 17))
    d = Driver('C17', 'sched1d',
               bound='Cache1D of two_epoch_sel (nu 2, T 0.1; ns 6; pts 10/12/14; 7 negative gammas in (1e-2,20) + additional [1,5]) and of '
                     'the synthetic function (9 gammas) built with cpus in %r: gammas, spectra and neutral spectrum bitwise equal to the '
                     'explicit loop over the gamma grid; no entry missing' % (cpus_l,))
    from dadi import Numerics
    model = DFE.DemogSelModels.two_epoch_sel
    fex = Numerics.make_extrap_func(model)
    kw = dict(gamma_bounds=(1e-2, 20.0), gamma_pts=7, additional_gammas=[1.0, 5.0])
    ref = None
    for cpus in cpus_l:
        def run():
            c = DFE.Cache1D((2.0, 0.1), (6,), model, [10, 12, 14], cpus=cpus, **kw)
            A = numpy.asarray(numpy.ma.getdata(c.spectra), dtype=float)
            want = numpy.array([numpy.ma.getdata(fex((2.0, 0.1, g), (6,), [10, 12, 14])) for g in c.gammas])
            neu = numpy.ma.getdata(fex((2.0, 0.1, 0), (6,), [10, 12, 14]))
            ok = A.shape == want.shape and bool(numpy.array_equal(A, want)) and bool(numpy.array_equal(numpy.ma.getdata(c.neu_spec), neu))
            return ok, dict(shape=list(A.shape))
        d.check(('two_epoch_sel', cpus), run, dict(cpus=cpus), fail_key='cache1d-schedule-dependence')

        def run_fake():
            c = DFE.Cache1D((1.7,), (7,), fake1d, [10], cpus=cpus, gamma_bounds=(1e-3, 100.0), gamma_pts=8, additional_gammas=[3.0])
            want = numpy.array([numpy.ma.getdata(fake1d((1.7, g), (7,), 10)) for g in c.gammas])
            A = numpy.asarray(numpy.ma.getdata(c.spectra), dtype=float)
            return A.shape == want.shape and bool(numpy.array_equal(A, want)), {}
        d.check(('fake', cpus), run_fake, dict(cpus=cpus), fail_key='cache1d-schedule-dependence')
    return d.results()


def drv_sched2d(tier):
    warnings.simplefilter('ignore')
    import numpy
    from dadi import DFE, Numerics
    cpus_l = [1, 2, 4] if tier == 'quick' else [1, 2, 3, 4, 6, 8, 12, 16]
    sj_l = [1, 2, 3] if tier == 'quick' else [1, 2, 3, 4, 5, 6]
    d = Driver('C17', 'sched2d',
               bound='Cache2D of split_mig_sel (nu1 1.5, nu2 0.7, T 0.1, m 1; ns (3,3); pts 8/10/12; 3 negative gammas in (0.1,10) + '
                     'additional [2]) with cpus in %r x split_jobs in %r (jobs merged): spectra bitwise equal to the explicit double loop; '
                     'the synthetic function (5x5 pairs) with the same schedules' % (cpus_l, sj_l))
    model = DFE.DemogSelModels.split_mig_sel
    fex = Numerics.make_extrap_func(model)
    dp, ns, pts = (1.5, 0.7, 0.1, 1.0), (3, 3), [8, 10, 12]
    kw = dict(gamma_bounds=(0.1, 10.0), gamma_pts=3, additional_gammas=[2.0])
    gam = list(-numpy.logspace(1, -1, 3)) + [2.0]
    want = numpy.array([[numpy.ma.getdata(fex(dp + (g1, g2), ns, pts)) for g2 in gam] for g1 in gam])
    for cpus in cpus_l:
        for sj in sj_l:
            if tier != 'quick' and cpus > 4 and sj > 2:
                continue

            def run():
                if sj == 1:
                    c = DFE.Cache2D(dp, ns, model, pts, cpus=cpus, **kw)
                else:
                    c = DFE.Cache2D.merge([DFE.Cache2D(dp, ns, model, pts, cpus=cpus, split_jobs=sj, this_job_id=j, **kw)
                                           for j in range(sj)])
                A = numpy.asarray(numpy.ma.getdata(c.spectra), dtype=float)
                ok = A.shape == want.shape and bool(numpy.array_equal(A, want)) and bool(numpy.allclose(c.gammas, gam, rtol=1e-14))
                return ok, dict(shape=list(A.shape), maxdiff=float(numpy.max(numpy.abs(A - want))) if A.shape == want.shape else None)
            d.check(('split_mig_sel', cpus, sj), run, dict(cpus=cpus, split_jobs=sj), fail_key='cache2d-schedule-dependence')

            def run_fake():
                k2 = dict(gamma_bounds=(1e-2, 50.0), gamma_pts=4, additional_gammas=[3.0])
                if sj == 1:
                    c = DFE.Cache2D((1.4,), (3, 2), fake2d, [10], cpus=cpus, **k2)
                else:
                    c = DFE.Cache2D.merge([DFE.Cache2D((1.4,), (3, 2), fake2d, [10], cpus=cpus, split_jobs=sj, this_job_id=j, **k2)
                                           for j in range(sj)])
                w = numpy.array([[numpy.ma.getdata(fake2d((1.4, a, b), (3, 2), 10)) for b in c.gammas] for a in c.gammas])
                A = numpy.asarray(numpy.ma.getdata(c.spectra), dtype=float)
                return A.shape == w.shape and bool(numpy.array_equal(A, w)), {}
            d.check(('fake', cpus, sj), run_fake, dict(cpus=cpus, split_jobs=sj), fail_key='cache2d-schedule-dependence')
    return d.results()


# ======================================================================================================
# failing workers
# ======================================================================================================
class _Boom(Exception):
    pass


def _mk_raiser1d(bad_gamma, mode):
    def raiser1d(params, ns, pts):
        if params[-1] == bad_gamma:
            if mode == 'raise':
                raise _Boom('worker failed on gamma %r' % (bad_gamma,))
            if mode == 'valueerror2':
                raise ValueError(7, 'two-argument exception')
            os._exit(3)
        return fake1d(params, ns, pts)
    return raiser1d


def _mk_raiser2d(bad_pair, mode):
    def raiser2d(params, ns, pts):
        if (params[-2], params[-1]) == bad_pair:
            if mode == 'raise':
                raise _Boom('worker failed on %r' % (bad_pair,))
            os._exit(3)
        return fake2d(params, ns, pts)
    return raiser2d


def drv_faults(tier):
    warnings.simplefilter('ignore')
    import io, contextlib
    import numpy
    from dadi import DFE
    cpus_l = [1, 2] if tier == 'quick' else [1, 2, 3, 5]
    d = Driver('C17', 'faults',
               bound='synthetic spectrum function that raises (custom exception, two-argument ValueError) or kills its process '
                     '(os._exit) on one chosen gamma / gamma pair: every gamma of a 5+1 point Cache1D grid, %s pairs of a 3+1 Cache2D '
                     'grid, cpus in %r (process death only with cpus>=2), also inside a split job; the constructor (or merge) must '
                     'raise instead of returning a cache with a missing or foreign entry' % ('6' if tier == 'quick' else 'all 16', cpus_l))
    rng = d.rng
    g1 = list(-numpy.logspace(numpy.log10(10.0), numpy.log10(0.1), 5)) + [2.0]

    def quiet(fn):
        buf = io.StringIO()
        with contextlib.redirect_stderr(buf), contextlib.redirect_stdout(buf):
            return fn()

    def expect_failure(build, check_complete):
        try:
            c = quiet(build)
        except BaseException as e:
            if isinstance(e, (KeyboardInterrupt, SystemExit)):
                raise
            return True, dict(raised=type(e).__name__)
        return False, dict(note='no error reported', complete=check_complete(c))
    for cpus in cpus_l:
        for gi, bad in enumerate(g1):
            for mode in ('raise', 'valueerror2', 'exit'):
                if mode == 'exit' and (cpus < 2 or gi % 3):
                    continue
                if mode == 'valueerror2' and gi % 2:
                    continue
                build = lambda: DFE.Cache1D((1.7,), (5,), _mk_raiser1d(bad, mode), [10], cpus=cpus, gamma_bounds=(0.1, 10.0),
                                            gamma_pts=5, additional_gammas=[2.0])
                d.check(('1d', cpus, gi, mode), lambda: expect_failure(build, lambda c: bool(all(x is not None for x in c.spectra))),
                        dict(cpus=cpus, bad_gamma=bad, mode=mode), fail_key='cache1d-worker-failure-absorbed-' + mode)
    g2 = list(-numpy.logspace(1, -1, 3)) + [2.0]
    pairs = [(a, b) for a in g2 for b in g2]
    if tier == 'quick':
        pairs = rng.sample(pairs, 6)
    for cpus in cpus_l:
        for pi, bad in enumerate(pairs):
            for mode in ('raise', 'exit'):
                if mode == 'exit' and (cpus < 2 or pi % 3):
                    continue
                build = lambda: DFE.Cache2D((1.4,), (3, 2), _mk_raiser2d(bad, mode), [10], cpus=cpus, gamma_bounds=(0.1, 10.0),
                                            gamma_pts=3, additional_gammas=[2.0])
                d.check(('2d', cpus, pi, mode), lambda: expect_failure(build, lambda c: True),
                        dict(cpus=cpus, bad_pair=list(bad), mode=mode), fail_key='cache2d-worker-failure-absorbed-' + mode)
        # inside split jobs: the failing job must fail, or at the latest the merge
        bad = pairs[0]
        for mode in ('raise', 'exit'):
            if mode == 'exit' and cpus < 2:
                continue

            def build_split():
                jobs = [DFE.Cache2D((1.4,), (3, 2), _mk_raiser2d(bad, mode), [10], cpus=cpus, gamma_bounds=(0.1, 10.0), gamma_pts=3,
                                    additional_gammas=[2.0], split_jobs=2, this_job_id=j) for j in range(2)]
                return DFE.Cache2D.merge(jobs)
            d.check(('2d-split', cpus, mode), lambda: expect_failure(build_split, lambda c: True),
                    dict(cpus=cpus, bad_pair=list(bad), mode=mode, split_jobs=2), fail_key='cache2d-split-worker-failure-absorbed-' + mode)
    return d.results()
