"""Bounded run-time-contract driver (E4) for C06: splits, admixture constructors, in-place pulses,
remove/filter/reorder conserve marginal densities (dadi.PhiManip).

Oracle (independent of dadi's code): the *deposition law* re-derived from the property.  A density value
phi at a source point whose ad-mixed frequency is `ad` is deposited on the two nodes z_l <= ad <= z_u of
the new axis' grid in value proportion fl:fu = (z_u-ad):(ad-z_l) (so that the node values carry the
mixture frequency: fl z_l + fu z_u = ad) and scaled by N with  w_l fl N + w_u fu N = phi  (w the
trapezoid weights: integrating the new population out returns phi).  Constructors: that array.  Pulses:
deposit on a temporary axis carrying the destination's grid, integrate the old destination axis out
(explicit trapezoid weights), put the temporary axis in its place.  Brackets are found with a different
convention from dadi's (right-continuous), which is immaterial because the law is continuous in `ad`.
Besides the full-array comparison each case is checked for the conservation law itself
(marginal over the new / destination axis unchanged), identity at proportion 0, copy at a pure split,
support and mean frequency of the new axis, simplex acceptance and rejection above 1.
"""
import math
import itertools
from vf.core import Task
from vf.bounded import Driver

EPS = 2.220446049250313e-16


def tasks(tier):
    names = ['drv_split1d', 'drv_construct', 'drv_pulse2d', 'drv_pulse3d', 'drv_pulse4d', 'drv_pulse5d',
             'drv_pulse_grids', 'drv_simplex', 'drv_remove_reorder']
    return [Task('props.bounded_C06:%s' % n, name='C06/bounded/%s' % n[4:], tier=tier, timeout=900) for n in names]


# ------------------------------------------------------------------------------------------------
# oracle
# ------------------------------------------------------------------------------------------------

def trapw(xx):
    import numpy
    xx = numpy.asarray(xx, dtype=float)
    w = numpy.zeros(len(xx))
    w[:-1] += numpy.diff(xx) / 2
    w[1:] += numpy.diff(xx) / 2
    return w


def bcast(v, axis, D):
    import numpy
    sh = [1] * D
    sh[axis] = -1
    return numpy.asarray(v, dtype=float).reshape(sh)


def mixture(coefs, grids):
    """ad[idx] = sum_p coefs[p] * grids[p][idx_p]"""
    D = len(grids)
    ad = 0.0
    for p in range(D):
        ad = ad + coefs[p] * bcast(grids[p], p, D)
    return ad


def ref_new_axis(phi, ad, zz):
    """The array with one more (last) axis on grid zz obtained by the deposition law."""
    import numpy
    zz = numpy.asarray(zz, dtype=float)
    L = len(zz)
    w = trapw(zz)
    ad = numpy.broadcast_to(ad, phi.shape)
    lower = numpy.clip(numpy.searchsorted(zz, ad, side='right') - 1, 0, L - 2)
    zl, zu = zz[lower], zz[lower + 1]
    fu = (ad - zl) / (zu - zl)
    fl = (zu - ad) / (zu - zl)
    N = phi / (fl * w[lower] + fu * w[lower + 1])
    out = numpy.zeros(phi.shape + (L,))
    idx = numpy.indices(phi.shape)
    numpy.add.at(out, tuple(idx) + (lower,), fl * N)
    numpy.add.at(out, tuple(idx) + (lower + 1,), fu * N)
    return out


def ref_pulse(phi, coefs, grids, dest):
    import numpy
    D = phi.ndim
    ad = mixture(coefs, grids)
    tmp = ref_new_axis(phi, ad, grids[dest])                  # axes 0..D-1, new axis D
    out = (tmp * bcast(trapw(grids[dest]), dest, D + 1)).sum(axis=dest)   # integrate the old destination out
    return numpy.moveaxis(out, -1, dest)


def marginal(phi, xx, axis):
    return (phi * bcast(trapw(xx), axis, phi.ndim)).sum(axis=axis)


# ------------------------------------------------------------------------------------------------
# inputs
# ------------------------------------------------------------------------------------------------

def make_grid(rng, pts, kind):
    import numpy
    if kind == 'uniform':          # pts-1 a power of two => nodes are dyadic, mixtures with dyadic f land on nodes
        return numpy.linspace(0, 1, pts)
    if kind == 'dyadic':
        s = set([0.0, 1.0])
        while len(s) < pts:
            s.add(rng.randrange(1, 32) / 32. if pts <= 12 else rng.randrange(1, 256) / 256.)
        return numpy.array(sorted(s))
    if kind == 'default':
        unif = numpy.linspace(-1, 1, pts)
        g = 1. / (1. + numpy.exp(-8.0 * unif))
        return (g - g[0]) / (g[-1] - g[0])
    hmin = min(1e-2, 0.1 / pts)
    while True:
        xs = sorted([0.0, 1.0] + [rng.uniform(0.01, 0.99) for _ in range(pts - 2)])
        if min(b - a for a, b in zip(xs, xs[1:])) > hmin:
            return numpy.array(xs)


GRID_KINDS = ['uniform', 'dyadic', 'default', 'random']


def make_phi(rng, nprng, shape, kind):
    import numpy
    if kind == 'pos':
        return nprng.uniform(0.1, 2.0, size=shape)
    if kind == 'signed':
        return nprng.uniform(-1.0, 1.0, size=shape)
    if kind == 'spike':
        phi = numpy.zeros(shape)
        for _ in range(rng.randrange(1, 4)):
            phi[tuple(rng.randrange(s) for s in shape)] = rng.uniform(0.5, 3.0)
        return phi
    phi = nprng.uniform(0.5, 1.5, size=shape)      # 'edge': large values on the boundary faces
    for a in range(len(shape)):
        sl = [slice(None)] * len(shape)
        sl[a] = rng.choice([0, -1])
        phi[tuple(sl)] *= 20.0
    return phi


PHI_KINDS = ['pos', 'signed', 'spike', 'edge']


def simplex_point(rng, k, kind):
    """k source proportions (the destination gets 1 - sum)."""
    if kind == 'zero':
        return [0.0] * k
    if kind == 'vertex':
        f = [0.0] * k
        f[rng.randrange(k)] = 1.0
        return f
    if kind == 'dyadic':          # multiples of 1/8, sum <= 1
        while True:
            f = [rng.randrange(0, 9) / 8. for _ in range(k)]
            if sum(f) <= 1:
                return f
    if kind == 'face':            # sum exactly 1 with dyadic entries (destination keeps nothing)
        cuts = sorted(rng.randrange(0, 17) for _ in range(k - 1))
        return [(b - a) / 16. for a, b in zip([0] + cuts, cuts + [16])]
    if kind == 'partial':         # some sources at exactly 0
        f = [rng.uniform(0, 1. / k) for _ in range(k)]
        f[rng.randrange(k)] = 0.0
        return f
    if kind == 'roundoff' and k >= 2:   # the mixture at the all-ones corner evaluates to 1+ulp in floating point
        for _ in range(2000):
            f = [rng.random() / k for _ in range(k)]
            c = 1.0
            for v in f:
                c = c - v
            tot = 0.0
            for v in f:
                tot = tot + v
            if tot + c > 1.0:
                return f
    while True:
        f = [rng.random() for _ in range(k)]
        if sum(f) < 0.999:
            return f


F_KINDS = ['zero', 'vertex', 'dyadic', 'face', 'partial', 'random', 'roundoff']


def _lst(a):
    import numpy
    return numpy.asarray(a, dtype=float).tolist()


def _info(phi, grids, **kw):
    i = dict(grids=[_lst(g) for g in grids])
    if phi.size <= 36:
        i['phi'] = _lst(phi)
    else:
        i['phi_shape'] = list(phi.shape)
    i.update(kw)
    return i


def _err(got, want):
    import numpy
    got = numpy.asarray(got, dtype=float)
    if got.shape != want.shape or not numpy.all(numpy.isfinite(got)):
        return float('inf')
    return float(numpy.max(numpy.abs(got - want))) if got.size else 0.0


def _hmin(g):
    import numpy
    return float(numpy.min(numpy.diff(numpy.asarray(g, dtype=float))))


def val_tol(ref, dest_grid):
    """A 1-ulp difference in the mixture frequency moves a fraction by ulp/h, and the mixture is a sum of up to five rounded
    products: 64 eps max|ref| / h_min (observed worst ~30 eps max/h_min on strongly non-uniform grids)."""
    import numpy
    return 64 * EPS * float(numpy.max(numpy.abs(ref))) / _hmin(dest_grid) + 1e-300


# ------------------------------------------------------------------------------------------------
# phi_1D_to_2D
# ------------------------------------------------------------------------------------------------

def drv_split1d(tier):
    import numpy
    from dadi import PhiManip
    nc = 200 if tier == 'quick' else 3000
    d = Driver('C06', 'split1d', bound='phi_1D_to_2D: %d random 1-D densities (positive, signed, spike, boundary-heavy) on grids of 3..40 points (uniform, dyadic, '
               'dadi-like, random): off-diagonal zero, marginal over either population equals the parent at every interior node at 8 eps relative '
               '(copy of the parent), and at the two end nodes (separate fail_key); input not modified' % nc)
    rng, nprng = d.rng, d.nprng()
    for ci in range(nc):
        xx = make_grid(rng, rng.randrange(3, 41), GRID_KINDS[ci % 4])
        phi = make_phi(rng, nprng, (len(xx),), PHI_KINDS[ci % 4])
        if PHI_KINDS[ci % 4] == 'spike' and ci % 8 < 4:
            phi[rng.choice([0, -1])] = 1.5
        p0 = phi.copy()
        info = _info(phi, [xx])
        try:
            p2 = PhiManip.phi_1D_to_2D(xx, phi)
        except Exception as e:
            d.case((ci, 'exc'), False, dict(info, exception=repr(e)[:300]), fail_key='split1d-exception')
            continue
        d.case((ci, 'pure'), bool(numpy.array_equal(phi, p0)), info, fail_key='input-mutated')
        off = p2.copy()
        off[numpy.arange(len(xx)), numpy.arange(len(xx))] = 0
        d.case((ci, 'offdiag'), p2.shape == (len(xx), len(xx)) and not off.any(), info, fail_key='split1d-offdiagonal')
        for ax in (0, 1):
            m = marginal(p2, xx, ax)
            e = numpy.abs(m - phi)
            ok_int = bool(numpy.all(e[1:-1] <= 8 * EPS * numpy.abs(phi[1:-1])))
            d.case((ci, 'interior', ax), ok_int, dict(info, axis=ax, maxerr=float(e[1:-1].max()) if len(e) > 2 else 0.0), fail_key='split1d-interior-marginal')
            ends_nontrivial = bool(phi[0] != 0 or phi[-1] != 0)
            ok_end = bool(e[0] <= 8 * EPS * abs(phi[0]) and e[-1] <= 8 * EPS * abs(phi[-1]))
            d.case((ci, 'ends', ax), ok_end, dict(xx=_lst(xx[:3]) + ['...'] + _lst(xx[-2:]), phi_ends=[float(phi[0]), float(phi[-1])],
                   marginal_ends=[float(m[0]), float(m[-1])], axis=ax), nontrivial=ends_nontrivial, fail_key='split1d-endpoints-dropped')
    return d.results()


# ------------------------------------------------------------------------------------------------
# constructors
# ------------------------------------------------------------------------------------------------

def _check_new_axis(d, key, got, phi, ad, zz, info, fk):
    """conservation, support and mean frequency of the new (last) axis"""
    import numpy
    zz = numpy.asarray(zz, dtype=float)
    m = marginal(got, zz, got.ndim - 1)
    e = numpy.abs(m - phi)
    d.case(key + ('conserve',), bool(numpy.all(e <= 16 * EPS * numpy.abs(phi))), dict(info, maxerr=float(e.max())), fail_key=fk + '-marginal-not-conserved')
    ad = numpy.broadcast_to(ad, phi.shape)
    nz = got != 0
    cnt = nz.sum(axis=-1)
    first = numpy.argmax(nz, axis=-1)
    last = got.shape[-1] - 1 - numpy.argmax(nz[..., ::-1], axis=-1)
    has = cnt > 0
    slack = 4 * EPS
    ok_sup = bool(numpy.all(cnt[has] <= 2) and numpy.all((last - first)[has] <= 1)
                  and numpy.all(zz[first][has] <= ad[has] + slack) and numpy.all(zz[last][has] >= ad[has] - slack)
                  and numpy.all(has == (phi != 0)))
    d.case(key + ('support',), ok_sup, info, fail_key=fk + '-support')
    s1 = (got * zz).sum(axis=-1)
    s0 = got.sum(axis=-1)
    sa = numpy.abs(got).sum(axis=-1)
    ok_mean = bool(numpy.all(numpy.abs(s1 - ad * s0) <= 64 * EPS * sa))
    d.case(key + ('mean',), ok_mean, dict(info, maxdev=float(numpy.max(numpy.abs(s1 - ad * s0)))), fail_key=fk + '-mixture-frequency')


def drv_construct(tier):
    import numpy
    from dadi import PhiManip
    nc = 420 if tier == 'quick' else 12000
    d = Driver('C06', 'construct', bound='phi_2D_to_3D_split_1/_split_2/_admix, phi_3D_to_4D, phi_4D_to_5D: %d random cases; every axis on its own grid (3..9 / 3..6 / 3..5 points; '
               'uniform-dyadic, dyadic, dadi-like, random), proportions 0, vertices (1), multiples of 1/8 (mixtures landing exactly on nodes), faces (sum=1), '
               'partial zeros, random interior, vectors whose mixture at the all-ones corner rounds to 1+ulp; full array vs deposition-law oracle at 64 eps max/h_min; marginal over the new population equals the input at 16 eps relative '
               'elementwise; support = two adjacent bracketing nodes; value-weighted mean = mixture frequency; pure split = copy of the parent; input not modified' % nc)
    rng, nprng = d.rng, d.nprng()
    for ci in range(nc):
        which = ['admix23', 'split1', 'split2', '3to4', '4to5', 'admix23'][ci % 6]
        fkind = F_KINDS[(ci // 6) % len(F_KINDS)]
        pk = PHI_KINDS[ci % 4]
        if which in ('split1', 'split2'):
            xx = make_grid(rng, rng.randrange(3, 10), rng.choice(GRID_KINDS))
            grids, zz = [xx, xx], xx
            phi = make_phi(rng, nprng, (len(xx),) * 2, pk)
            coefs = [1.0, 0.0] if which == 'split1' else [0.0, 1.0]
            fs = []
            call = lambda p: getattr(PhiManip, 'phi_2D_to_3D_' + ('split_1' if which == 'split1' else 'split_2'))(xx, p)
        else:
            D = {'admix23': 2, '3to4': 3, '4to5': 4}[which]
            pr = {2: (3, 9), 3: (3, 6), 4: (3, 5)}[D]
            same = ci % 3 == 0
            g0 = make_grid(rng, rng.randrange(pr[0], pr[1] + 1), rng.choice(GRID_KINDS))
            grids = [g0 if same else make_grid(rng, rng.randrange(pr[0], pr[1] + 1), rng.choice(GRID_KINDS)) for _ in range(D)]
            zz = g0 if same else make_grid(rng, rng.randrange(pr[0], pr[1] + 1), rng.choice(GRID_KINDS))
            phi = make_phi(rng, nprng, tuple(len(g) for g in grids), pk)
            fs = simplex_point(rng, D - 1, fkind)
            coefs = list(fs) + [1.0 - sum(fs)]
            fn = {'admix23': PhiManip.phi_2D_to_3D_admix, '3to4': PhiManip.phi_3D_to_4D, '4to5': PhiManip.phi_4D_to_5D}[which]
            call = lambda p, fn=fn, fs=fs, grids=grids, zz=zz: fn(p, *(list(fs) + list(grids) + [zz]))
        info = _info(phi, grids, new_grid=_lst(zz), fs=fs, function=which, f_kind=fkind)
        key = (which, ci, fkind, pk)
        p0 = phi.copy()
        try:
            got = call(phi)
        except Exception as e:
            d.case(key, False, dict(info, exception=repr(e)[:300]), fail_key='construct-exception')
            continue
        d.case(key + ('pure',), bool(numpy.array_equal(phi, p0)), info, fail_key='input-mutated')
        ad = mixture(coefs, grids)
        want = ref_new_axis(phi, ad, zz)
        e = _err(got, want)
        tol = val_tol(want, zz)
        d.case(key, e <= tol, dict(info, err=e, tol=tol), fail_key='construct-value')
        if numpy.asarray(got).shape == want.shape:
            _check_new_axis(d, key, numpy.asarray(got), phi, ad, zz, info, 'construct')
        # a pure split (one proportion equal to 1, new grid = that parent's grid) is a copy of the parent
        src = [p for p, c in enumerate(coefs) if c == 1.0]
        if src and len(zz) == len(grids[src[0]]) and numpy.array_equal(zz, grids[src[0]]) and numpy.asarray(got).shape == want.shape:
            p = src[0]
            w = trapw(zz)
            copy = numpy.zeros(want.shape)
            for idx in itertools.product(*[range(s) for s in phi.shape]):
                copy[idx + (idx[p],)] = phi[idx] / w[idx[p]]
            e2 = _err(got, copy)
            d.case(key + ('copy',), e2 <= 16 * EPS * float(numpy.max(numpy.abs(copy))), dict(info, err=e2), fail_key='construct-pure-split-not-a-copy')
    return d.results()


# ------------------------------------------------------------------------------------------------
# pulses
# ------------------------------------------------------------------------------------------------
# name -> (D, destination pop (1-based), source pops in the order of the f arguments)
PULSES = {
    'phi_2D_admix_1_into_2': (2, 2, [1]),
    'phi_2D_admix_2_into_1': (2, 1, [2]),
    'phi_3D_admix_1_and_2_into_3': (3, 3, [1, 2]),
    'phi_3D_admix_1_and_3_into_2': (3, 2, [1, 3]),
    'phi_3D_admix_2_and_3_into_1': (3, 1, [2, 3]),
    'phi_4D_admix_into_1': (4, 1, [2, 3, 4]),
    'phi_4D_admix_into_2': (4, 2, [1, 3, 4]),
    'phi_4D_admix_into_3': (4, 3, [1, 2, 4]),
    'phi_4D_admix_into_4': (4, 4, [1, 2, 3]),
    'phi_5D_admix_into_1': (5, 1, [2, 3, 4, 5]),
    'phi_5D_admix_into_2': (5, 2, [1, 3, 4, 5]),
    'phi_5D_admix_into_3': (5, 3, [1, 2, 4, 5]),
    'phi_5D_admix_into_4': (5, 4, [1, 2, 3, 5]),
    'phi_5D_admix_into_5': (5, 5, [1, 2, 3, 4]),
}


def _pulse_coefs(name, fs):
    D, dest, srcs = PULSES[name]
    coefs = [0.0] * D
    for s, f in zip(srcs, fs):
        coefs[s - 1] = f
    coefs[dest - 1] = 1.0 - sum(fs)
    return coefs


def _one_pulse(d, PhiManip, name, phi, fs, grids, key, info, fk_value, fk_cons, fk_exc, fk_ident='pulse-not-identity-at-0'):
    import numpy
    D, dest, srcs = PULSES[name]
    coefs = _pulse_coefs(name, fs)
    work = phi.copy()
    try:
        got = getattr(PhiManip, name)(work, *(list(fs) + list(grids)))
    except Exception as e:
        from fractions import Fraction as Fr
        rejected_valid = isinstance(e, ValueError) and 'non-sensible' in str(e) and sum(Fr(f) for f in fs) <= 1 and min(fs) >= 0
        d.case(key, False, dict(info, exception=repr(e)[:300]), fail_key='valid-simplex-vector-rejected' if rejected_valid else fk_exc)
        return None
    got = numpy.asarray(got)
    want = ref_pulse(phi, coefs, grids, dest - 1)
    e = _err(got, want)
    tol = val_tol(want, grids[dest - 1]) * len(grids[dest - 1])
    d.case(key, e <= tol, dict(info, err=e, tol=tol), fail_key=fk_value)
    if got.shape != phi.shape:
        return got
    # the joint density of all other populations is unchanged
    m0 = marginal(phi, grids[dest - 1], dest - 1)
    m1 = marginal(got, grids[dest - 1], dest - 1)
    scale = marginal(numpy.abs(phi), grids[dest - 1], dest - 1)
    ec = numpy.abs(m1 - m0)
    d.case(key + ('conserve',), bool(numpy.all(ec <= 32 * EPS * scale)), dict(info, maxerr=float(ec.max()) if ec.size else 0.0), fail_key=fk_cons)
    if all(f == 0 for f in fs):
        ei = _err(got, phi)
        d.case(key + ('identity',), ei <= 16 * EPS * float(numpy.max(numpy.abs(phi))), dict(info, err=ei), fail_key=fk_ident)
    return got


def _drv_pulse(tier, D, nq, nt, ptsrange):
    import numpy
    from dadi import PhiManip
    names = [n for n, v in PULSES.items() if v[0] == D]
    nc = nq if tier == 'quick' else nt
    d = Driver('C06', 'pulse%dd' % D, bound='%s: %d random cases per function; all populations on one common grid of %d..%d points (uniform-dyadic, dyadic, dadi-like, random; '
               'per-axis grids are in pulse_grids); proportion vectors 0, vertices, multiples of 1/8 (mixtures landing on nodes), faces (sum=1), partial zeros, random interior, vectors whose mixture at the all-ones corner rounds to 1+ulp; '
               'densities positive/signed/spike/boundary-heavy; full array vs deposition-law oracle at 64 eps max/h_min*pts; marginal over the destination unchanged at 32 eps*mass; '
               'identity at proportion 0 at 16 eps' % (', '.join(names), nc, ptsrange[0], ptsrange[1]))
    rng, nprng = d.rng, d.nprng()
    for name in names:
        _, dest, srcs = PULSES[name]
        for ci in range(nc):
            fkind = F_KINDS[ci % len(F_KINDS)]
            pk = PHI_KINDS[(ci // 2) % 4]
            xx = make_grid(rng, rng.randrange(ptsrange[0], ptsrange[1] + 1), GRID_KINDS[(ci // 3) % 4])
            grids = [xx] * D
            phi = make_phi(rng, nprng, (len(xx),) * D, pk)
            fs = simplex_point(rng, len(srcs), fkind)
            info = _info(phi, [xx], function=name, fs=fs, f_kind=fkind)
            _one_pulse(d, PhiManip, name, phi, fs, grids, (name, ci, fkind, pk), info, 'pulse-%dd-value' % D, 'pulse-%dd-marginal-not-conserved' % D, 'pulse-%dd-exception' % D)
    return d.results()


def drv_pulse2d(tier):
    return _drv_pulse(tier, 2, 210, 3000, (3, 16))


def drv_pulse3d(tier):
    return _drv_pulse(tier, 3, 105, 2100, (3, 9))


def drv_pulse4d(tier):
    return _drv_pulse(tier, 4, 63, 1260, (3, 6))


def drv_pulse5d(tier):
    return _drv_pulse(tier, 5, 28, 630, (3, 5))


def drv_pulse_grids(tier):
    """Every population on its own grid (the functions take one grid per population): the mixture must be
    deposited on, and the old destination integrated out over, the *destination's* grid."""
    import numpy
    from dadi import PhiManip
    nc = 21 if tier == 'quick' else 420
    d = Driver('C06', 'pulse_grids', bound='all 14 pulse functions, %d random cases each, every population on its own grid (equal lengths 3..5 in half the cases, different lengths otherwise); '
               'same contracts as pulse*d (oracle value, destination marginal conserved, identity at 0)' % nc)
    rng, nprng = d.rng, d.nprng()
    for name, (D, dest, srcs) in PULSES.items():
        for ci in range(nc):
            fkind = F_KINDS[ci % len(F_KINDS)]
            pr = {2: (3, 9), 3: (3, 7), 4: (3, 5), 5: (3, 4)}[D]
            n0 = rng.randrange(pr[0], pr[1] + 1)
            grids = [make_grid(rng, n0 if ci % 2 == 0 else rng.randrange(pr[0], pr[1] + 1), rng.choice(['dyadic', 'random', 'default'])) for _ in range(D)]
            phi = make_phi(rng, nprng, tuple(len(g) for g in grids), PHI_KINDS[ci % 2])
            fs = simplex_point(rng, len(srcs), fkind)
            info = _info(phi, grids, function=name, fs=fs, f_kind=fkind)
            hard = {4: 'pulse-4d-destination-grid-hardcoded', 5: 'pulse-5d-destination-grid-hardcoded'}
            # 4-D into_3/into_4 deposit on yy, the 5-D functions deposit on and integrate over xx: own fail_keys
            suspect = (D == 4 and dest in (3, 4)) or (D == 5 and dest != 1)
            fk = hard[D] if suspect else 'pulse-grids-value'
            _one_pulse(d, PhiManip, name, phi, fs, grids, (name, ci, fkind, tuple(len(g) for g in grids)), info,
                       fk, fk if suspect else 'pulse-grids-marginal-not-conserved', fk if suspect else 'pulse-grids-exception',
                       fk if suspect else 'pulse-not-identity-at-0')
    return d.results()


# ------------------------------------------------------------------------------------------------
# simplex acceptance / rejection
# ------------------------------------------------------------------------------------------------

def drv_simplex(tier):
    import numpy
    from dadi import PhiManip
    nc = 30 if tier == 'quick' else 600
    d = Driver('C06', 'simplex', bound='all 14 pulse functions and the constructors phi_2D_to_3D_admix, phi_3D_to_4D, phi_4D_to_5D on a 4-point grid: %d proportion vectors each with exact '
               'sum > 1 (one entry > 1; several entries each < 1; sum = 1 + 1/16 .. 3) must raise ValueError, and %d vectors in the closed simplex (vertices, faces with sum exactly 1, '
               'zeros, random with exact rational sum <= 1) must be accepted; plus %d random vectors per function with one proportion exactly 0 and sum <= 1 on a 3-point grid' % (nc, nc, 400 if tier == 'quick' else 3000))
    rng, nprng = d.rng, d.nprng()
    from fractions import Fraction as Fr
    xx = numpy.array([0.0, 0.25, 0.5, 1.0])
    targets = [(n, v[0], len(v[2])) for n, v in PULSES.items()] + [('phi_2D_to_3D_admix', 2, 1), ('phi_3D_to_4D', 3, 2), ('phi_4D_to_5D', 4, 3)]

    def call(name, D, fs):
        phi = numpy.ones((4,) * D)
        if name in PULSES:
            return getattr(PhiManip, name)(phi, *(list(fs) + [xx] * D))
        return getattr(PhiManip, name)(phi, *(list(fs) + [xx] * (D + 1)))
    for name, D, k in targets:
        for ci in range(nc):
            # --- above the simplex ---------------------------------------------------------------
            mode = ci % 3
            if mode == 0 or k == 1:
                fs = [0.0] * k
                fs[rng.randrange(k)] = rng.choice([1.0625, 1.5, 2.0, 1 + 2. ** -20])
            elif mode == 1:
                fs = [rng.choice([0.5, 0.625, 0.75, 0.875]) for _ in range(k)]          # each < 1, sum > 1
                fs[0] = 0.625 if sum(fs) <= 1 else fs[0]
            else:
                while True:
                    fs = [rng.randrange(0, 17) / 16. for _ in range(k)]
                    if sum(fs) > 1:
                        break

            def fn(fs=fs):
                try:
                    call(name, D, fs)
                except ValueError:
                    return True, None
                return False, dict(note='accepted without error')
            if k == 1:
                fk = 'two-pop-accepts-f-above-1'
            elif name in PULSES and PULSES[name][1] != D:
                fk = 'pulse-into-non-last-accepts-sum-above-1'
            else:
                fk = 'sum-above-1-accepted'
            d.check((name, 'reject', tuple(fs)), fn, info=dict(function=name, fs=fs, sum=float(sum(fs)), xx=_lst(xx), phi='ones'), fail_key=fk)
            # --- inside the closed simplex -------------------------------------------------------
            fkind = ['vertex', 'face', 'zero', 'partial', 'random', 'dyadic'][ci % 6]
            fs2 = simplex_point(rng, k, fkind)
            if sum(Fr(f) for f in fs2) > 1:
                continue

            def fn2(fs2=fs2):
                out = call(name, D, fs2)
                return bool(numpy.all(numpy.isfinite(out))), None
            d.check((name, 'accept', tuple(fs2)), fn2, info=dict(function=name, fs=fs2, f_kind=fkind, xx=_lst(xx), phi='ones'), fail_key='valid-simplex-vector-rejected')
        # many cheap vectors with one proportion exactly 0 (3-point grid): the guards of the pulse functions are
        # evaluated in floating point on re-arranged proportions, so a valid vector can be refused by round-off
        if k >= 2:
            x3 = numpy.array([0.0, 0.5, 1.0])
            for ci in range(400 if tier == 'quick' else 3000):
                fs3 = [rng.random() / k for _ in range(k)]
                fs3[rng.randrange(k)] = 0.0

                def fn3(fs3=fs3):
                    phi = numpy.ones((3,) * D)
                    nx = D if name in PULSES else D + 1
                    out = getattr(PhiManip, name)(phi, *(list(fs3) + [x3] * nx))
                    return bool(numpy.all(numpy.isfinite(out))), None
                d.check((name, 'accept0', tuple(fs3)), fn3, info=dict(function=name, fs=fs3, xx=_lst(x3), phi='ones'), fail_key='valid-simplex-vector-rejected')
    return d.results()


# ------------------------------------------------------------------------------------------------
# remove / filter / reorder
# ------------------------------------------------------------------------------------------------

def drv_remove_reorder(tier):
    import numpy
    from fractions import Fraction as Fr
    from dadi import PhiManip
    nc = 300 if tier == 'quick' else 5000
    d = Driver('C06', 'remove_reorder', bound='remove_pop, filter_pops, reorder_pops: %d random cases in 1..5 dimensions, axis lengths 2..7 (all different where the API allows), '
               'C- and F-ordered and strided inputs; remove_pop vs explicit trapezoid sum (exact Fractions for <=3-D, float otherwise) at 8 eps*mass; filter_pops (one common grid) '
               'vs successive marginalisation for every subset; reorder_pops: entry-by-entry axis permutation for random permutations, non-permutations raise ValueError' % nc)
    rng, nprng = d.rng, d.nprng()
    for ci in range(nc):
        D = 1 + ci % 5
        # --- remove_pop: each axis on its own grid -----------------------------------------------------
        lens = [rng.randrange(2, 8 if D < 5 else 5) for _ in range(D)]
        grids = [make_grid(rng, n, rng.choice(GRID_KINDS)) if n > 2 else numpy.array([0.0, 1.0]) for n in lens]
        phi = make_phi(rng, nprng, tuple(lens), PHI_KINDS[ci % 4])
        layout = ci % 3
        if layout == 1:
            phi = numpy.asfortranarray(phi)
        elif layout == 2:
            big = numpy.zeros(tuple(2 * n for n in lens))
            big[tuple(slice(None, None, 2) for _ in lens)] = phi
            phi = big[tuple(slice(None, None, 2) for _ in lens)]
        pop = rng.randrange(1, D + 1)
        info = _info(phi, grids, popnum=pop, layout=layout)
        p0 = numpy.array(phi)
        try:
            got = PhiManip.remove_pop(phi, grids[pop - 1], pop)
            if D <= 3:
                X = [Fr(float(v)) for v in grids[pop - 1]]
                want = numpy.zeros(tuple(n for a, n in enumerate(lens) if a != pop - 1))
                for idx in itertools.product(*[range(n) for a, n in enumerate(lens) if a != pop - 1]):
                    tot = Fr(0)
                    for j in range(lens[pop - 1] - 1):
                        i0 = idx[:pop - 1] + (j,) + idx[pop - 1:]
                        i1 = idx[:pop - 1] + (j + 1,) + idx[pop - 1:]
                        tot += (X[j + 1] - X[j]) * (Fr(float(phi[i0])) + Fr(float(phi[i1]))) / 2
                    want[idx] = float(tot)
            else:
                want = marginal(numpy.array(phi), grids[pop - 1], pop - 1)
            scale = marginal(numpy.abs(numpy.array(phi)), grids[pop - 1], pop - 1)
            e = numpy.abs(numpy.asarray(got, dtype=float) - want)
            ok = numpy.shape(got) == want.shape and bool(numpy.all(e <= 8 * EPS * scale))
            d.case(('remove', ci, D, pop, layout), ok, dict(info, maxerr=float(numpy.max(e)) if numpy.size(e) else 0.0), fail_key='remove_pop-value')
            d.case(('remove', ci, 'pure'), bool(numpy.array_equal(phi, p0)), info, fail_key='input-mutated')
        except Exception as e:
            d.case(('remove', ci, D, pop, layout), False, dict(info, exception=repr(e)[:300]), fail_key='remove_pop-exception')
        # --- filter_pops: the API has one grid for all removed populations -----------------------------
        n = rng.randrange(2, 7 if D < 5 else 5)
        xx = make_grid(rng, n, rng.choice(GRID_KINDS)) if n > 2 else numpy.array([0.0, 1.0])
        phi = make_phi(rng, nprng, (n,) * D, PHI_KINDS[(ci + 1) % 4])
        subsets = [s for r in range(1, D + 1) for s in itertools.combinations(range(1, D + 1), r)]
        for keep in (subsets if D <= 3 else rng.sample(subsets, 4)):
            keep_arg = list(keep)
            try:
                got = PhiManip.filter_pops(phi.copy(), xx, keep_arg)
                want = phi
                for a in sorted(set(range(D)) - set(k - 1 for k in keep), reverse=True):
                    want = marginal(want, xx, a)
                scale = numpy.abs(phi)
                for a in sorted(set(range(D)) - set(k - 1 for k in keep), reverse=True):
                    scale = marginal(scale, xx, a)
                e = numpy.abs(numpy.asarray(got, dtype=float) - want)
                ok = numpy.shape(got) == numpy.shape(want) and bool(numpy.all(e <= 8 * EPS * D * scale))
                d.case(('filter', ci, D, keep), ok, dict(_info(phi, [xx]), tokeep=list(keep), maxerr=float(numpy.max(e))), fail_key='filter_pops-value')
            except Exception as e:
                d.case(('filter', ci, D, keep), False, dict(_info(phi, [xx]), tokeep=list(keep), exception=repr(e)[:300]), fail_key='filter_pops-exception')
        # --- reorder_pops ------------------------------------------------------------------------------
        lens = [2 + a for a in range(D)]
        rng.shuffle(lens)
        phi = nprng.uniform(-1, 1, size=tuple(lens))
        perm = list(range(1, D + 1))
        rng.shuffle(perm)
        try:
            got = numpy.asarray(PhiManip.reorder_pops(phi, perm))
            ok = got.shape == tuple(lens[p - 1] for p in perm)
            if ok:
                for idx in itertools.product(*[range(s) for s in got.shape]):
                    src = [0] * D
                    for newpos, p in enumerate(perm):
                        src[p - 1] = idx[newpos]
                    if got[idx] != phi[tuple(src)]:
                        ok = False
                        break
            d.case(('reorder', ci, D, tuple(perm)), ok, dict(shape=lens, neworder=perm), nontrivial=D > 1, fail_key='reorder_pops-value')
        except Exception as e:
            d.case(('reorder', ci, D, tuple(perm)), False, dict(shape=lens, neworder=perm, exception=repr(e)[:300]), fail_key='reorder_pops-exception')
        if D >= 2 and ci % 4 == 0:
            bad = list(perm)
            bad[rng.randrange(D)] = rng.choice([0, D + 1, bad[(rng.randrange(D))]])
            if sorted(bad) != list(range(1, D + 1)):
                def fnb(bad=bad):
                    try:
                        PhiManip.reorder_pops(phi, bad)
                    except ValueError:
                        return True, None
                    return False, dict(note='accepted')
                d.check(('reorder-bad', ci, tuple(bad)), fnb, info=dict(shape=lens, neworder=bad), fail_key='reorder_pops-accepts-non-permutation')
    return d.results()
