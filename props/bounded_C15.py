"""Bounded run-time-contract driver (E4) for C15: library models are well-formed and reduce to their nested special cases.

The nesting / symmetry tables below were written from the model docstrings (dadi/Demographics{1,2,3}D.py,
dadi/PortikModels/portik_models_{2d,3d}.py, dadi/DFE/DemogSelModels.py), not from the model bodies: every row states
"model A at the nesting point equals model B", with the kind of nesting the property names (zero migration, zero-length
epoch, equal asymmetric rates, zero selection, equal selection) plus definitional identities (vicariance = fixed-size split,
snm = zero-time split).  The oracle for a row is the *other* model; arity/shape/finite/extrap_x contracts are checked against
explicit expectations (numpy only).
"""
import math
import zlib
import random

from vf.core import Task
from vf.bounded import Driver
from vf import common

MODKEYS = ('d1', 'd2', 'd3', 'p2', 'p3', 'sel')
SEL_1D = ('equil', 'two_epoch_sel', 'three_epoch_sel', 'growth_sel', 'bottlegrowth_1d_sel')


def _mods():
    import dadi
    from dadi import Demographics1D, Demographics2D, Demographics3D
    from dadi.PortikModels import portik_models_2d, portik_models_3d
    from dadi.DFE import DemogSelModels
    return dict(d1=Demographics1D, d2=Demographics2D, d3=Demographics3D, p2=portik_models_2d, p3=portik_models_3d, sel=DemogSelModels)


def _dim(mk, name):
    if mk == 'd1':
        return 1
    if mk in ('d2', 'p2'):
        return 2
    if mk in ('d3', 'p3'):
        return 3
    return 1 if name in SEL_1D else 2


def _inventory():
    """[(modkey, name, func)] for every attribute exposing __param_names__ (aliases and re-exports included)."""
    out = []
    for mk, mod in _mods().items():
        for name, f in vars(mod).items():
            if callable(f) and hasattr(f, '__param_names__'):
                out.append((mk, name, f))
    return out


def _driver(name, bound):
    d = Driver('C15', name, bound=bound)
    d.rng = random.Random(common.seed() * 7919 + zlib.crc32(name.encode()) % 100003)
    return d


def tasks(tier):
    q = tier == 'quick'
    out = [Task('props.bounded_C15:drv_inventory', name='C15/bounded/inventory', tier=tier, timeout=900)]
    nsh = 8 if q else 16
    for s in range(nsh):
        out.append(Task('props.bounded_C15:drv_wellformed', name='C15/bounded/wellformed.%d' % s, shard=s, nshards=nsh, tier=tier, timeout=1500))
    nsh = 12 if q else 16
    for s in range(nsh):
        out.append(Task('props.bounded_C15:drv_nesting', name='C15/bounded/nesting.%d' % s, shard=s, nshards=nsh, tier=tier, timeout=1500))
    nsh = 6 if q else 12
    for s in range(nsh):
        out.append(Task('props.bounded_C15:drv_symmetry', name='C15/bounded/symmetry.%d' % s, shard=s, nshards=nsh, tier=tier, timeout=1500))
    return out


# ----------------------------------------------------------------------------------------------- parameter drawing
def _draw_value(rng, pname, wide):
    lu = lambda a, b: math.exp(rng.uniform(math.log(a), math.log(b)))
    if pname.startswith('nu'):
        return lu(1e-2, 100) if wide else lu(0.2, 5)
    if pname.startswith('T'):
        return rng.choice([0.0, lu(1e-3, 3)]) if wide else lu(0.03, 0.4)
    if pname.startswith('m'):
        return rng.choice([0.0, rng.uniform(0, 10)]) if wide else rng.uniform(0, 4)
    if pname in ('s', 'f', 'F'):
        return rng.uniform(0.02, 0.98) if wide else rng.uniform(0.15, 0.85)
    if pname.startswith('gamma'):
        return rng.uniform(-20, 5) if wide else rng.uniform(-6, 3)
    raise KeyError(pname)


def _cost(names, vals):
    """Rough number of time steps: sum(T)/dt with dt = tf/max(0.25/nu_min, sum m, |gamma|/4)."""
    nus = [v for n, v in zip(names, vals) if n.startswith('nu')] + [0.02 if ('s' in names or 'f' in names) else 1.0]
    ms = [v for n, v in zip(names, vals) if n.startswith('m')]
    gs = [abs(v) for n, v in zip(names, vals) if n.startswith('gamma')]
    Ts = [v for n, v in zip(names, vals) if n.startswith('T')]
    return sum(Ts) * max(0.25 / min(nus), 2 * sum(ms), max(gs + [0]) / 4.0) / 1e-3


def _draw_params(rng, names, wide, max_steps):
    for _ in range(200):
        vals = [_draw_value(rng, n, wide) for n in names]
        if _cost(names, vals) <= max_steps:
            return vals
    return [_draw_value(rng, n, False) for n in names]


def _unmasked(fs):
    import numpy as np
    return np.ma.filled(fs, 0.0)


def _reldiff(a, b):
    """max |a-b| over unmasked cells relative to the largest unmasked |b| (inf if shapes/masks differ or non-finite)."""
    import numpy as np
    if a.shape != b.shape or not np.array_equal(np.ma.getmaskarray(a), np.ma.getmaskarray(b)):
        return float('inf')
    x, y = _unmasked(a), _unmasked(b)
    if not (np.all(np.isfinite(x)) and np.all(np.isfinite(y))):
        return float('inf')
    return float(np.max(np.abs(x - y)) / max(np.max(np.abs(y)), 1e-300))


# ----------------------------------------------------------------------------------------------- inventory, well-formedness
def drv_inventory(tier):
    import dadi
    d = _driver('inventory', bound='all attributes of the six model modules exposing __param_names__: at least 95 distinct model '
                                   'functions; __param_names__ is a list of distinct identifier strings; names re-exported by '
                                   'Demographics2D/3D from PortikModels are the same function objects; *_mscore helpers return a str '
                                   'and name the same parameters as their model')
    inv = _inventory()
    distinct = {id(f): (mk, name) for mk, name, f in inv}
    d.case('count', len(distinct) >= 95, dict(distinct=len(distinct), attributes=len(inv)), fail_key='inventory-count')
    mods = _mods()
    for mk, name, f in inv:
        pn = f.__param_names__
        ok = isinstance(pn, list) and all(isinstance(p, str) and p.isidentifier() for p in pn) and len(set(pn)) == len(pn)
        d.case((mk, name, 'names'), ok, dict(module=mk, model=name, param_names=pn), fail_key='param-names-malformed')
        if mk in ('d2', 'd3'):
            src = mods['p2' if mk == 'd2' else 'p3']
            if hasattr(src, name):
                d.case((mk, name, 'reexport'), getattr(src, name) is f, dict(module=mk, model=name), fail_key='reexport-differs')
        if name.endswith('_mscore'):
            base = getattr(mods[mk], name[:-len('_mscore')])
            vals = [0.3 + 0.1 * i for i in range(len(pn))]
            r = f(vals)
            d.case((mk, name, 'mscore'), isinstance(r, str) and pn == base.__param_names__, dict(model=name, result=str(r)[:80]), fail_key='mscore')
    return d.results()


def drv_wellformed(tier, shard, nshards):
    import warnings
    import numpy as np
    import dadi
    from dadi import Numerics
    nvec = 2 if tier == 'quick' else 12
    d = _driver('wellformed.%d' % shard,
                bound='every model attribute (shard %d of %d), %d parameter vectors each (first: moderate nu in [0.2,5], T in [0.03,0.4], '
                      'm in [0,4]; others: documented bounds nu in [1e-2,100], T in {0} U [1e-3,3], m in {0} U [0,10], fractions in '
                      '(0.02,0.98), gamma in [-20,5], capped at ~4e4 time steps), pts in {10,14,18}, ns entries in 1..6: '
                      'accepts exactly len(__param_names__) parameters (one fewer / one more raise), returns a Spectrum of shape '
                      'ns+1 with extrap_x == default_grid(pts)[1], only the two corners masked, all other entries finite; at pts=30 '
                      '(20 for three populations; grids below ~5x the sample size oscillate) every entry >= -1e-12*max'
                      % (shard, nshards, nvec))
    warnings.simplefilter('ignore')
    np.seterr(all='ignore')
    if shard == 0:
        # fixed in-bounds vector (tiny populations, strong negative selection) evaluated on a grid 12x the sample size
        from dadi.DFE import DemogSelModels
        pv = [0.017889350024298638, 0.06439167034242384, 0.7812270738175835, 0.0, 4.675904284742698, 0.0, 4.928008997922863, -14.109414061538637]
        fs = DemogSelModels.split_delay_mig_sel(pv, (1, 5), 60)
        inner = np.ma.getdata(fs)[~np.ma.getmaskarray(fs)]
        d.case(('sel', 'split_delay_mig_sel', 'fixed', 'nonneg'), bool(np.all(inner >= -1e-12 * np.max(np.abs(inner)))),
               dict(module='sel', model='split_delay_mig_sel', params=pv, ns=[1, 5], pts=60, min=float(inner.min()), max=float(inner.max())),
               fail_key='wellformed-negative-entry')
    inv = sorted(_inventory(), key=lambda t: (t[0], t[1]))
    for idx, (mk, name, f) in enumerate(inv):
        if idx % nshards != shard or name.endswith('_mscore'):
            continue
        pn = f.__param_names__
        dim = _dim(mk, name)
        for iv in range(nvec):
            wide = iv > 0
            vals = _draw_params(d.rng, pn, wide, 4e4 if dim < 3 else 1.5e4)
            pts = d.rng.choice([10, 14, 18]) if dim < 3 else d.rng.choice([10, 14])
            ns = tuple(d.rng.randint(1 if dim > 1 else 2, 6 if dim < 3 else 4) for _ in range(dim))
            if name == 'three_epoch_inbreeding':
                ns = (2 * d.rng.randint(1, 3),)
            info = dict(module=mk, model=name, params=vals, ns=list(ns), pts=pts)

            def fn():
                fs = f(vals if pn else None, ns, pts)
                xx = Numerics.default_grid(pts)
                data = np.ma.getdata(fs)
                mask = np.ma.getmaskarray(fs)
                corners = mask[(0,) * dim] and mask[tuple(n for n in ns)]
                inner = data[~mask]
                checks = dict(is_spectrum=isinstance(fs, dadi.Spectrum), shape=tuple(fs.shape) == tuple(n + 1 for n in ns),
                              extrap_x=getattr(fs, 'extrap_x', None) == xx[1], corners_masked=bool(corners),
                              only_corners_masked=int(mask.sum()) == 2, finite=bool(np.all(np.isfinite(inner))))
                return all(checks.values()), ({} if all(checks.values()) else dict(checks=checks))
            d.check((mk, name, iv, 'structure'), fn, info, fail_key='wellformed-structure')

            pts_fine = 30 if dim < 3 else 20

            def fn2():
                fs = f(vals if pn else None, ns, pts_fine)
                inner = np.ma.getdata(fs)[~np.ma.getmaskarray(fs)]
                ok = tuple(fs.shape) == tuple(n + 1 for n in ns) and bool(np.all(np.isfinite(inner))) and bool(np.all(inner >= -1e-12 * np.max(np.abs(inner), initial=0.0)))
                return ok, ({} if ok else dict(min=float(np.nanmin(inner)), max=float(np.nanmax(inner)), negative_cells=int((inner < 0).sum())))
            d.check((mk, name, iv, 'nonneg'), fn2, dict(info, pts=pts_fine), fail_key='wellformed-negative-entry')
        # arity
        if pn:
            base = _draw_params(d.rng, pn, False, 1e4)
            ns = (2,) * dim if name != 'three_epoch_inbreeding' else (2,)
            for label, vals in (('fewer', base[:-1]), ('more', base + [0.5])):
                try:
                    f(vals, ns, 10)
                    raised = None
                except Exception as e:          # any exception counts as a rejection
                    raised = type(e).__name__
                d.case((mk, name, 'arity', label), raised is not None, dict(module=mk, model=name, given=len(vals), named=len(pn), raised=raised),
                       fail_key='arity-not-enforced')
    return d.results()


# ----------------------------------------------------------------------------------------------- nesting table
# (module A, model A, params of A, module B, model B, params of B, kind); params are expressions over the base values
# nu1 nu2 nu3 nuA nu1b nu2b nu3b nuB nuF nuPre m ma mb mc m12 m21 T1 T2 T3 TPre s f g g1 g2 (drawn at random per evaluation).
EX = 'exact'
NEST = [
    # ---- Portik 2D
    ('p2', 'sym_mig', 'nu1,nu2,0,T1', 'p2', 'no_mig', 'nu1,nu2,T1', 'zero-mig'),
    ('p2', 'asym_mig', 'nu1,nu2,m,m,T1', 'p2', 'sym_mig', 'nu1,nu2,m,T1', 'equal-rates'),
    ('p2', 'asym_mig', 'nu1,nu2,0,0,T1', 'p2', 'no_mig', 'nu1,nu2,T1', 'zero-mig'),
    ('p2', 'anc_sym_mig', 'nu1,nu2,m,T1,0', 'p2', 'sym_mig', 'nu1,nu2,m,T1', 'zero-epoch'),
    ('p2', 'anc_sym_mig', 'nu1,nu2,m,0,T2', 'p2', 'no_mig', 'nu1,nu2,T2', 'zero-epoch'),
    ('p2', 'anc_asym_mig', 'nu1,nu2,m,m,T1,T2', 'p2', 'anc_sym_mig', 'nu1,nu2,m,T1,T2', 'equal-rates'),
    ('p2', 'anc_asym_mig', 'nu1,nu2,m12,m21,T1,0', 'p2', 'asym_mig', 'nu1,nu2,m12,m21,T1', 'zero-epoch'),
    ('p2', 'sec_contact_sym_mig', 'nu1,nu2,m,0,T2', 'p2', 'sym_mig', 'nu1,nu2,m,T2', 'zero-epoch'),
    ('p2', 'sec_contact_sym_mig', 'nu1,nu2,m,T1,0', 'p2', 'no_mig', 'nu1,nu2,T1', 'zero-epoch'),
    ('p2', 'sec_contact_asym_mig', 'nu1,nu2,m,m,T1,T2', 'p2', 'sec_contact_sym_mig', 'nu1,nu2,m,T1,T2', 'equal-rates'),
    ('p2', 'sec_contact_asym_mig', 'nu1,nu2,m12,m21,0,T2', 'p2', 'asym_mig', 'nu1,nu2,m12,m21,T2', 'zero-epoch'),
    ('p2', 'no_mig_size', 'nu1,nu2,nu1b,nu2b,T1,0', 'p2', 'no_mig', 'nu1,nu2,T1', 'zero-epoch'),
    ('p2', 'no_mig_size', 'nu1,nu2,nu1b,nu2b,0,T2', 'p2', 'no_mig', 'nu1b,nu2b,T2', 'zero-epoch'),
    ('p2', 'sym_mig_size', 'nu1,nu2,nu1b,nu2b,m,T1,0', 'p2', 'sym_mig', 'nu1,nu2,m,T1', 'zero-epoch'),
    ('p2', 'sym_mig_size', 'nu1,nu2,nu1b,nu2b,0,T1,T2', 'p2', 'no_mig_size', 'nu1,nu2,nu1b,nu2b,T1,T2', 'zero-mig'),
    ('p2', 'asym_mig_size', 'nu1,nu2,nu1b,nu2b,m,m,T1,T2', 'p2', 'sym_mig_size', 'nu1,nu2,nu1b,nu2b,m,T1,T2', 'equal-rates'),
    ('p2', 'asym_mig_size', 'nu1,nu2,nu1b,nu2b,m12,m21,T1,0', 'p2', 'asym_mig', 'nu1,nu2,m12,m21,T1', 'zero-epoch'),
    ('p2', 'anc_sym_mig_size', 'nu1,nu2,nu1,nu2,m,T1,T2', 'p2', 'anc_sym_mig', 'nu1,nu2,m,T1,T2', 'equal-sizes'),
    ('p2', 'anc_sym_mig_size', 'nu1,nu2,nu1b,nu2b,m,T1,0', 'p2', 'sym_mig', 'nu1,nu2,m,T1', 'zero-epoch'),
    ('p2', 'anc_sym_mig_size', 'nu1,nu2,nu1b,nu2b,0,T1,T2', 'p2', 'no_mig_size', 'nu1,nu2,nu1b,nu2b,T1,T2', 'zero-mig'),
    ('p2', 'anc_asym_mig_size', 'nu1,nu2,nu1b,nu2b,m,m,T1,T2', 'p2', 'anc_sym_mig_size', 'nu1,nu2,nu1b,nu2b,m,T1,T2', 'equal-rates'),
    ('p2', 'anc_asym_mig_size', 'nu1,nu2,nu1,nu2,m12,m21,T1,T2', 'p2', 'anc_asym_mig', 'nu1,nu2,m12,m21,T1,T2', 'equal-sizes'),
    ('p2', 'sec_contact_sym_mig_size', 'nu1,nu2,nu1,nu2,m,T1,T2', 'p2', 'sec_contact_sym_mig', 'nu1,nu2,m,T1,T2', 'equal-sizes'),
    ('p2', 'sec_contact_sym_mig_size', 'nu1,nu2,nu1b,nu2b,m,0,T2', 'p2', 'sym_mig', 'nu1b,nu2b,m,T2', 'zero-epoch'),
    ('p2', 'sec_contact_sym_mig_size', 'nu1,nu2,nu1b,nu2b,0,T1,T2', 'p2', 'no_mig_size', 'nu1,nu2,nu1b,nu2b,T1,T2', 'zero-mig'),
    ('p2', 'sec_contact_asym_mig_size', 'nu1,nu2,nu1b,nu2b,m,m,T1,T2', 'p2', 'sec_contact_sym_mig_size', 'nu1,nu2,nu1b,nu2b,m,T1,T2', 'equal-rates'),
    ('p2', 'sec_contact_asym_mig_size', 'nu1,nu2,nu1,nu2,m12,m21,T1,T2', 'p2', 'sec_contact_asym_mig', 'nu1,nu2,m12,m21,T1,T2', 'equal-sizes'),
    ('p2', 'sym_mig_twoepoch', 'nu1,nu2,ma,mb,T1,0', 'p2', 'sym_mig', 'nu1,nu2,ma,T1', 'zero-epoch'),
    ('p2', 'sym_mig_twoepoch', 'nu1,nu2,ma,mb,0,T2', 'p2', 'sym_mig', 'nu1,nu2,mb,T2', 'zero-epoch'),
    ('p2', 'sym_mig_twoepoch', 'nu1,nu2,ma,0,T1,T2', 'p2', 'anc_sym_mig', 'nu1,nu2,ma,T1,T2', 'zero-mig'),
    ('p2', 'sym_mig_twoepoch', 'nu1,nu2,0,mb,T1,T2', 'p2', 'sec_contact_sym_mig', 'nu1,nu2,mb,T1,T2', 'zero-mig'),
    ('p2', 'asym_mig_twoepoch', 'nu1,nu2,ma,ma,mb,mb,T1,T2', 'p2', 'sym_mig_twoepoch', 'nu1,nu2,ma,mb,T1,T2', 'equal-rates'),
    ('p2', 'asym_mig_twoepoch', 'nu1,nu2,m12,m21,ma,mb,T1,0', 'p2', 'asym_mig', 'nu1,nu2,m12,m21,T1', 'zero-epoch'),
    ('p2', 'asym_mig_twoepoch', 'nu1,nu2,m12,m21,0,0,T1,T2', 'p2', 'anc_asym_mig', 'nu1,nu2,m12,m21,T1,T2', 'zero-mig'),
    ('p2', 'asym_mig_twoepoch', 'nu1,nu2,0,0,m12,m21,T1,T2', 'p2', 'sec_contact_asym_mig', 'nu1,nu2,m12,m21,T1,T2', 'zero-mig'),
    ('p2', 'sec_contact_sym_mig_three_epoch', 'nu1,nu2,m,T1,T2,0', 'p2', 'sec_contact_sym_mig', 'nu1,nu2,m,T1,T2', 'zero-epoch'),
    ('p2', 'sec_contact_sym_mig_three_epoch', 'nu1,nu2,m,0,T2,T3', 'p2', 'anc_sym_mig', 'nu1,nu2,m,T2,T3', 'zero-epoch'),
    # documented exception: "T3 (not used)": the isolation epoch has length T2
    ('p2', 'sec_contact_asym_mig_three_epoch', 'nu1,nu2,m,m,T1,T2', 'p2', 'sec_contact_sym_mig_three_epoch', 'nu1,nu2,m,T1,T2,T2', 'equal-rates'),
    ('p2', 'sec_contact_sym_mig_size_three_epoch', 'nu1,nu2,nu1b,nu2b,m,T1,T2,0', 'p2', 'sec_contact_sym_mig_size', 'nu1,nu2,nu1b,nu2b,m,T1,T2', 'zero-epoch'),
    ('p2', 'sec_contact_sym_mig_size_three_epoch', 'nu1,nu2,nu1,nu2,m,T1,T2,T3', 'p2', 'sec_contact_sym_mig_three_epoch', 'nu1,nu2,m,T1,T2,T3', 'equal-sizes'),
    ('p2', 'sec_contact_asym_mig_size_three_epoch', 'nu1,nu2,nu1b,nu2b,m,m,T1,T2,T3', 'p2', 'sec_contact_sym_mig_size_three_epoch', 'nu1,nu2,nu1b,nu2b,m,T1,T2,T3', 'equal-rates'),
    ('p2', 'sec_contact_asym_mig_size_three_epoch', 'nu1,nu2,nu1b,nu2b,m12,m21,T1,T2,0', 'p2', 'sec_contact_asym_mig_size', 'nu1,nu2,nu1b,nu2b,m12,m21,T1,T2', 'zero-epoch'),
    ('p2', 'sec_contact_asym_mig_size_three_epoch', 'nu1,nu2,nu1b,nu2b,m12,m21,0,T2,T3', 'p2', 'anc_asym_mig', 'nu1b,nu2b,m12,m21,T2,T3', 'zero-epoch'),
    ('p2', 'vic_no_mig', 'T1,s', 'p2', 'no_mig', '1-s,s,T1', 'definition'),
    ('p2', 'vic_anc_sym_mig', 'm,T1,T2,s', 'p2', 'anc_sym_mig', '1-s,s,m,T1,T2', 'definition'),
    ('p2', 'vic_anc_asym_mig', 'm,m,T1,T2,s', 'p2', 'vic_anc_sym_mig', 'm,T1,T2,s', 'equal-rates'),
    ('p2', 'vic_anc_asym_mig', 'm12,m21,T1,T2,s', 'p2', 'anc_asym_mig', '1-s,s,m12,m21,T1,T2', 'definition'),
    ('p2', 'vic_sec_contact_sym_mig', 'm,T1,T2,s', 'p2', 'sec_contact_sym_mig', '1-s,s,m,T1,T2', 'definition'),
    ('p2', 'vic_sec_contact_asym_mig', 'm,m,T1,T2,s', 'p2', 'vic_sec_contact_sym_mig', 'm,T1,T2,s', 'equal-rates'),
    ('p2', 'vic_sec_contact_asym_mig', 'm12,m21,T1,T2,s', 'p2', 'sec_contact_asym_mig', '1-s,s,m12,m21,T1,T2', 'definition'),
    ('p2', 'vic_anc_sym_mig', '0,T1,0,s', 'p2', 'vic_no_mig', 'T1,s', 'zero-mig'),
    ('p2', 'vic_sec_contact_sym_mig', 'm,T1,0,s', 'p2', 'vic_no_mig', 'T1,s', 'zero-epoch'),
    ('p2', 'founder_sym', 'nu2,0,T1,s', 'p2', 'founder_nomig', 'nu2,T1,s', 'zero-mig'),
    ('p2', 'founder_asym', 'nu2,m,m,T1,s', 'p2', 'founder_sym', 'nu2,m,T1,s', 'equal-rates'),
    ('p2', 'founder_asym', 'nu2,0,0,T1,s', 'p2', 'founder_nomig', 'nu2,T1,s', 'zero-mig'),
    ('p2', 'founder_nomig', 's,T1,s', 'p2', 'vic_no_mig', 'T1,s', 'no-growth'),
    ('p2', 'founder_sym', 's,m,T1,s', 'p2', 'sym_mig', '1-s,s,m,T1', 'no-growth'),
    ('p2', 'vic_no_mig_admix_early', 'T1,s,0', 'p2', 'vic_no_mig', 'T1,s', 'zero-admixture'),
    ('p2', 'vic_no_mig_admix_late', 'T1,s,0', 'p2', 'vic_no_mig', 'T1,s', 'zero-admixture'),
    ('p2', 'vic_two_epoch_admix', 'T1,0,s,f', 'p2', 'vic_no_mig_admix_late', 'T1,s,f', 'zero-epoch'),
    ('p2', 'vic_two_epoch_admix', '0,T2,s,f', 'p2', 'vic_no_mig_admix_early', 'T2,s,f', 'zero-epoch'),
    ('p2', 'founder_nomig_admix_early', 'nu2,T1,s,0', 'p2', 'founder_nomig', 'nu2,T1,s', 'zero-admixture'),
    ('p2', 'founder_nomig_admix_late', 'nu2,T1,s,0', 'p2', 'founder_nomig', 'nu2,T1,s', 'zero-admixture'),
    ('p2', 'founder_nomig_admix_two_epoch', 'nu2,T1,0,s,f', 'p2', 'founder_nomig_admix_late', 'nu2,T1,s,f', 'zero-epoch'),
    ('p2', 'founder_nomig_admix_early', 's,T1,s,f', 'p2', 'vic_no_mig_admix_early', 'T1,s,f', 'no-growth'),
    ('p2', 'founder_nomig_admix_late', 's,T1,s,f', 'p2', 'vic_no_mig_admix_late', 'T1,s,f', 'no-growth'),
    # ---- Demographics1D
    ('d1', 'two_epoch', 'nu1,0', 'd1', 'snm_1d', '', 'zero-epoch'),
    ('d1', 'three_epoch', 'nuB,nuF,T1,0', 'd1', 'two_epoch', 'nuB,T1', 'zero-epoch'),
    ('d1', 'three_epoch', 'nuB,nuF,0,T2', 'd1', 'two_epoch', 'nuF,T2', 'zero-epoch'),
    ('d1', 'bottlegrowth_1d', '1,nuF,T1', 'd1', 'growth', 'nuF,T1', 'definition'),
    ('d1', 'bottlegrowth_1d', 'nuB,nuB,T1', 'd1', 'two_epoch', 'nuB,T1', 'no-growth'),
    # ---- Demographics2D
    ('d2', 'split_mig', '1,1,0,m', 'd2', 'snm_2d', '', 'zero-epoch'),
    ('d2', 'split_asym_mig', 'nu1,nu2,T1,m,m', 'd2', 'split_mig', 'nu1,nu2,T1,m', 'equal-rates'),
    ('d2', 'split_mig', 'nu1,nu2,T1,m', 'p2', 'sym_mig', 'nu1,nu2,m,T1', 'definition'),
    ('d2', 'split_asym_mig', 'nu1,nu2,T1,m12,m21', 'p2', 'asym_mig', 'nu1,nu2,m12,m21,T1', 'definition'),
    ('d2', 'split_delay_mig', 'nu1,nu2,0,T2,m12,m21', 'd2', 'split_asym_mig', 'nu1,nu2,T2,m12,m21', 'zero-epoch'),
    ('d2', 'split_delay_mig', 'nu1,nu2,T1,0,m12,m21', 'd2', 'split_mig', 'nu1,nu2,T1,0', 'zero-epoch'),
    ('d2', 'split_delay_mig', 'nu1,nu2,T1,T2,m12,m21', 'p2', 'sec_contact_asym_mig', 'nu1,nu2,m12,m21,T1,T2', 'definition'),
    ('d2', 'IM_pre', '1,0,s,nu1,nu2,T1,m12,m21', 'd2', 'IM', 's,nu1,nu2,T1,m12,m21', 'zero-epoch'),
    ('d2', 'IM', 's,s,1-s,T1,m12,m21', 'd2', 'split_asym_mig', 's,1-s,T1,m12,m21', 'no-growth'),
    ('d2', 'bottlegrowth_split_mig', 'nuB,nuF,0,T1+T2,T2', 'd2', 'bottlegrowth_split', 'nuB,nuF,T1+T2,T2', 'zero-mig'),
    ('d2', 'bottlegrowth_split_mig', 'nuB,nuF,0,T1,T1+T2', 'd2', 'bottlegrowth_split', 'nuB,nuF,T1,T1+T2', 'zero-mig'),
    ('d2', 'bottlegrowth_split', 'nuB,nuF,T1,0', 'd2', 'bottlegrowth_2d', 'nuB,nuF,T1', 'zero-epoch'),
    ('d2', 'bottlegrowth_split_mig', 'nuB,nuF,m,T1,0', 'd2', 'bottlegrowth_2d', 'nuB,nuF,T1', 'zero-epoch'),
    # ---- Portik 3D
    ('p3', 'split_symmig_all', 'nu1,nuA,nu2,nu3,ma,m,mb,0,T1,T2', 'p3', 'split_symmig_adjacent', 'nu1,nuA,nu2,nu3,ma,m,mb,T1,T2', 'zero-mig'),
    ('p3', 'split_symmig_all', 'nu1,nuA,nu2,nu3,0,0,0,0,T1,T2', 'p3', 'split_nomig', 'nu1,nuA,nu2,nu3,T1,T2', 'zero-mig'),
    ('p3', 'split_symmig_adjacent', 'nu1,nuA,nu2,nu3,0,0,0,T1,T2', 'p3', 'split_nomig', 'nu1,nuA,nu2,nu3,T1,T2', 'zero-mig'),
    ('p3', 'split_symmig_all', 'nu1,nuA,nu2,nu3,ma,0,mb,mc,T1,T2', 'p3', 'split_sym_mig_adjacent_var1', 'nu1,nuA,nu2,nu3,ma,mb,mc,T1,T2', 'zero-mig'),
    ('p3', 'refugia_adj_1', 'nu1,nuA,nu2,nu3,m,mb,T1,T2,0', 'p3', 'split_nomig', 'nu1,nuA,nu2,nu3,T1,T2', 'zero-epoch'),
    ('p3', 'refugia_adj_1', 'nu1,nuA,nu2,nu3,m,mb,T1,0,T3', 'p3', 'refugia_adj_2', 'nu1,nuA,nu2,nu3,m,mb,T1,T3', 'zero-epoch'),
    ('p3', 'refugia_adj_2', 'nu1,nuA,nu2,nu3,0,0,T1,T2', 'p3', 'split_nomig', 'nu1,nuA,nu2,nu3,T1,T2', 'zero-mig'),
    ('p3', 'refugia_adj_2', 'nu1,nuA,nu2,nu3,m,mb,T1,T2', 'p3', 'split_symmig_adjacent', 'nu1,nuA,nu2,nu3,0,m,mb,T1,T2', 'zero-mig'),
    ('p3', 'refugia_adj_3', 'nu1,nuA,nu2,nu3,ma,m,mb,0,T1,T2', 'p3', 'split_symmig_adjacent', 'nu1,nuA,nu2,nu3,ma,m,mb,T1,T2', 'zero-epoch'),
    ('p3', 'refugia_adj_3', 'nu1,nuA,nu2,nu3,ma,m,mb,T1,0,T2', 'p3', 'refugia_adj_2', 'nu1,nuA,nu2,nu3,m,mb,T1,T2', 'zero-epoch'),
    ('p3', 'ancmig_adj_3', 'nu1,nuA,nu2,nu3,ma,T1,0,T2', 'p3', 'ancmig_adj_2', 'nu1,nuA,nu2,nu3,ma,T1,T2', 'zero-epoch'),
    ('p3', 'ancmig_adj_3', 'nu1,nuA,nu2,nu3,ma,0,T1,T2', 'p3', 'split_nomig', 'nu1,nuA,nu2,nu3,T1,T2', 'zero-epoch'),
    ('p3', 'ancmig_adj_2', 'nu1,nuA,nu2,nu3,0,T1,T2', 'p3', 'split_nomig', 'nu1,nuA,nu2,nu3,T1,T2', 'zero-mig'),
    ('p3', 'ancmig_adj_1', 'nu1,nuA,nu2,nu3,ma,m,mb,T1,T2,0', 'p3', 'split_symmig_adjacent', 'nu1,nuA,nu2,nu3,ma,m,mb,T1,T2', 'zero-epoch'),
    ('p3', 'ancmig_adj_1', 'nu1,nuA,nu2,nu3,ma,m,mb,T1,0,T3', 'p3', 'ancmig_adj_2', 'nu1,nuA,nu2,nu3,ma,T1,T3', 'zero-epoch'),
    ('p3', 'split_nomig', 'nu1,nuA,nu2,nu3,0,T2', 'p3', 'sim_split_no_mig', 'nu1,nu2,nu3,T2', 'zero-epoch'),
    ('p3', 'sim_split_no_mig_size', 'nu1,nu2,nu3,nu1b,nu2b,nu3b,T1,0', 'p3', 'sim_split_no_mig', 'nu1,nu2,nu3,T1', 'zero-epoch'),
    ('p3', 'sim_split_no_mig_size', 'nu1,nu2,nu3,nu1b,nu2b,nu3b,0,T2', 'p3', 'sim_split_no_mig', 'nu1b,nu2b,nu3b,T2', 'zero-epoch'),
    ('p3', 'sim_split_sym_mig_all', 'nu1,nu2,nu3,m,mb,0,T1', 'p3', 'sim_split_sym_mig_adjacent', 'nu1,nu2,nu3,m,mb,T1', 'zero-mig'),
    ('p3', 'sim_split_sym_mig_all', 'nu1,nu2,nu3,0,0,0,T1', 'p3', 'sim_split_no_mig', 'nu1,nu2,nu3,T1', 'zero-mig'),
    ('p3', 'sim_split_sym_mig_all', 'nu1,nu2,nu3,0,mb,mc,T1', 'p3', 'sim_split_sym_mig_adjacent_var', 'nu1,nu2,nu3,mb,mc,T1', 'zero-mig'),
    ('p3', 'sim_split_sym_mig_adjacent', 'nu1,nu2,nu3,0,0,T1', 'p3', 'sim_split_no_mig', 'nu1,nu2,nu3,T1', 'zero-mig'),
    ('p3', 'sim_split_refugia_sym_mig_all', 'nu1,nu2,nu3,m,mb,mc,0,T2', 'p3', 'sim_split_sym_mig_all', 'nu1,nu2,nu3,m,mb,mc,T2', 'zero-epoch'),
    ('p3', 'sim_split_refugia_sym_mig_all', 'nu1,nu2,nu3,m,mb,0,T1,T2', 'p3', 'sim_split_refugia_sym_mig_adjacent', 'nu1,nu2,nu3,m,mb,T1,T2', 'zero-mig'),
    ('p3', 'sim_split_refugia_sym_mig_all', 'nu1,nu2,nu3,m,mb,mc,T1,0', 'p3', 'sim_split_no_mig', 'nu1,nu2,nu3,T1', 'zero-epoch'),
    ('p3', 'sim_split_refugia_sym_mig_adjacent', 'nu1,nu2,nu3,m,mb,0,T2', 'p3', 'sim_split_sym_mig_adjacent', 'nu1,nu2,nu3,m,mb,T2', 'zero-epoch'),
    ('p3', 'split_nomig_size', 'nu1,nuA,nu2,nu3,nu1b,nu2b,nu3b,T1,T2,0', 'p3', 'split_nomig', 'nu1,nuA,nu2,nu3,T1,T2', 'zero-epoch'),
    ('p3', 'split_nomig_size', 'nu1,nuA,nu2,nu3,nu1,nu2b,nu3b,T1,0,T3', 'p3', 'split_nomig', 'nu1,nuA,nu2b,nu3b,T1,T3', 'zero-epoch'),
    ('p3', 'ancmig_2_size', 'nu1,nuA,nu2,nu3,nu1b,nu2b,nu3b,ma,T1,T2,0', 'p3', 'ancmig_adj_2', 'nu1,nuA,nu2,nu3,ma,T1,T2', 'zero-epoch'),
    ('p3', 'ancmig_2_size', 'nu1,nuA,nu2,nu3,nu1b,nu2b,nu3b,0,T1,T2,T3', 'p3', 'split_nomig_size', 'nu1,nuA,nu2,nu3,nu1b,nu2b,nu3b,T1,T2,T3', 'zero-mig'),
    ('p3', 'sim_split_refugia_sym_mig_adjacent_size', 'nu1,nu2,nu3,nu1b,nu2b,nu3b,m,mb,T1,T2,0', 'p3', 'sim_split_refugia_sym_mig_adjacent', 'nu1,nu2,nu3,m,mb,T1,T2', 'zero-epoch'),
    ('p3', 'sim_split_refugia_sym_mig_adjacent_size', 'nu1,nu2,nu3,nu1b,nu2b,nu3b,0,0,T1,0,T3', 'p3', 'sim_split_no_mig_size', 'nu1,nu2,nu3,nu1b,nu2b,nu3b,T1,T3', 'zero-mig'),
    ('p3', 'refugia_adj_2_var_sym', 'nu1,nuA,nu2,nu3,0,0,T1,T2', 'p3', 'split_nomig', 'nu1,nuA,nu2,nu3,T1,T2', 'zero-mig'),
    ('p3', 'refugia_adj_2_var_uni', 'nu1,nuA,nu2,nu3,0,0,T1,T2', 'p3', 'split_nomig', 'nu1,nuA,nu2,nu3,T1,T2', 'zero-mig'),
    ('p3', 'refugia_adj_3_var_sym', 'nu1,nuA,nu2,nu3,ma,mb,mc,T1,0,T2', 'p3', 'refugia_adj_2_var_sym', 'nu1,nuA,nu2,nu3,mb,mc,T1,T2', 'zero-epoch'),
    ('p3', 'refugia_adj_3_var_uni', 'nu1,nuA,nu2,nu3,ma,mb,mc,T1,0,T2', 'p3', 'refugia_adj_2_var_uni', 'nu1,nuA,nu2,nu3,mb,mc,T1,T2', 'zero-epoch'),
    ('p3', 'refugia_adj_3_var_sym', 'nu1,nuA,nu2,nu3,ma,mb,mc,0,T1,T2', 'p3', 'split_sym_mig_adjacent_var1', 'nu1,nuA,nu2,nu3,ma,mb,mc,T1,T2', 'zero-epoch'),
    ('p3', 'refugia_adj_3_var_uni', 'nu1,nuA,nu2,nu3,ma,mb,mc,0,T1,T2', 'p3', 'split_uni_mig_adjacent_var1', 'nu1,nuA,nu2,nu3,ma,mb,mc,T1,T2', 'zero-epoch'),
    ('p3', 'split_sym_mig_adjacent_var1', 'nu1,nuA,nu2,nu3,ma,0,mc,T1,T2', 'p3', 'split_sym_mig_adjacent_var2', 'nu1,nuA,nu2,nu3,ma,mc,T1,T2', 'zero-mig'),
    ('p3', 'split_uni_mig_adjacent_var1', 'nu1,nuA,nu2,nu3,ma,0,mc,T1,T2', 'p3', 'split_uni_mig_adjacent_var2', 'nu1,nuA,nu2,nu3,ma,mc,T1,T2', 'zero-mig'),
    ('p3', 'split_sym_mig_adjacent_var1', 'nu1,nuA,nu2,nu3,0,mb,mc,T1,T2', 'p3', 'refugia_adj_2_var_sym', 'nu1,nuA,nu2,nu3,mb,mc,T1,T2', 'zero-mig'),
    ('p3', 'split_uni_mig_adjacent_var1', 'nu1,nuA,nu2,nu3,0,mb,mc,T1,T2', 'p3', 'refugia_adj_2_var_uni', 'nu1,nuA,nu2,nu3,mb,mc,T1,T2', 'zero-mig'),
    ('p3', 'split_sym_mig_adjacent_var2', 'nu1,nuA,nu2,nu3,ma,0,T1,T2', 'p3', 'ancmig_adj_2', 'nu1,nuA,nu2,nu3,ma,T1,T2', 'zero-mig'),
    ('p3', 'split_uni_mig_adjacent_var2', 'nu1,nuA,nu2,nu3,ma,0,T1,T2', 'p3', 'ancmig_adj_2', 'nu1,nuA,nu2,nu3,ma,T1,T2', 'zero-mig'),
    ('p3', 'sim_split_sym_mig_adjacent_var', 'nu1,nu2,nu3,0,0,T1', 'p3', 'sim_split_no_mig', 'nu1,nu2,nu3,T1', 'zero-mig'),
    ('p3', 'sim_split_uni_mig_adjacent_var', 'nu1,nu2,nu3,0,0,T1', 'p3', 'sim_split_no_mig', 'nu1,nu2,nu3,T1', 'zero-mig'),
    ('p3', 'sim_split_refugia_sym_mig_adjacent_var', 'nu1,nu2,nu3,mb,mc,0,T2', 'p3', 'sim_split_sym_mig_adjacent_var', 'nu1,nu2,nu3,mb,mc,T2', 'zero-epoch'),
    ('p3', 'sim_split_refugia_uni_mig_adjacent_var', 'nu1,nu2,nu3,mb,mc,0,T2', 'p3', 'sim_split_uni_mig_adjacent_var', 'nu1,nu2,nu3,mb,mc,T2', 'zero-epoch'),
    ('p3', 'sim_split_refugia_sym_mig_adjacent_var', 'nu1,nu2,nu3,mb,mc,T1,0', 'p3', 'sim_split_no_mig', 'nu1,nu2,nu3,T1', 'zero-epoch'),
    ('p3', 'admix_origin_sym_mig_adj', 'nu1,nu2,nu3,0,0,T1,T2,f', 'p3', 'admix_origin_no_mig', 'nu1,nu2,nu3,T1,T2,f', 'zero-mig'),
    ('p3', 'admix_origin_uni_mig_adj', 'nu1,nu2,nu3,0,0,T1,T2,f', 'p3', 'admix_origin_no_mig', 'nu1,nu2,nu3,T1,T2,f', 'zero-mig'),
    # ---- Demographics3D
    ('d3', 'out_of_africa', 'nu1,nuA,nu2,nu2,nu3,nu3,ma,m,mc,mb,0,T1,T2', 'p3', 'split_symmig_all', 'nu1,nuA,nu2,nu3,ma,m,mb,mc,T1,T2', 'zero-epoch'),
    # ---- demography + selection
    ('sel', 'equil', '0', 'd1', 'snm_1d', '', 'zero-sel'),
    ('sel', 'two_epoch_sel', 'nu1,T1,0', 'd1', 'two_epoch', 'nu1,T1', 'zero-sel'),
    ('sel', 'two_epoch_sel', 'nu1,0,g', 'sel', 'equil', 'g', 'zero-epoch'),
    ('sel', 'three_epoch_sel', 'nuB,nuF,T1,T2,0', 'd1', 'three_epoch', 'nuB,nuF,T1,T2', 'zero-sel'),
    ('sel', 'three_epoch_sel', 'nuB,nuF,T1,0,g', 'sel', 'two_epoch_sel', 'nuB,T1,g', 'zero-epoch'),
    ('sel', 'growth_sel', 'nuF,T1,0', 'd1', 'growth', 'nuF,T1', 'zero-sel'),
    ('sel', 'bottlegrowth_1d_sel', 'nuB,nuF,T1,0', 'd1', 'bottlegrowth_1d', 'nuB,nuF,T1', 'zero-sel'),
    ('sel', 'bottlegrowth_1d_sel', '1,nuF,T1,g', 'sel', 'growth_sel', 'nuF,T1,g', 'definition'),
    ('sel', 'IM_pre_sel', 'nuPre,TPre,s,nu1,nu2,T1,m12,m21,0,0', 'd2', 'IM_pre', 'nuPre,TPre,s,nu1,nu2,T1,m12,m21', 'zero-sel'),
    ('sel', 'IM_pre_sel_single_gamma', 'nuPre,TPre,s,nu1,nu2,T1,m12,m21,g', 'sel', 'IM_pre_sel', 'nuPre,TPre,s,nu1,nu2,T1,m12,m21,g,g', 'equal-sel'),
    ('sel', 'IM_pre_sel', '1,0,s,nu1,nu2,T1,m12,m21,g1,g2', 'sel', 'IM_sel', 's,nu1,nu2,T1,m12,m21,g1,g2', 'zero-epoch'),
    ('sel', 'IM_sel', 's,nu1,nu2,T1,m12,m21,0,0', 'd2', 'IM', 's,nu1,nu2,T1,m12,m21', 'zero-sel'),
    ('sel', 'IM_sel_single_gamma', 's,nu1,nu2,T1,m12,m21,g', 'sel', 'IM_sel', 's,nu1,nu2,T1,m12,m21,g,g', 'equal-sel'),
    ('sel', 'split_mig_sel', 'nu1,nu2,T1,m,0,0', 'd2', 'split_mig', 'nu1,nu2,T1,m', 'zero-sel'),
    ('sel', 'split_mig_sel_single_gamma', 'nu1,nu2,T1,m,g', 'sel', 'split_mig_sel', 'nu1,nu2,T1,m,g,g', 'equal-sel'),
    ('sel', 'split_asym_mig_sel', 'nu1,nu2,T1,m12,m21,0,0', 'd2', 'split_asym_mig', 'nu1,nu2,T1,m12,m21', 'zero-sel'),
    ('sel', 'split_asym_mig_sel', 'nu1,nu2,T1,m,m,g1,g2', 'sel', 'split_mig_sel', 'nu1,nu2,T1,m,g1,g2', 'equal-rates'),
    ('sel', 'split_asym_mig_sel_single_gamma', 'nu1,nu2,T1,m12,m21,g', 'sel', 'split_asym_mig_sel', 'nu1,nu2,T1,m12,m21,g,g', 'equal-sel'),
    ('sel', 'split_delay_mig_sel', 'nu1,nu2,T1,T2,m12,m21,0,0', 'd2', 'split_delay_mig', 'nu1,nu2,T1,T2,m12,m21', 'zero-sel'),
    ('sel', 'split_delay_mig_sel', 'nu1,nu2,0,T2,m12,m21,g1,g2', 'sel', 'split_asym_mig_sel', 'nu1,nu2,T2,m12,m21,g1,g2', 'zero-epoch'),
    ('sel', 'split_delay_mig_sel_single_gamma', 'nu1,nu2,T1,T2,m12,m21,g', 'sel', 'split_delay_mig_sel', 'nu1,nu2,T1,T2,m12,m21,g,g', 'equal-sel'),
    ('sel', 'bottlegrowth_2d_sel', 'nuB,nuF,T1,0,0', 'd2', 'bottlegrowth_2d', 'nuB,nuF,T1', 'zero-sel'),
    ('sel', 'bottlegrowth_2d_sel_single_gamma', 'nuB,nuF,T1,g', 'sel', 'bottlegrowth_2d_sel', 'nuB,nuF,T1,g,g', 'equal-sel'),
    ('sel', 'bottlegrowth_split_sel', 'nuB,nuF,T1+T2,T2,0,0', 'd2', 'bottlegrowth_split', 'nuB,nuF,T1+T2,T2', 'zero-sel'),
    ('sel', 'bottlegrowth_split_sel', 'nuB,nuF,T1,T1+T2,0,0', 'd2', 'bottlegrowth_split', 'nuB,nuF,T1,T1+T2', 'zero-sel'),
    ('sel', 'bottlegrowth_split_sel', 'nuB,nuF,T1,0,g1,g2', 'sel', 'bottlegrowth_2d_sel', 'nuB,nuF,T1,g1,g2', 'zero-epoch'),
    ('sel', 'bottlegrowth_split_sel_single_gamma', 'nuB,nuF,T1+T2,T2,g', 'sel', 'bottlegrowth_split_sel', 'nuB,nuF,T1+T2,T2,g,g', 'equal-sel'),
    ('sel', 'bottlegrowth_split_mig_sel', 'nuB,nuF,m,T1+T2,T2,0,0', 'd2', 'bottlegrowth_split_mig', 'nuB,nuF,m,T1+T2,T2', 'zero-sel'),
    ('sel', 'bottlegrowth_split_mig_sel', 'nuB,nuF,0,T1,T1+T2,g1,g2', 'sel', 'bottlegrowth_split_sel', 'nuB,nuF,T1,T1+T2,g1,g2', 'zero-mig'),
    ('sel', 'bottlegrowth_split_mig_sel_single_gamma', 'nuB,nuF,m,T1+T2,T2,g', 'sel', 'bottlegrowth_split_mig_sel', 'nuB,nuF,m,T1+T2,T2,g,g', 'equal-sel'),
]

# zero migration merging two epochs into one: equal only up to the time-step error (the merged model takes different steps)
NEST_APPROX = [
    ('p2', 'anc_sym_mig', 'nu1,nu2,0,T1,T2', 'p2', 'no_mig', 'nu1,nu2,T1+T2'),
    ('p2', 'sec_contact_asym_mig', 'nu1,nu2,0,0,T1,T2', 'p2', 'no_mig', 'nu1,nu2,T1+T2'),
    ('p2', 'sym_mig_twoepoch', 'nu1,nu2,m,m,T1,T2', 'p2', 'sym_mig', 'nu1,nu2,m,T1+T2'),
    ('p2', 'no_mig_size', 'nu1,nu2,nu1,nu2,T1,T2', 'p2', 'no_mig', 'nu1,nu2,T1+T2'),
    ('p2', 'sec_contact_sym_mig_three_epoch', 'nu1,nu2,0,T1,T2,T3', 'p2', 'no_mig', 'nu1,nu2,T1+T2+T3'),
    ('d2', 'split_delay_mig', 'nu1,nu2,T1,T2,0,0', 'd2', 'split_mig', 'nu1,nu2,T1+T2,0'),
    ('d1', 'three_epoch', 'nuB,nuB,T1,T2', 'd1', 'two_epoch', 'nuB,T1+T2'),
    ('p3', 'refugia_adj_1', 'nu1,nuA,nu2,nu3,0,0,T1,T2,T3', 'p3', 'split_nomig', 'nu1,nuA,nu2,nu3,T1,T2+T3'),
    ('p3', 'ancmig_adj_3', 'nu1,nuA,nu2,nu3,0,T1,T2,T3', 'p3', 'split_nomig', 'nu1,nuA,nu2,nu3,T1+T2,T3'),
    ('p3', 'sim_split_refugia_sym_mig_all', 'nu1,nu2,nu3,0,0,0,T1,T2', 'p3', 'sim_split_no_mig', 'nu1,nu2,nu3,T1+T2'),
    ('sel', 'split_delay_mig_sel', 'nu1,nu2,T1,T2,0,0,g1,g2', 'sel', 'split_mig_sel', 'nu1,nu2,T1+T2,0,g1,g2'),
]

BASE_NAMES = ['nu1', 'nu2', 'nu3', 'nuA', 'nu1b', 'nu2b', 'nu3b', 'nuB', 'nuF', 'nuPre', 'm', 'ma', 'mb', 'mc', 'm12', 'm21',
              'T1', 'T2', 'T3', 'TPre', 's', 'f', 'g', 'g1', 'g2']


def _base_values(rng, wide):
    lu = lambda a, b: math.exp(rng.uniform(math.log(a), math.log(b)))
    v = {}
    for n in BASE_NAMES:
        if n.startswith('nu'):
            v[n] = lu(0.05, 20) if wide else lu(0.3, 3)
        elif n.startswith('T'):
            v[n] = lu(0.01, 0.6) if wide else lu(0.03, 0.25)
        elif n.startswith('m'):
            v[n] = rng.uniform(0.05, 8) if wide else rng.uniform(0.2, 3)
        elif n in ('s', 'f'):
            v[n] = rng.uniform(0.1, 0.9)
        else:
            v[n] = rng.uniform(-8, 3)
    return v


def _eval_params(expr, v):
    if expr == '':
        return None
    return list(eval('(' + expr + ',)', {'__builtins__': {}}, dict(v)))


def _call(mods, mk, name, params, ns, pts):
    """Model value on one grid (int pts) or Richardson-extrapolated over a grid list (via Numerics.make_extrap_func)."""
    from dadi import Numerics
    f = getattr(mods[mk], name)
    if isinstance(pts, int):
        return f(params, ns, pts)
    return Numerics.make_extrap_func(f)(params, ns, list(pts))


def drv_nesting(tier, shard, nshards):
    import warnings
    import numpy as np
    import dadi
    from dadi import Integration
    nv = 1 if tier == 'quick' else 4
    d = _driver('nesting.%d' % shard,
                bound='nesting table of %d exact + %d merged-epoch relations written from the docstrings (shard %d of %d), %d base '
                      'parameter vector(s) each (first: nu in [0.3,3], T in [0.03,0.25], m in [0.2,3]; others nu in [0.05,20], T in '
                      '[0.01,0.6], m in [0.05,8]; fractions in (0.1,0.9), gamma in [-8,3]), ns=(3|(3,4)|(2,3,2)); evaluated on a single '
                      'grid (pts 14; 12 for three populations) and extrapolated over pts (10,14,18) (three populations: thorough only). '
                      'Exact rows: max|A-B| <= 1e-9 max|B| over unmasked cells and identical masks. Merged-epoch rows: difference <= 5e-3 '
                      'at the default timescale_factor and <= 1.25e-3 at a quarter of it (bound proportional to the step).'
                      % (len(NEST), len(NEST_APPROX), shard, nshards, nv))
    warnings.simplefilter('ignore')
    np.seterr(all='ignore')
    mods = _mods()
    tf_saved = Integration.timescale_factor
    rows = [r + ('exact',) for r in NEST] + [r + ('merge', 'approx') for r in NEST_APPROX]
    for ri, row in enumerate(rows):
        if ri % nshards != shard:
            continue
        mkA, A, eA, mkB, B, eB, kind, cls = row
        dim = _dim(mkA, A)
        ns = {1: (3,), 2: (3, 4), 3: (2, 3, 2)}[dim]
        grids = [14 if dim < 3 else 12]
        if dim < 3 or tier != 'quick':
            grids.append((10, 14, 18))
        for iv in range(nv):
            v = _base_values(d.rng, wide=iv > 0)
            pA, pB = _eval_params(eA, v), _eval_params(eB, v)
            for pts in grids:
                info = dict(A='%s.%s' % (mkA, A), paramsA=pA, B='%s.%s' % (mkB, B), paramsB=pB, ns=list(ns), pts=pts, kind=kind)
                key = (mkA, A, eA, mkB, B, iv, str(pts))
                try:
                    if cls == 'exact':
                        diff = _reldiff(_call(mods, mkA, A, pA, ns, pts), _call(mods, mkB, B, pB, ns, pts))
                        d.case(key, diff <= 1e-9, dict(info, rel_diff=diff), fail_key='nesting-%s' % kind)
                    else:
                        if not isinstance(pts, int):
                            continue
                        diffs = []
                        for tf in (tf_saved, tf_saved / 4):
                            Integration.timescale_factor = tf
                            try:
                                diffs.append(_reldiff(_call(mods, mkA, A, pA, ns, pts), _call(mods, mkB, B, pB, ns, pts)))
                            finally:
                                Integration.timescale_factor = tf_saved
                        ok = diffs[0] <= 5e-3 and diffs[1] <= 1.25e-3
                        d.case(key, ok, dict(info, rel_diff_tf_and_quarter=diffs), fail_key='nesting-merged-epoch')
                except Exception:
                    import traceback
                    d.case(key, False, dict(info, exception=traceback.format_exc()[-800:]), fail_key='nesting-exception')
    return d.results()


# ----------------------------------------------------------------------------------------------- label-swap equivariance
# (module, model, params, params after relabelling, axis permutation applied to the relabelled result's sample sizes)
SYM = [
    ('p2', 'no_mig', 'nu1,nu2,T1', 'nu2,nu1,T1', (1, 0)),
    ('p2', 'sym_mig', 'nu1,nu2,m,T1', 'nu2,nu1,m,T1', (1, 0)),
    ('p2', 'asym_mig', 'nu1,nu2,m12,m21,T1', 'nu2,nu1,m21,m12,T1', (1, 0)),
    ('p2', 'anc_sym_mig', 'nu1,nu2,m,T1,T2', 'nu2,nu1,m,T1,T2', (1, 0)),
    ('p2', 'anc_asym_mig', 'nu1,nu2,m12,m21,T1,T2', 'nu2,nu1,m21,m12,T1,T2', (1, 0)),
    ('p2', 'sec_contact_sym_mig', 'nu1,nu2,m,T1,T2', 'nu2,nu1,m,T1,T2', (1, 0)),
    ('p2', 'sec_contact_asym_mig', 'nu1,nu2,m12,m21,T1,T2', 'nu2,nu1,m21,m12,T1,T2', (1, 0)),
    ('p2', 'no_mig_size', 'nu1,nu2,nu1b,nu2b,T1,T2', 'nu2,nu1,nu2b,nu1b,T1,T2', (1, 0)),
    ('p2', 'sym_mig_size', 'nu1,nu2,nu1b,nu2b,m,T1,T2', 'nu2,nu1,nu2b,nu1b,m,T1,T2', (1, 0)),
    ('p2', 'asym_mig_size', 'nu1,nu2,nu1b,nu2b,m12,m21,T1,T2', 'nu2,nu1,nu2b,nu1b,m21,m12,T1,T2', (1, 0)),
    ('p2', 'anc_sym_mig_size', 'nu1,nu2,nu1b,nu2b,m,T1,T2', 'nu2,nu1,nu2b,nu1b,m,T1,T2', (1, 0)),
    ('p2', 'anc_asym_mig_size', 'nu1,nu2,nu1b,nu2b,m12,m21,T1,T2', 'nu2,nu1,nu2b,nu1b,m21,m12,T1,T2', (1, 0)),
    ('p2', 'sec_contact_sym_mig_size', 'nu1,nu2,nu1b,nu2b,m,T1,T2', 'nu2,nu1,nu2b,nu1b,m,T1,T2', (1, 0)),
    ('p2', 'sec_contact_asym_mig_size', 'nu1,nu2,nu1b,nu2b,m12,m21,T1,T2', 'nu2,nu1,nu2b,nu1b,m21,m12,T1,T2', (1, 0)),
    ('p2', 'sym_mig_twoepoch', 'nu1,nu2,ma,mb,T1,T2', 'nu2,nu1,ma,mb,T1,T2', (1, 0)),
    ('p2', 'asym_mig_twoepoch', 'nu1,nu2,m12,m21,ma,mb,T1,T2', 'nu2,nu1,m21,m12,mb,ma,T1,T2', (1, 0)),
    ('p2', 'sec_contact_sym_mig_three_epoch', 'nu1,nu2,m,T1,T2,T3', 'nu2,nu1,m,T1,T2,T3', (1, 0)),
    ('p2', 'sec_contact_asym_mig_three_epoch', 'nu1,nu2,m12,m21,T1,T2', 'nu2,nu1,m21,m12,T1,T2', (1, 0)),
    ('p2', 'sec_contact_sym_mig_size_three_epoch', 'nu1,nu2,nu1b,nu2b,m,T1,T2,T3', 'nu2,nu1,nu2b,nu1b,m,T1,T2,T3', (1, 0)),
    ('p2', 'sec_contact_asym_mig_size_three_epoch', 'nu1,nu2,nu1b,nu2b,m12,m21,T1,T2,T3', 'nu2,nu1,nu2b,nu1b,m21,m12,T1,T2,T3', (1, 0)),
    ('p2', 'vic_no_mig', 'T1,s', 'T1,1-s', (1, 0)),
    ('p2', 'vic_anc_sym_mig', 'm,T1,T2,s', 'm,T1,T2,1-s', (1, 0)),
    ('p2', 'vic_anc_asym_mig', 'm12,m21,T1,T2,s', 'm21,m12,T1,T2,1-s', (1, 0)),
    ('p2', 'vic_sec_contact_sym_mig', 'm,T1,T2,s', 'm,T1,T2,1-s', (1, 0)),
    ('p2', 'vic_sec_contact_asym_mig', 'm12,m21,T1,T2,s', 'm21,m12,T1,T2,1-s', (1, 0)),
    ('d2', 'snm_2d', '', '', (1, 0)),
    ('d2', 'split_mig', 'nu1,nu2,T1,m', 'nu2,nu1,T1,m', (1, 0)),
    ('d2', 'split_asym_mig', 'nu1,nu2,T1,m12,m21', 'nu2,nu1,T1,m21,m12', (1, 0)),
    ('d2', 'split_delay_mig', 'nu1,nu2,T1,T2,m12,m21', 'nu2,nu1,T1,T2,m21,m12', (1, 0)),
    ('d2', 'IM', 's,nu1,nu2,T1,m12,m21', '1-s,nu2,nu1,T1,m21,m12', (1, 0)),
    ('d2', 'IM_pre', 'nuPre,TPre,s,nu1,nu2,T1,m12,m21', 'nuPre,TPre,1-s,nu2,nu1,T1,m21,m12', (1, 0)),
    ('d2', 'bottlegrowth_2d', 'nuB,nuF,T1', 'nuB,nuF,T1', (1, 0)),
    ('d2', 'bottlegrowth_split', 'nuB,nuF,T1+T2,T2', 'nuB,nuF,T1+T2,T2', (1, 0)),
    ('d2', 'bottlegrowth_split_mig', 'nuB,nuF,m,T1,T1+T2', 'nuB,nuF,m,T1,T1+T2', (1, 0)),
    ('sel', 'split_mig_sel_single_gamma', 'nu1,nu2,T1,m,g', 'nu2,nu1,T1,m,g', (1, 0)),
    ('sel', 'split_asym_mig_sel_single_gamma', 'nu1,nu2,T1,m12,m21,g', 'nu2,nu1,T1,m21,m12,g', (1, 0)),
    ('sel', 'split_delay_mig_sel_single_gamma', 'nu1,nu2,T1,T2,m12,m21,g', 'nu2,nu1,T1,T2,m21,m12,g', (1, 0)),
    ('sel', 'IM_sel_single_gamma', 's,nu1,nu2,T1,m12,m21,g', '1-s,nu2,nu1,T1,m21,m12,g', (1, 0)),
    ('sel', 'IM_pre_sel_single_gamma', 'nuPre,TPre,s,nu1,nu2,T1,m12,m21,g', 'nuPre,TPre,1-s,nu2,nu1,T1,m21,m12,g', (1, 0)),
    ('sel', 'bottlegrowth_split_mig_sel_single_gamma', 'nuB,nuF,m,T1+T2,T2,g', 'nuB,nuF,m,T1+T2,T2,g', (1, 0)),
    # the other branch of the same model (split before the size change: Ts > T)
    ('sel', 'bottlegrowth_split_mig_sel_single_gamma', 'nuB,nuF,m,T2,T1+T2,g', 'nuB,nuF,m,T2,T1+T2,g', (1, 0)),
    ('d2', 'bottlegrowth_split_mig', 'nuB,nuF,m,T2,T1+T2', 'nuB,nuF,m,T2,T1+T2', (1, 0)),
    # three populations: simultaneous splits are symmetric under relabelling (m1: 1<->2, m2: 2<->3, m3: 1<->3)
    ('p3', 'sim_split_no_mig', 'nu1,nu2,nu3,T1', 'nu3,nu1,nu2,T1', (2, 0, 1)),
    ('p3', 'sim_split_no_mig', 'nu1,nu2,nu3,T1', 'nu2,nu1,nu3,T1', (1, 0, 2)),
    ('p3', 'sim_split_no_mig_size', 'nu1,nu2,nu3,nu1b,nu2b,nu3b,T1,T2', 'nu1,nu3,nu2,nu1b,nu3b,nu2b,T1,T2', (0, 2, 1)),
    ('p3', 'sim_split_sym_mig_all', 'nu1,nu2,nu3,m,mb,mc,T1', 'nu2,nu1,nu3,m,mc,mb,T1', (1, 0, 2)),
    ('p3', 'sim_split_sym_mig_all', 'nu1,nu2,nu3,m,mb,mc,T1', 'nu3,nu2,nu1,mb,m,mc,T1', (2, 1, 0)),
    ('p3', 'sim_split_sym_mig_adjacent', 'nu1,nu2,nu3,m,mb,T1', 'nu3,nu2,nu1,mb,m,T1', (2, 1, 0)),
    ('p3', 'sim_split_refugia_sym_mig_all', 'nu1,nu2,nu3,m,mb,mc,T1,T2', 'nu1,nu3,nu2,mc,mb,m,T1,T2', (0, 2, 1)),
    ('p3', 'sim_split_refugia_sym_mig_adjacent', 'nu1,nu2,nu3,m,mb,T1,T2', 'nu3,nu2,nu1,mb,m,T1,T2', (2, 1, 0)),
    ('p3', 'sim_split_sym_mig_adjacent_var', 'nu1,nu2,nu3,mb,mc,T1', 'nu2,nu1,nu3,mc,mb,T1', (1, 0, 2)),
    ('p3', 'sim_split_uni_mig_adjacent_var', 'nu1,nu2,nu3,mb,mc,T1', 'nu2,nu1,nu3,mc,mb,T1', (1, 0, 2)),
    ('p3', 'sim_split_refugia_sym_mig_adjacent_var', 'nu1,nu2,nu3,mb,mc,T1,T2', 'nu2,nu1,nu3,mc,mb,T1,T2', (1, 0, 2)),
    # sequential splits: populations 2 and 3 are exchangeable
    ('p3', 'split_nomig', 'nu1,nuA,nu2,nu3,T1,T2', 'nu1,nuA,nu3,nu2,T1,T2', (0, 2, 1)),
    ('p3', 'split_symmig_all', 'nu1,nuA,nu2,nu3,ma,m,mb,mc,T1,T2', 'nu1,nuA,nu3,nu2,ma,mc,mb,m,T1,T2', (0, 2, 1)),
    ('p3', 'ancmig_adj_2', 'nu1,nuA,nu2,nu3,ma,T1,T2', 'nu1,nuA,nu3,nu2,ma,T1,T2', (0, 2, 1)),
    ('p3', 'split_nomig_size', 'nu1,nuA,nu2,nu3,nu1b,nu2b,nu3b,T1,T2,T3', 'nu1,nuA,nu3,nu2,nu1b,nu3b,nu2b,T1,T2,T3', (0, 2, 1)),
]


def drv_symmetry(tier, shard, nshards):
    import warnings
    import numpy as np
    import dadi
    from dadi import Integration
    nv = 1 if tier == 'quick' else 4
    d = _driver('symmetry.%d' % shard,
                bound='%d symmetric models (shard %d of %d), %d base parameter vector(s) (ranges as for nesting), ns=(3,4)|(2,3,4), single '
                      'grid pts 14 (12 for three populations): model(params, ns) vs transpose of model(relabelled params, relabelled ns). '
                      'Contract: difference e(tf) relative to the largest entry <= 2e-2 at the default timescale_factor, and '
                      'e(tf/16) <= max(0.5 e(tf), 1e-9) (operator-splitting error shrinking with the time step)' % (len(SYM), shard, nshards, nv))
    warnings.simplefilter('ignore')
    np.seterr(all='ignore')
    mods = _mods()
    tf_saved = Integration.timescale_factor
    for ri, (mk, name, eA, eB, perm) in enumerate(SYM):
        if ri % nshards != shard:
            continue
        dim = len(perm)
        ns = (3, 4) if dim == 2 else (2, 3, 4)
        # population i of the relabelled model is population perm[i] of the original
        nsB = tuple(ns[p] for p in perm)
        pts = 14 if dim == 2 else 12
        for iv in range(nv):
            v = _base_values(d.rng, wide=iv > 0)
            pA, pB = _eval_params(eA, v), _eval_params(eB, v)
            info = dict(model='%s.%s' % (mk, name), params=pA, relabelled=pB, ns=list(ns), ns_relabelled=list(nsB), perm=list(perm), pts=pts)
            key = (mk, name, eB, iv)
            try:
                es = []
                for tf in (tf_saved, tf_saved / 16):
                    Integration.timescale_factor = tf
                    try:
                        a = _call(mods, mk, name, pA, ns, pts)
                        b = _call(mods, mk, name, pB, nsB, pts)
                    finally:
                        Integration.timescale_factor = tf_saved
                    bt = np.ma.transpose(b, np.argsort(perm))      # axis j of a is population j = relabelled population argsort(perm)[j]
                    es.append(_reldiff(a, bt))
                ok = es[0] <= 2e-2 and es[1] <= max(0.5 * es[0], 1e-9)
                d.case(key, ok, dict(info, rel_diff_tf_and_tf_over_16=es), fail_key='label-swap')
            except Exception:
                import traceback
                d.case(key, False, dict(info, exception=traceback.format_exc()[-800:]), fail_key='label-swap-exception')
    return d.results()
