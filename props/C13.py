"""C13 - Genotype data become the spectrum and statistics that direct counting gives

Contracts (contracts/py_wiring.py c13_*): count_data_dict classification per SNP, Spectrum._from_count_dict = sum of count * outer product of
hypergeometric projections (polarized filter / fold), fragment_data_dict partition and chunk windows for every chunk size in a stated range,
bootstraps_from_dd_chunks = sums of drawn fragment spectra, S/pi/Watterson/theta_L/Tajima_D closed forms, S() mask frame.
Fst = Weir-Cockerham with exact rational coefficient arrays.  The VCF / SNP-file parsers and subsampling stay with the bounded drivers (props/bounded_C13.py).
"""
from vf.helpers import bounded_tasks

META = dict(
    level='other',
    explanation='Wiring and closed-form contracts of the counting / projection / chunking / statistics functions discharged from their AST by z3 and the ring normaliser; the text parsers, subsampling and Fst are run-time contracts over the bounded domain stated per driver (never counted as proved).',
    trusted_base=['oracles of props/bounded_C13.py (independent of dadi: exact rationals, mpmath, dense linear algebra, explicit index loops)'],
    rule='cases enumerated or sampled as stated in each driver\'s bound; a case is non-trivial unless the driver marks it degenerate; distinct by its key',
)


def tasks(tier):
    from vf.core import Task
    W = lambda name, fname, **kw: Task('props.wire:run', name='C13/wire.' + name, fname=fname, kwargs=kw, timeout=400)
    ts = [W('count_data_dict', 'c13_count_data_dict'),
          W('from_count_dict.1D', 'c13_from_count_dict', npop=1),
          W('from_count_dict.2D', 'c13_from_count_dict', npop=2),
          W('fragment_data_dict', 'c13_fragment_data_dict'), W('subsample_call_sites', 'c13_subsample_call_sites'), W('allele_filters', 'c13_allele_filters'),
          W('bootstraps_from_chunks', 'c13_bootstraps_from_chunks'),
          W('S_frame', 'c13_S_frame'),
          W('statistics.n4', 'c13_statistics', n=4),
          W('statistics.n7', 'c13_statistics', n=7),
          W('fst.1_2', 'c13_fst', ns=[1, 2]), W('fst.2_2', 'c13_fst', ns=[2, 2]), W('fst.1_2_1', 'c13_fst', ns=[1, 2, 1])]
    if tier == 'thorough':
        ts += [W('statistics.n%d' % n, 'c13_statistics', n=n) for n in (3, 10, 16)]
    return ts + bounded_tasks('C13', tier)


MANIFEST_ENTRY = dict(
    category='other',
    engine='bounded',
    technique='sidecar contracts on the real functions: wiring / closed-form obligations from the AST discharged by z3 and the ring normaliser where the functions are within reach; bounded run-time contracts with independent oracles for the rest (never counted as proved)',
    text='Discharged from the real source on every run (all values, stated small shapes): count_data_dict classification; _from_count_dict = sum of count x outer product of projections (polarized filter / fold); fragment_data_dict partition and chunk windows for every chunk size in a range; bootstraps_from_dd_chunks; subsampling draw call sites (without replacement); SNP / ancestral-allele / called-genotype tests of the VCF readers over lists of strings; S/pi/Watterson/theta_L/Tajima_D closed forms; Fst = Weir-Cockerham with exact rational coefficients; S() frame. Bounded run-time contracts (never counted as proved): Synthetic VCF/SNP data against direct counting with exact hypergeometric projection, chunk partition, bootstraps, subsampling, statistics.',
    note='bounded: see coverage.bounded.drivers[].bound in the evidence file for the exact domain of every driver',
)
