"""C08 - Projection is hypergeometric subsampling: conserving, composable, mask-monotone

Contracts: the obligations listed in tasks() (contracts/py_wiring.py, contracts/py_memo.py, contracts/c_*.py) are generated from the real source on every run and
discharged by z3 / the ring normaliser; clauses outside their reach are run-time contracts over stated bounded domains (props/bounded_C08.py).
"""
from vf.helpers import bounded_tasks

META = dict(
    level='other',
    explanation='Wiring / closed-form / memo-key contracts generated from the real source and discharged by z3 and the ring normaliser for the functions within reach (see coverage.obligations); the remaining clauses are run-time contracts over the bounded domain stated per driver (bounded stand-in, never counted as proved).',
    trusted_base=['oracles of props/bounded_C08.py (independent of dadi: exact rationals, mpmath, dense linear algebra, explicit index loops)'],
    rule='cases enumerated or sampled as stated in each driver\'s bound; a case is non-trivial unless the driver marks it degenerate; distinct by its key',
)


def tasks(tier):
    from vf.core import Task
    return [Task('props.C08:ob_memo', name='C08/memo-keys', timeout=120)] + [Task('props.wire:run', name='C08/wire.c08_window', fname='c08_window', timeout=300), Task('props.wire:run', name='C08/wire.c08_weights', fname='c08_weights', timeout=300), Task('props.wire:run', name='C08/wire.c08_project_guards', fname='c08_project_guards', timeout=300)] + [Task('props.wire:run', name='C08/wire.project_one_axis.%s.%d.%d' % ('_'.join(map(str, ns)), ax, n), fname='c08_project_one_axis', kwargs=dict(ns=list(ns), axis=ax, n=n), timeout=300) for ns, ax, n in (((3,), 0, 2), ((3, 2), 0, 1), ((2, 3), 1, 2), ((2, 2, 1), 1, 1), ((2,), 0, 3))] + bounded_tasks('C08', tier)


def ob_memo():
    from contracts.py_memo import all_memo_obligations
    return all_memo_obligations('C08', only=['_cached_projection'])


MANIFEST_ENTRY = dict(
    category='other',
    engine='bounded',
    technique='sidecar contracts on the real functions: wiring / closed-form obligations from the AST discharged by z3 and the ring normaliser where the functions are within reach; bounded run-time contracts with independent oracles for the rest (never counted as proved)',
    text='Discharged from the real source on every run (all values, stated small shapes): memo key injective, window = hypergeometric support, weight formula (gammaln axiom), refusal guards and fold wrapping of project; _project_one_axis entry-wise and mask-wise on 1-3-D shapes (weights by contract; versions branching on entries followed). Bounded run-time contracts (never counted as proved): Projection weights exhaustively for 1<=m<=n<=40 against exact rationals, masks, folded, two-stage and axis-order identities.',
    note='bounded: see coverage.bounded.drivers[].bound in the evidence file for the exact domain of every driver',
)
