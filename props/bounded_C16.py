"""E4 bounded driver for C16: demes graphs vs native dadi models, invariances, ancient samples, export/re-import.

Oracles (all independent of dadi/Demes/*.py):
 * a hand-written dadi model (PhiManip/Integration calls issued by the small interpreter `run_native` from an
   abstract random history; the demes graph is rendered from the same history with the textbook conversions
   T=(t0-t1)/(2Ne), nu=N/Ne, M_ij=2Ne*m(j->i)),
 * metamorphic relations on the graph (time units, size/time/rate rescaling, sampled order, explicit Ne),
 * for export: the spectrum of the random dadi program itself.
"""
import math, copy, itertools, warnings
from vf.core import Task
from vf.bounded import Driver


def tasks(tier):
    q = tier == 'quick'
    out = []
    nshard = 4 if q else 12
    per = 16 if q else 130
    for i in range(nshard):
        out.append(Task('props.bounded_C16:drv_native', name='C16/bounded/native.%d' % i, tier=tier, shard=i,
                        ncase=per, timeout=1500))
    nshard = 4 if q else 12
    per = 5 if q else 50
    for i in range(nshard):
        out.append(Task('props.bounded_C16:drv_invariance', name='C16/bounded/invariance.%d' % i, tier=tier,
                        shard=i, ncase=per, timeout=1500))
    nshard = 4 if q else 12
    per = 6 if q else 50
    for i in range(nshard):
        out.append(Task('props.bounded_C16:drv_ancient', name='C16/bounded/ancient.%d' % i, tier=tier,
                        shard=i, ncase=per, timeout=1500))
    nshard = 4 if q else 10
    per = 12 if q else 80
    for i in range(nshard):
        out.append(Task('props.bounded_C16:drv_export', name='C16/bounded/export.%d' % i, tier=tier,
                        shard=i, ncase=per, timeout=1500))
    out.append(Task('props.bounded_C16:drv_fixed', name='C16/bounded/fixed', tier=tier, timeout=1500))
    return out


# ======================================================================================================
# abstract random histories
# ======================================================================================================
BIG_NE = (1000.0, 7310.0, 250.0, 12300.0)
SMALL_NE = (20.0, 40.0, 64.0)


class History:
    """Forward-in-time description.  steps[s] = dict(event=..., live=[names after the event], gens=float,
    sizes={name:(kind,N0,N1)}, mig=[(source,dest,rate)]); the event of step s happens at time tb[s]."""

    def __init__(self, Ne):
        self.Ne = Ne
        self.steps = []
        self.info = {'d0': dict(anc=[], props=[], born=None, died=None)}   # born/died = step index of the event
        self.order = ['d0']                                                 # creation order

    def tb(self):
        t = [0.0]
        for st in reversed(self.steps):
            t.append(t[-1] + st['gens'])
        return t[::-1]            # tb[s] = time (generations ago) at which step s starts; tb[len] = 0


def gen_history(rng, maxlive=5, nsteps=None, force=None, linear_ok=True, ne_choices=(1000.0, 7310.0, 250.0, 12300.0)):
    Ne = rng.choice(list(ne_choices))
    H = History(Ne)
    live = ['d0']
    counter = [0]

    def new(anc, props, s):
        counter[0] += 1
        n = 'd%d' % counter[0]
        H.info[n] = dict(anc=list(anc), props=list(props), born=s, died=None)
        H.order.append(n)
        return n
    nsteps = nsteps or rng.randint(1, 5)
    for s in range(nsteps):
        k = len(live)
        choices = ['none']
        if k + 1 <= maxlive:
            choices += ['split', 'split', 'branch']
            if k >= 2:
                choices += ['admix', 'admix']
        if k >= 2:
            choices += ['pulse', 'pulse', 'extinct']
            if k + 1 <= maxlive:      # dadi builds the merged population as a new axis before the parents are removed
                choices += ['merge']
        choices += ['successor']
        ev = rng.choice(choices)
        fz = {}
        if force and s < len(force):
            fz = force[s] if isinstance(force[s], dict) else dict(kind=force[s])
            ev = fz['kind']
        event = dict(kind=ev)
        if ev in ('split', 'split3'):
            p = fz.get('parent') or rng.choice(live)
            H.info[p]['died'] = s
            live.remove(p)
            ch = [new([p], [1.0], s) for _ in range(3 if ev == 'split3' else 2)]
            live += ch
            event.update(parent=p, children=ch)
        elif ev == 'branch':
            p = fz.get('parent') or rng.choice(live)
            c = new([p], [1.0], s)
            live.append(c)
            event.update(parent=p, child=c)
        elif ev == 'successor':
            p = fz.get('parent') or rng.choice(live)
            H.info[p]['died'] = s
            live.remove(p)
            c = new([p], [1.0], s)
            live.append(c)
            event.update(parent=p, child=c)
        elif ev in ('admix', 'merge'):
            npar = 2 if (k == 2 or rng.random() < 0.7) else 3
            if ev == 'merge':
                npar = 2
            parents = fz.get('parents') or rng.sample(live, npar)
            raw = [rng.uniform(0.15, 1.0) for _ in parents]
            props = [round(x / sum(raw), 3) for x in raw]
            props[-1] = 1.0 - sum(props[:-1])
            props = fz.get('props') or props
            c = new(parents, props, s)
            if ev == 'merge':
                for p in parents:
                    H.info[p]['died'] = s
                    live.remove(p)
            live.append(c)
            event.update(parents=list(parents), props=list(props), child=c)
        elif ev == 'pulse':
            dest = fz.get('dest') or rng.choice(live)
            others = [x for x in live if x != dest]
            nsrc = 1 if (len(others) == 1 or rng.random() < 0.6) else 2
            srcs = fz.get('sources') or rng.sample(others, nsrc)
            props = fz.get('props') or [round(rng.uniform(0.05, 0.4), 3) for _ in srcs]
            event.update(dest=dest, sources=list(srcs), props=list(props))
        elif ev == 'extinct':
            p = fz.get('pop') or rng.choice(live)
            H.info[p]['died'] = s
            live.remove(p)
            event.update(pop=p)
        k = len(live)
        tmax = {1: 0.15, 2: 0.12, 3: 0.08, 4: 0.04, 5: 0.015}[k]
        gens = round(rng.uniform(0.3 * tmax, tmax) * 2 * Ne, 1)
        sizes = {}
        for n in live:
            kind = rng.choice(['constant', 'constant', 'exponential', 'linear' if linear_ok else 'exponential'])
            N0 = round(Ne * rng.uniform(0.3, 3.0), 1)
            N1 = N0 if kind == 'constant' else round(Ne * rng.uniform(0.3, 3.0), 1)
            if N1 == N0:
                kind = 'constant'
            sizes[n] = (kind, N0, N1)
        mig = []
        if k >= 2 and rng.random() < 0.65:
            pairs = list(itertools.permutations(live, 2))
            rng.shuffle(pairs)
            done = set()
            for (a, b) in pairs[:rng.randint(1, min(4, len(pairs)))]:
                if (a, b) in done:
                    continue
                r = rng.uniform(0.2, 3.0) / (2 * Ne)
                mig.append((a, b, r))
                done.add((a, b))
                if rng.random() < 0.3 and (b, a) not in done:      # symmetric pair
                    mig.append((b, a, r))
                    done.add((b, a))
        H.steps.append(dict(event=event, live=list(live), gens=gens, sizes=sizes, mig=mig))
    return H


def render_demes(H, symmetric_as_block=True):
    """The demes graph (dict form) of history H, time in generations."""
    tb = H.tb()
    Ne = H.Ne
    demes_l = []
    for n in H.order:
        inf = H.info[n]
        d = dict(name=n)
        if inf['born'] is not None:
            d['start_time'] = tb[inf['born']]
            d['ancestors'] = list(inf['anc'])
            if len(inf['anc']) > 1:
                d['proportions'] = list(inf['props'])
        eps = []
        if inf['born'] is None:
            eps.append(dict(end_time=tb[0], start_size=Ne))
        for s, st in enumerate(H.steps):
            if n in st['live']:
                kind, N0, N1 = st['sizes'][n]
                e = dict(end_time=tb[s + 1], start_size=N0, end_size=N1, size_function=kind)
                eps.append(e)
        d['epochs'] = eps
        demes_l.append(d)
    migs, pulses = [], []
    for s, st in enumerate(H.steps):
        seen = set()
        for (a, b, r) in st['mig']:
            if (a, b) in seen:
                continue
            if symmetric_as_block and (b, a, r) in st['mig']:
                migs.append(dict(demes=[a, b], rate=r, start_time=tb[s], end_time=tb[s + 1]))
                seen.add((a, b))
                seen.add((b, a))
            else:
                migs.append(dict(source=a, dest=b, rate=r, start_time=tb[s], end_time=tb[s + 1]))
                seen.add((a, b))
        ev = st['event']
        if ev['kind'] == 'pulse':
            pulses.append(dict(sources=list(ev['sources']), dest=ev['dest'], proportions=list(ev['props']), time=tb[s]))
    g = dict(time_units='generations', demes=demes_l)
    if migs:
        g['migrations'] = migs
    if pulses:
        g['pulses'] = pulses
    return g


def resolve(gd):
    import demes
    with warnings.catch_warnings():
        warnings.simplefilter('ignore')
        return demes.Builder.fromdict(copy.deepcopy(gd)).resolve()


# ------------------------------------------------------------------------------------------------------
# hand-written dadi model
# ------------------------------------------------------------------------------------------------------
def nu_value(kind, N0, N1, Ne, frac):
    """relative size a fraction `frac` of the way through an epoch"""
    if kind == 'constant':
        return N0 / Ne
    if kind == 'linear':
        return (N0 + (N1 - N0) * frac) / Ne
    return N0 / Ne * math.exp(math.log(N1 / N0) * frac)


def native_ops(H, samples):
    """samples: list of (deme, time in generations).  Returns (ops, final axis labels, labels of the sampled axes).
    ops: ('int', T, [nu spec], M, frozen) / ('new', props) / ('remove', axis) / ('to_end', axis) /
         ('pulse', dest, props_by_axis).  Axis order is creation order (a new population is always the last axis)."""
    tb = H.tb()
    Ne = H.Ne
    tmin = min(t for (_, t) in samples)
    axes = ['d0']
    frozen = set()
    ops = []
    labels = {}          # sample index -> axis label

    def dies_at(dn, t):
        return H.info[dn]['died'] is not None and tb[H.info[dn]['died']] == t

    def freeze_branches(t):
        for i, (dn, ts) in enumerate(samples):
            if ts == t and t > tmin and not dies_at(dn, t):
                lab = '%s@%r' % (dn, ts)
                if lab not in axes:
                    ops.append(('new', [1.0 if a == dn else 0.0 for a in axes]))
                    axes.append(lab)
                    frozen.add(lab)
                labels[i] = lab

    def end_of(dn, t, successor=None):
        """deme dn ends at time t: it stays as a frozen axis if sampled at that time, else it is marginalised
        (or renamed to its successor)"""
        idx = [i for i, (d2, ts) in enumerate(samples) if d2 == dn and ts == t and t > tmin]
        ax = axes.index(dn)
        if idx:
            lab = '%s@%r' % (dn, t)
            if successor is not None:
                ops.append(('new', [1.0 if a == dn else 0.0 for a in axes]))
                axes.append(successor)
                ax = axes.index(dn)
            ops.append(('to_end', ax))
            axes.pop(ax)
            axes.append(lab)
            frozen.add(lab)
            for i in idx:
                labels[i] = lab
        elif successor is not None:
            ops.append(('to_end', ax))
            axes.pop(ax)
            axes.append(successor)
        else:
            ops.append(('remove', ax))
            axes.pop(ax)

    for s, st in enumerate(H.steps):
        t0, t1 = tb[s], tb[s + 1]
        if t0 <= tmin:
            break
        ev = st['event']
        k = ev['kind']
        if k in ('split', 'split3'):
            p = ev['parent']
            ax = axes.index(p)
            ops.append(('to_end', ax))
            axes.pop(ax)
            axes.append(p)
            for c in ev['children'][1:]:
                ops.append(('new', [1.0 if a == p else 0.0 for a in axes]))
                axes.append(c)
            psampled = [i for i, (d2, ts) in enumerate(samples) if d2 == p and ts == t0 and t0 > tmin]
            if psampled:                     # the parent sampled at the time it splits: one more (frozen) copy
                lab = '%s@%r' % (p, t0)
                ops.append(('new', [1.0 if a == p else 0.0 for a in axes]))
                axes.append(lab)
                frozen.add(lab)
                for i in psampled:
                    labels[i] = lab
            axes[axes.index(p)] = ev['children'][0]
        elif k == 'branch':
            ops.append(('new', [1.0 if a == ev['parent'] else 0.0 for a in axes]))
            axes.append(ev['child'])
        elif k == 'successor':
            end_of(ev['parent'], t0, successor=ev['child'])
        elif k in ('admix', 'merge'):
            pr = dict(zip(ev['parents'], ev['props']))
            ops.append(('new', [pr.get(a, 0.0) for a in axes]))
            axes.append(ev['child'])
            if k == 'merge':
                for p in ev['parents']:
                    end_of(p, t0)
        elif k == 'pulse':
            pr = dict(zip(ev['sources'], ev['props']))
            ops.append(('pulse', axes.index(ev['dest']), [pr.get(a, 0.0) for a in axes]))
        elif k == 'extinct':
            end_of(ev['pop'], t0)
        freeze_branches(t0)
        lo = max(t1, tmin)
        cuts = sorted({t for (_, t) in samples if lo < t < t0}, reverse=True)
        bounds = [t0] + cuts + [lo]
        for a, b in zip(bounds[:-1], bounds[1:]):
            T = (a - b) / (2 * Ne)
            f0, f1 = (t0 - a) / (t0 - t1), (t0 - b) / (t0 - t1)
            nus = []
            for lab in axes:
                if lab in frozen:
                    # the size of a frozen population is irrelevant to the model; Demes.py gives it the absolute size 1,
                    # which enters dadi's time-step choice, so the hand-written model uses the same value
                    nus.append(('constant', 1.0 / Ne, 1.0 / Ne))
                else:
                    kind, N0, N1 = st['sizes'][lab]
                    nus.append((kind, nu_value(kind, N0, N1, Ne, f0), nu_value(kind, N0, N1, Ne, f1)))
            M = [[0.0] * len(axes) for _ in axes]
            for (src, dst, r) in st['mig']:
                M[axes.index(dst)][axes.index(src)] = 2 * Ne * r
            ops.append(('int', T, nus, M, [lab in frozen for lab in axes]))
            if b in cuts:
                freeze_branches(b)
    for i, (dn, ts) in enumerate(samples):
        if ts == tmin:
            labels[i] = dn
    keep = [labels[i] for i in range(len(samples))]
    for lab in list(axes):
        if lab not in keep:
            ops.append(('remove', axes.index(lab)))
            axes.remove(lab)
    return ops, axes, keep


def run_native(ops, pts, theta=1.0):
    import dadi
    xx = dadi.Numerics.default_grid(pts)
    phi = dadi.PhiManip.phi_1D(xx, theta0=theta)
    return _run_ops_from(phi, xx, ops, theta), xx


def _run_ops_from(phi, xx, ops, theta=1.0):
    import numpy
    from dadi import PhiManip as PM, Integration as IN
    for op in ops:
        nd = phi.ndim
        if op[0] == 'new':
            p = op[1]
            if nd == 1:
                phi = PM.phi_1D_to_2D(xx, phi)
            elif nd == 2:
                phi = PM.phi_2D_to_3D_admix(phi, p[0], xx, xx, xx)
            elif nd == 3:
                phi = PM.phi_3D_to_4D(phi, p[0], p[1], xx, xx, xx, xx)
            elif nd == 4:
                phi = PM.phi_4D_to_5D(phi, p[0], p[1], p[2], xx, xx, xx, xx, xx)
            else:
                raise ValueError('more than five populations')
        elif op[0] == 'remove':
            phi = PM.remove_pop(phi, xx, op[1] + 1)
        elif op[0] == 'to_end':
            order = [i + 1 for i in range(nd) if i != op[1]] + [op[1] + 1]
            if order != list(range(1, nd + 1)):
                phi = PM.reorder_pops(phi, order)
        elif op[0] == 'pulse':
            dest, p = op[1], op[2]
            f = [p[i] for i in range(nd) if i != dest]
            phi = numpy.ascontiguousarray(phi)
            if nd == 2:
                fn = [PM.phi_2D_admix_2_into_1, PM.phi_2D_admix_1_into_2][dest]
            elif nd == 3:
                fn = [PM.phi_3D_admix_2_and_3_into_1, PM.phi_3D_admix_1_and_3_into_2, PM.phi_3D_admix_1_and_2_into_3][dest]
            elif nd == 4:
                fn = [PM.phi_4D_admix_into_1, PM.phi_4D_admix_into_2, PM.phi_4D_admix_into_3, PM.phi_4D_admix_into_4][dest]
            else:
                fn = [PM.phi_5D_admix_into_1, PM.phi_5D_admix_into_2, PM.phi_5D_admix_into_3, PM.phi_5D_admix_into_4,
                      PM.phi_5D_admix_into_5][dest]
            phi = fn(phi, *(f + [xx] * nd))
        elif op[0] == 'int':
            _, T, nus, M, frozen = op[:5]
            t0 = op[5] if len(op) > 5 else 0.0
            allconst = all(k == 'constant' for (k, _, _) in nus)

            def mk(spec):
                kind, a, b = spec
                if kind == 'constant':
                    return a
                if kind == 'linear':
                    return lambda t, a=a, b=b: a + (b - a) * (t - t0) / T
                return lambda t, a=a, b=b: a * (b / a) ** ((t - t0) / T)
            vals = [mk(sp) for sp in nus]
            phi = numpy.ascontiguousarray(phi)
            if t0:
                kw0 = dict(initial_t=t0)
            else:
                kw0 = {}
            if nd == 1:
                phi = IN.one_pop(phi, xx, t0 + T, nu=vals[0], theta0=theta, frozen=frozen[0], **kw0)
            else:
                kw = {}
                for i in range(nd):
                    kw['nu%d' % (i + 1)] = vals[i]
                    kw['frozen%d' % (i + 1)] = frozen[i]
                    for j in range(nd):
                        if i != j:
                            kw['m%d%d' % (i + 1, j + 1)] = M[i][j]
                fn = {2: IN.two_pops, 3: IN.three_pops, 4: IN.four_pops, 5: IN.five_pops}[nd]
                kw.update(kw0)
                phi = fn(phi.copy(), xx, t0 + T, theta0=theta, **kw)
        elif op[0] == 'reorder':
            phi = numpy.ascontiguousarray(PM.reorder_pops(phi, list(op[1])))
        else:
            raise ValueError(op[0])
    return phi


def native_sfs(H, samples, ns, pts, theta=1.0):
    import numpy
    import dadi
    ops, axes, keep = native_ops(H, samples)
    phi, xx = run_native(ops, pts, theta)
    perm = [axes.index(l) for l in keep]
    phi = numpy.ascontiguousarray(numpy.transpose(phi, perm))
    return dadi.Spectrum.from_phi(phi, ns, [xx] * len(ns)), ops


def maxlive_with(H, samples):
    ops, axes, keep = native_ops(H, samples)
    n, m = 1, 1
    for op in ops:
        if op[0] == 'new':
            n += 1
        elif op[0] == 'remove':
            n -= 1
        m = max(m, n)
    return m


def pts_for(k):
    return {1: 14, 2: 14, 3: 12, 4: 10, 5: 8}[k]


def relerr(a, b):
    import numpy
    a = numpy.ma.filled(a, 0.0)
    b = numpy.ma.filled(b, 0.0)
    if a.shape != b.shape:
        return float('inf')
    sc = max(float(numpy.max(numpy.abs(b))), 1e-300)
    d = numpy.abs(a - b)
    if not numpy.all(numpy.isfinite(d)):
        return float('inf')
    return float(numpy.max(d)) / sc


def hist_summary(H, samples=None):
    return dict(Ne=H.Ne, events=[st['event'] for st in H.steps], gens=[st['gens'] for st in H.steps],
                sizes=[st['sizes'] for st in H.steps], mig=[st['mig'] for st in H.steps], samples=samples)


def peak_live(H):
    return max(len(st['live']) for st in H.steps)


# ======================================================================================================
# task: demes graph == hand-written model
# ======================================================================================================
def _shard_rng(d, shard):
    import random
    return random.Random(d.rng.randrange(2 ** 30) * 64 + shard)


def drv_native(tier, shard, ncase):
    warnings.simplefilter('ignore')
    import numpy
    d = Driver('C16', 'native.%d' % shard,
               bound='%d random tree/admixture histories per shard (1-5 steps; split, branch, successor, admixture of 2-3 parents, '
                     'merger, pulses from 1-2 sources, extinction; constant/exponential/linear epochs; asymmetric and symmetric '
                     'migration; <=5 live demes; pts 14/12/10/8 for <=2/3/4/5 demes; random sampled subset in random order; '
                     'ns 2-4); Demes.SFS vs hand-written dadi model max|diff| <= 1e-8*max; every 4th case through '
                     'Spectrum.from_demes with pts (p,p+2,p+4) vs the extrapolated native model' % ncase)
    import dadi
    rng = _shard_rng(d, shard)
    for ci in range(ncase):
        maxlive = 5 if (ci % 3 == 0) else rng.choice([2, 3, 4])
        H = gen_history(rng, maxlive=maxlive)
        live = H.steps[-1]['live']
        nsamp = rng.randint(1, len(live))
        sampled = rng.sample(live, nsamp)
        ns = [rng.choice([2, 3, 4]) for _ in sampled]
        samples = [(n, 0.0) for n in sampled]
        pk = peak_live(H)
        pts = pts_for(pk)
        info = dict(hist_summary(H, samples), ns=ns, pts=pts, shard=shard, case=ci)
        key = (shard, ci, pk, tuple(st['event']['kind'] for st in H.steps))
        try:
            g = resolve(render_demes(H))
        except Exception as e:
            d.case(key, False, dict(info, error='generator produced an invalid graph: %r' % (e,)), fail_key='generator')
            continue
        use_extrap = (ci % 4 == 3) and pk <= 3
        if use_extrap:
            pl = [pts, pts + 2, pts + 4]

            def run():
                got = dadi.Spectrum.from_demes(g, sampled_demes=list(sampled), sample_sizes=list(ns), pts=pl)
                f = dadi.Numerics.make_extrap_func(lambda p, n, pts: native_sfs(H, samples, n, pts)[0])
                want = f(None, ns, pl)
                e = relerr(got, want)
                return e <= 1e-8 and list(got.pop_ids) == list(sampled), dict(rel_err=e, via='from_demes', pts_l=pl)
            d.check(key, run, info, fail_key='from_demes-vs-native-extrapolated')
        else:
            compare_with_native(d, key, info, lambda: dadi.Demes.SFS(g, list(sampled), list(ns), pts), H, samples, ns, pts,
                                check_ids=sampled)
    return d.results()


# ------------------------------------------------------------------------------------------------------
# failure classification helpers (a failing case stays failing; these only pick the fail_key)
# ------------------------------------------------------------------------------------------------------
class contiguous_reorder:
    """Context manager: PhiManip.reorder_pops returns a C-contiguous copy instead of a transposed view.  Used only to
    decide whether a mismatch is the (C20) defect that four_pops/five_pops hand non-contiguous views to the kernels."""

    def __enter__(self):
        import numpy, dadi
        self.pm = dadi.PhiManip
        self.orig = self.pm.reorder_pops
        orig = self.orig
        self.pm.reorder_pops = lambda phi, neworder: numpy.ascontiguousarray(orig(phi, neworder))

    def __exit__(self, *a):
        self.pm.reorder_pops = self.orig


def has_frozen5_mismatch(ops):
    return any(op[0] == 'int' and len(op[4]) == 5 and op[4][3] != op[4][4] for op in ops)


def compare_with_native(d, key, info, call, H, samples, ns, pts, tol=1e-8, fail_key='demes-vs-native', check_ids=None,
                        classify=None):
    """call() -> spectrum from the demes side.  Classifies a mismatch."""
    import dadi
    try:
        want, ops = native_sfs(H, samples, ns, pts)
    except Exception as e:
        return d.case(key, False, dict(info, error='native model failed: %r' % (e,)), fail_key='native-model-error')
    extra = {}
    try:
        got = call()
        e = relerr(got, want)
        ok = e <= tol
        extra['rel_err'] = e
        if ok and check_ids is not None and list(got.pop_ids or []) != list(check_ids):
            ok = False
            extra['pop_ids'] = list(got.pop_ids or [])
            fail_key = 'pop-ids'
    except Exception as ex:
        import traceback
        ok = False
        extra['exception'] = traceback.format_exc()[-900:]
    if not ok and 'pop_ids' not in extra:
        try:
            with contiguous_reorder():
                e2 = relerr(call(), want)
        except Exception:
            e2 = None
        extra['rel_err_with_contiguous_reorder'] = e2
        cls = classify(extra) if (classify is not None and extra.get('exception')) else None
        if e2 is not None and e2 <= tol:
            fail_key = 'noncontiguous-phi-into-4D5D-kernel'
        elif cls:
            fail_key = cls            # an exception with a recognised cause is that cause, whatever else the history contains
        elif 'too many indices for array' in extra.get('exception', ''):
            # five demes alive, a branch (e.g. the frozen copy for an ancient sample) and an extinction at the same time: Demes.py applies the
            # branch first (a transient sixth deme: _split_phi has no 5 -> 6 case and returns phi unchanged while the label list grows), then
            # removes the extinct deme, and the next integration indexes a 4-D phi with five labels
            fail_key = 'transient-sixth-deme-at-branch'
        elif has_frozen5_mismatch(ops):
            fail_key = 'frozen5-takes-frozen4-flag'
        elif 'more than 5 demes' in extra.get('exception', ''):
            # <= 5 contemporaneous demes at all times, but Demes.py adds the frozen branch / child before removing the parents
            fail_key = 'transient-sixth-deme-at-merge'
        elif classify is not None:
            fail_key = classify(extra) or fail_key
    return d.case(key, ok, dict(info, **extra), fail_key=fail_key)


# ======================================================================================================
# task: invariances (time units, rescaling, sampled order, explicit Ne)
# ======================================================================================================
def scale_graph(gd, tfac=1.0, sfac=1.0, units=None, gen_time=None):
    g = copy.deepcopy(gd)
    if units:
        g['time_units'] = units
        g['generation_time'] = gen_time
    for dm in g['demes']:
        if 'start_time' in dm:
            dm['start_time'] = dm['start_time'] * tfac
        for e in dm['epochs']:
            e['end_time'] = e['end_time'] * tfac
            for k in ('start_size', 'end_size'):
                if k in e:
                    e[k] = e[k] * sfac
    for m in g.get('migrations', []):
        m['start_time'] *= tfac
        m['end_time'] *= tfac
        m['rate'] = m['rate'] / sfac
    for p in g.get('pulses', []):
        p['time'] *= tfac
    return g


def pick_samples(rng, H, mode):
    """mode 'now': contemporary subset; 'mixed': contemporary + ancient; 'ancient': every sample time > 0.
    Returns list of (deme, time) or None."""
    tb = H.tb()
    live = H.steps[-1]['live']
    if mode == 'now':
        return [(n, 0.0) for n in rng.sample(live, rng.randint(1, len(live)))]

    def alive_options(tlo):
        """(deme, step) pairs alive strictly inside step s for steps ending at or after tlo"""
        out = []
        for s, st in enumerate(H.steps):
            if tb[s + 1] >= tlo:
                for n in st['live']:
                    out.append((n, s))
        return out

    def interior_time(s):
        f = rng.choice([0.25, 0.5, 0.6])
        return round(tb[s + 1] + f * H.steps[s]['gens'], 2)
    if mode == 'mixed':
        samples = [(n, 0.0) for n in rng.sample(live, rng.randint(1, min(2, len(live))))]
        for _ in range(rng.randint(1, 2)):
            r = rng.random()
            ext = [(st['event']['pop'], tb[s]) for s, st in enumerate(H.steps) if st['event']['kind'] == 'extinct']
            if r < 0.25 and ext:
                samples.append(rng.choice(ext))
            elif r < 0.4 and len(H.steps) >= 2:
                # exactly on an epoch boundary where nothing structural happens to the sampled deme
                s = rng.randrange(1, len(H.steps))
                cand = [n for n in H.steps[s]['live'] if n in H.steps[s - 1]['live']]
                if cand:
                    samples.append((rng.choice(cand), tb[s]))
            else:
                n, s = rng.choice(alive_options(0.0))
                samples.append((n, interior_time(s)))
        samples = list(dict.fromkeys(samples))
        rng.shuffle(samples)
        return samples
    # all ancient
    s0 = rng.randrange(len(H.steps))
    tmin = interior_time(s0) if rng.random() < 0.7 else tb[s0 + 1]
    if tmin <= 0:
        tmin = interior_time(s0)
    at = [n for n in H.steps[s0]['live']]
    samples = [(n, tmin) for n in rng.sample(at, rng.randint(1, min(2, len(at))))]
    if rng.random() < 0.5:
        opts = [(n, s) for (n, s) in alive_options(tmin) if s < s0]
        if opts:
            n, s = rng.choice(opts)
            samples.append((n, interior_time(s)))
    rng.shuffle(samples)
    return samples


def demes_call(g, samples, ns, pts, **kw):
    import dadi
    names = [n for (n, _) in samples]
    times = [t for (_, t) in samples]
    st = None if all(t == 0 for t in times) else list(times)
    return dadi.Demes.SFS(g, list(names), list(ns), pts, sample_times=st, **kw)


def drv_invariance(tier, shard, ncase):
    warnings.simplefilter('ignore')
    import numpy
    d = Driver('C16', 'invariance.%d' % shard,
               bound='%d random histories per shard (as in native.*, <=4 live demes, contemporary or mixed ancient samples, <=4 axes in total); '
                     'graph in years with generation_time in {25, 29.5, 0.25}; sizes and times x c, rates / c, c in {2, 0.37, 3.3}; '
                     'every permutation (<=6) of the sampled demes; explicit Ne=c*N_root with theta=c; all vs the base spectrum, '
                     'max|diff| <= 1e-9*max (permutation 1e-12; rescaling/explicit Ne with ancient samples 1e-3 (Ne 20-64 there) because the frozen deme '
                     'keeps the absolute size 1 and dadi picks its time step from it)' % ncase)
    rng = _shard_rng(d, shard)
    for ci in range(ncase):
        mode = 'now' if ci % 3 else 'mixed'
        # ancient samples: Demes.py gives a frozen deme the absolute size 1, i.e. nu=1/Ne, and dadi's time step is
        # proportional to the smallest nu: keep Ne small there or a single case takes minutes
        H = gen_history(rng, maxlive=rng.choice([2, 3, 4]), ne_choices=SMALL_NE if mode == 'mixed' else BIG_NE)
        samples = pick_samples(rng, H, mode)
        if maxlive_with(H, samples) > 4:      # (five axes with a frozen one cost minutes here: tiny time steps in 5-D)
            samples = pick_samples(rng, H, 'now')
        anc = any(t > 0 for (_, t) in samples)
        # with a frozen deme (absolute size 1) the time steps are not scale covariant: discretisation-level agreement only
        stol = 1e-3 if anc else 1e-9
        ns = [rng.choice([2, 3]) for _ in samples]
        pts = pts_for(min(5, maxlive_with(H, samples)))
        gd = render_demes(H)
        info = dict(hist_summary(H, samples), ns=ns, pts=pts, shard=shard, case=ci)
        key0 = (shard, ci)
        try:
            base = demes_call(resolve(gd), samples, ns, pts)
        except Exception as e:
            # the base call itself failing is the business of native.* / ancient.*; nothing to compare here
            d.case(key0 + ('base',), True, dict(info, skipped='base call raised %r' % (e,)), nontrivial=False)
            continue
        ops0 = native_ops(H, samples)[0]

        def inv_check(key, fn, fail_key):
            """fn() -> (ok, extra); a failure that disappears when reorder_pops returns contiguous arrays (or that involves the
            frozen5 flag) is filed under that defect instead of under the invariance"""
            try:
                ok, extra = fn()
            except Exception:
                import traceback
                ok, extra = False, dict(exception=traceback.format_exc()[-700:])
            if not ok:
                try:
                    with contiguous_reorder():
                        ok2, _ = fn(rebase=True)
                except Exception:
                    ok2 = False
                if ok2:
                    fail_key = 'noncontiguous-phi-into-4D5D-kernel'
                elif has_frozen5_mismatch(ops0):
                    fail_key = 'frozen5-takes-frozen4-flag'
            d.case(key, ok, dict(info, **extra), fail_key=fail_key)

        def ref(rebase):
            return demes_call(resolve(gd), samples, ns, pts) if rebase else base
        gt = rng.choice([25.0, 29.5, 0.25])

        def years(rebase=False):
            g2 = resolve(scale_graph(gd, tfac=gt, units='years', gen_time=gt))
            got = demes_call(g2, [(n, t * gt) for (n, t) in samples], ns, pts)
            e = relerr(got, ref(rebase))
            return e <= 1e-9, dict(rel_err=e, generation_time=gt)
        inv_check(key0 + ('years', gt), years, 'time-units')
        c = rng.choice([2.0, 0.37, 3.3])

        def rescale(rebase=False):
            g2 = resolve(scale_graph(gd, tfac=c, sfac=c))
            got = demes_call(g2, [(n, t * c) for (n, t) in samples], ns, pts)
            e = relerr(got, ref(rebase))
            return e <= stol, dict(rel_err=e, c=c, tol=stol)
        inv_check(key0 + ('rescale', c), rescale, 'reference-size-rescaling')

        def explicit_ne(rebase=False):
            got = demes_call(resolve(gd), samples, ns, pts, Ne=c * H.Ne, theta=c)
            e = relerr(got, ref(rebase))
            return e <= stol, dict(rel_err=e, c=c, Ne=c * H.Ne, theta=c, tol=stol)
        inv_check(key0 + ('Ne', c), explicit_ne, 'explicit-Ne-root-equilibrium')
        perms = list(itertools.permutations(range(len(samples))))[1:]
        rng.shuffle(perms)
        for pm in perms[:5]:
            def perm():
                got = demes_call(resolve(gd), [samples[i] for i in pm], [ns[i] for i in pm], pts)
                want = numpy.transpose(numpy.ma.filled(base, 0.0), pm)
                e = relerr(got, want)
                ok = e <= 1e-12
                if mode == 'now':
                    ok = ok and list(got.pop_ids) == [samples[i][0] for i in pm]
                return ok, dict(rel_err=e, perm=list(pm), pop_ids=list(got.pop_ids or []))
            d.check(key0 + ('perm', pm), perm, info, fail_key='sampled-order')
    return d.results()


# ======================================================================================================
# task: ancient samples == frozen branches (incl. slicing when every sample is ancient)
# ======================================================================================================
def classify_ancient(H, samples, extra):
    """which weakness of the slicing code a failing all-ancient case exercises (None if none)"""
    tb = H.tb()
    tmin = min(t for (_, t) in samples)
    if tmin <= 0:
        return None
    exc = extra.get('exception', '')
    if 'ancestor deme' in exc and 'not found' in exc:
        return 'all-ancient-rename-leaves-ancestor-links'
    if exc:
        return None
    # direct evidence: DemesUtil.slice must leave every surviving deme with its own size at the slice time
    import dadi
    try:
        g2 = dadi.Demes.DemesUtil.slice(resolve(render_demes(H)), tmin)
    except Exception:
        return None
    for s, st in enumerate(H.steps):
        if tb[s + 1] <= tmin < tb[s]:
            for n, (kind, N0, N1) in st['sizes'].items():
                want = nu_value(kind, N0, N1, 1.0, (tb[s] - tmin) / (tb[s] - tb[s + 1]))
                if n in g2 and abs(g2[n].epochs[-1].end_size - want) > 1e-9 * want:
                    return 'slice-linear-epoch' if kind == 'linear' else 'slice-size-at-cut'
    return None


def drv_ancient(tier, shard, ncase):
    warnings.simplefilter('ignore')
    d = Driver('C16', 'ancient.%d' % shard,
               bound='%d random histories per shard (as in native.*), sample_times with 1-2 ancient samples next to contemporary ones '
                     '(inside an epoch, on an epoch boundary, at the end of an extinct deme, same deme twice) or all samples ancient '
                     '(graph sliced at the youngest sample); <=5 axes including frozen ones; Demes.SFS vs hand-written model with '
                     'frozen populations, max|diff| <= 1e-8*max' % ncase)
    rng = _shard_rng(d, shard)
    for ci in range(ncase):
        H = gen_history(rng, maxlive=rng.choice([2, 3, 4, 4]), ne_choices=SMALL_NE)
        mode = 'ancient' if ci % 3 == 2 else 'mixed'
        samples = None
        for _ in range(20):
            sm = pick_samples(rng, H, mode)
            try:
                if maxlive_with(H, sm) <= 5:
                    samples = sm
                    break
            except Exception:
                continue
        if samples is None:
            d.case((shard, ci), True, dict(skipped='no admissible sample set'), nontrivial=False)
            continue
        ns = [rng.choice([2, 3]) for _ in samples]
        ml = maxlive_with(H, samples)
        pts = pts_for(ml)
        g = resolve(render_demes(H))
        info = dict(hist_summary(H, samples), ns=ns, pts=pts, shard=shard, case=ci, mode=mode, axes=ml)
        key = (shard, ci, mode, ml, tuple(samples))
        compare_with_native(d, key, info, lambda: demes_call(g, samples, ns, pts), H, samples, ns, pts,
                            fail_key='ancient-vs-frozen', classify=lambda extra: classify_ancient(H, samples, extra))
    return d.results()


# ======================================================================================================
# task: export of random dadi programs and re-import
# ======================================================================================================
def gen_program(rng, maxd, admix=True):
    """random op list in run_native's format plus 'reorder'; every new population / pulse is followed by an integration"""
    ops = []
    nd = 1

    def integ():
        tmax = {1: 0.15, 2: 0.12, 3: 0.08, 4: 0.04, 5: 0.012}[nd]
        T = round(rng.uniform(0.3 * tmax, tmax), 4)
        nus = []
        for _ in range(nd):
            kind = rng.choice(['constant', 'constant', 'exponential', 'linear'])
            a = round(rng.uniform(0.3, 3.0), 3)
            b = a
            if kind != 'constant':
                b = round(a * rng.choice([rng.uniform(0.2, 0.6), rng.uniform(1.6, 4.0)]), 3)
            nus.append((kind, a, b))
        M = [[0.0] * nd for _ in range(nd)]
        if nd >= 2 and rng.random() < 0.6:
            for _ in range(rng.randint(1, 3)):
                i, j = rng.sample(range(nd), 2)
                M[i][j] = round(rng.uniform(0.2, 3.0), 3)
                if rng.random() < 0.3:
                    M[j][i] = M[i][j]
        # one epoch in four is written in absolute-time style: integrate from initial_t = t0 to t0 + T (no extra random draw: the
        # programs generated for a seed are the same as without this feature)
        t0 = round(1.7 * T, 4) if int(round(T * 1e4)) % 4 == 1 else 0.0
        ops.append(('int', T, nus, M, [False] * nd) + ((t0,) if t0 else ()))
    if rng.random() < 0.6:
        integ()
    nstruct = rng.randint(1, 6)
    for _ in range(nstruct):
        ch = []
        if nd < maxd:
            ch += ['new'] * 3
        if nd >= 2:
            ch += ['pulse', 'pulse', 'remove', 'reorder']
        if nd == 1 and not ch:
            ch = ['int']
        c = rng.choice(ch)
        if c == 'new':
            if nd == 1 or not admix or rng.random() < 0.55:
                src = rng.randrange(nd)
                p = [1.0 if i == src else 0.0 for i in range(nd)]
            else:
                k = 2 if (nd == 2 or rng.random() < 0.7) else 3
                idx = rng.sample(range(nd), k)
                raw = [rng.uniform(0.15, 1.0) for _ in idx]
                pr = [round(x / sum(raw), 3) for x in raw]
                pr[-1] = 1.0 - sum(pr[:-1])
                p = [0.0] * nd
                for i, v in zip(idx, pr):
                    p[i] = v
            ops.append(('new', p))
            nd += 1
            integ()
        elif c == 'pulse':
            dest = rng.randrange(nd)
            others = [i for i in range(nd) if i != dest]
            srcs = rng.sample(others, 1 if (len(others) == 1 or rng.random() < 0.6) else 2)
            p = [0.0] * nd
            for i in srcs:
                p[i] = round(rng.uniform(0.05, 0.4), 3)
            ops.append(('pulse', dest, p))
            integ()
        elif c == 'remove':
            ops.append(('remove', rng.randrange(nd)))
            nd -= 1
            integ()      # (a removal directly followed by a split is re-imported as split-then-marginalise: other discretisation)
        elif c == 'reorder':
            perm = list(range(1, nd + 1))
            while perm == list(range(1, nd + 1)):
                rng.shuffle(perm)
            ops.append(('reorder', perm))
            if rng.random() < 0.8:
                integ()
        else:
            integ()
    return ops, nd


def run_program(ops, pts, nu_root=1.0):
    """execute the op list with plain dadi calls; returns phi, xx"""
    import numpy, dadi
    from dadi import PhiManip as PM
    xx = dadi.Numerics.default_grid(pts)
    phi = PM.phi_1D(xx, nu=nu_root)
    return _run_ops_from(phi, xx, ops), xx


def export_fail_key(ops, exc, mismatch):
    """name the defect class a failing export case belongs to, from the program and from how it failed"""
    nd = 1
    k4 = k5 = adm = False
    for op in ops:
        if op[0] == 'new':
            adm = adm or sum(1 for v in op[1] if v != 0) > 1
            nd += 1
        elif op[0] == 'remove':
            nd -= 1
        elif op[0] == 'pulse':
            if nd == 4 and op[1] == 3:
                k4 = True
            if nd == 5:
                k5 = True
    if exc:
        if 'proportions' in exc and '0 <=' in exc:
            return 'export-complement-proportion-roundoff'
        if k4 and ('same as dest' in exc or 'source' in exc):
            return 'export-4D-admix-into-4-recorded-as-dest-1'
        if adm and 'is not in list' in exc:
            return 'export-admixed-new-population-reimport-crash'
        return 'export-reimport'
    if k5:
        return 'export-5D-pulse-not-recorded'
    if k4:
        return 'export-4D-admix-into-4-recorded-as-dest-1'
    return 'export-reimport'


def drv_export(tier, shard, ncase):
    warnings.simplefilter('ignore')
    import numpy
    d = Driver('C16', 'export.%d' % shard,
               bound='%d random dadi programs per shard (shard 0 also one fixed program per pulse destination among 2-5 populations): phi_1D(nu in {1,1,2,0.5}) then 1-6 of {new population by split or 2-3-way '
                     'admixture, pulse from 1-2 sources (2-D..5-D, every destination), remove_pop, reorder_pops}, each new population/'
                     'pulse/removal followed by an integration (constant/exponential/linear sizes, random migration; one in four from a non-zero initial_t), 1-5 populations; '
                     'Demes.output(Nref in {1000,7310,123.5}, generation_time in {None,25,29.5}) re-imported by Demes.SFS(theta=nu_root) '
                     'at the same pts (14/12/10/8 by dimension) vs the program spectrum: max|diff| <= 1e-7*max, or 2e-3*max when the '
                     'program reorders populations (the re-import integrates the axes in another order: splitting error)' % ncase)
    import dadi
    rng = _shard_rng(d, shard)
    fixed = []
    if shard == 0:
        # every destination of a pulse among 2..5 populations (populations made by successive splits of population 1)
        for k in range(2, 6):
            for dest in range(k):
                fops = []
                for n in range(1, k):
                    fops.append(('new', [1.0] + [0.0] * (n - 1)))
                    T = {2: 0.05, 3: 0.04, 4: 0.02, 5: 0.008}[n + 1]
                    fops.append(('int', T, [('constant', 0.6 + 0.4 * i, 0.6 + 0.4 * i) for i in range(n + 1)],
                                 [[0.0] * (n + 1) for _ in range(n + 1)], [False] * (n + 1)))
                src = [i for i in range(k) if i != dest][:2]
                pr = [0.0] * k
                for i, f in zip(src, (0.3, 0.2)):
                    pr[i] = f
                fops.append(('pulse', dest, pr))
                fops.append(fops[-2])
                fixed.append((fops, k))
    for ci in range(ncase + len(fixed)):
        maxd = 5 if ci % 4 == 0 else rng.choice([2, 3, 4])
        if ci >= ncase:
            ops, nd = fixed[ci - ncase]
        else:
            ops, nd = gen_program(rng, maxd, admix=(ci % 3 == 2))
        peak, n = 1, 1
        for op in ops:
            n += (op[0] == 'new') - (op[0] == 'remove')
            peak = max(peak, n)
        pts = pts_for(peak)
        nu_root = rng.choice([1.0, 1.0, 2.0, 0.5])
        Nref = rng.choice([1000.0, 7310.0, 123.5])
        gen_time = rng.choice([None, None, 25.0, 29.5])
        ns = [rng.choice([2, 3, 4]) for _ in range(nd)]
        info = dict(ops=ops, pts=pts, nu_root=nu_root, Nref=Nref, generation_time=gen_time, ns=ns, shard=shard, case=ci)
        key = (shard, ci, peak, tuple(op[0] for op in ops))
        reorders = any(op[0] == 'reorder' for op in ops)
        tol = 2e-3 if reorders else 1e-7
        extra = dict(tol=tol)
        ok, exc, want, reimport = False, '', None, None
        try:
            phi, xx = run_program(ops, pts, nu_root)
            want = dadi.Spectrum.from_phi(numpy.ascontiguousarray(phi), ns, [xx] * nd)
            with warnings.catch_warnings():
                warnings.simplefilter('ignore')
                g = dadi.Demes.output(Nref=Nref, generation_time=gen_time)
            names = list(dadi.Demes.cache[-1].deme_ids)
            extra['names'] = names

            def reimport():
                return dadi.Demes.SFS(g, list(names), list(ns), pts, theta=float(nu_root))
            e = relerr(reimport(), want)
            extra['rel_err'] = e
            ok = e <= tol
        except Exception:
            import traceback
            exc = traceback.format_exc()
            extra['exception'] = exc[-700:]
        fk = None
        if not ok:
            fk = export_fail_key(ops, exc, not exc)
            if fk == 'export-reimport' and not exc:
                try:
                    with contiguous_reorder():
                        e2 = relerr(reimport(), want)
                    extra['rel_err_with_contiguous_reorder'] = e2
                    if e2 <= tol:
                        fk = 'noncontiguous-phi-into-4D5D-kernel'
                except Exception:
                    pass
        d.case(key, ok, dict(info, **extra), fail_key=fk)
    return d.results()


# ======================================================================================================
# task: deterministic shapes the random generators reach rarely
# ======================================================================================================
def drv_fixed(tier):
    warnings.simplefilter('ignore')
    import os, tempfile, shutil
    import numpy
    import dadi, demes
    d = Driver('C16', 'fixed',
               bound='hand-picked shapes (random sizes/migration): three-way split; a deme sampled at its default sample time when it '
                     'splits / merges; every destination of a pulse from two sources among 2,3,4,5 demes; a frozen 5th and a frozen '
                     '4th of 5 axes; slicing through a linear epoch; all-ancient sampling of a deme with descendants; the same deme '
                     'sampled now and in the past; from_demes given a YAML path; all vs the hand-written model, 1e-8*max')
    rng = d.rng
    reps = 1 if tier == 'quick' else 4

    def go(name, force, samples_fn, fail_key, ne=BIG_NE, default_times=False, ns_val=2):
        for r in range(reps):
            H = gen_history(rng, maxlive=5, nsteps=len(force), force=force, ne_choices=ne)
            tb = H.tb()
            samples = samples_fn(H, tb)
            ns = [ns_val] * len(samples)
            ml = maxlive_with(H, samples)
            pts = pts_for(ml)
            g = resolve(render_demes(H))
            info = dict(hist_summary(H, samples), ns=ns, pts=pts, shape=name)
            if default_times:
                call = lambda: dadi.Demes.SFS(g, [n for (n, _) in samples], list(ns), pts)
            else:
                call = lambda: demes_call(g, samples, ns, pts)
            compare_with_native(d, (name, r), info, call, H, samples, ns, pts, fail_key=fail_key,
                                classify=lambda extra: classify_ancient(H, samples, extra))

    go('split3', [dict(kind='split3', parent='d0')], lambda H, tb: [('d1', 0.0), ('d2', 0.0), ('d3', 0.0)],
       'split-into-three-children')
    go('sample-split-parent-at-end', [dict(kind='none'), dict(kind='split', parent='d0')],
       lambda H, tb: [('d0', tb[1]), ('d1', 0.0)], 'sample-at-end-of-split-parent', ne=SMALL_NE, default_times=True)
    go('sample-merge-parent-at-end', [dict(kind='split', parent='d0'), dict(kind='merge', parents=['d1', 'd2'])],
       lambda H, tb: [('d1', tb[1]), ('d3', 0.0)], 'sample-at-end-of-merge-parent', ne=SMALL_NE, default_times=True)
    go('sample-successor-parent-at-end', [dict(kind='none'), dict(kind='successor', parent='d0')],
       lambda H, tb: [('d0', tb[1]), ('d1', 0.0)], 'sample-at-end-of-succeeded-deme', ne=SMALL_NE, default_times=True)
    # pulses: every destination, two sources, k = 2..5 demes built by successive branches off d0
    for k in range(2, 6):
        names = ['d%d' % i for i in range(k)]
        for dest in names:
            others = [n for n in names if n != dest]
            srcs = others[:2] if k > 2 else others[:1]
            force = [dict(kind='branch', parent='d0') for _ in range(k - 1)] + \
                    [dict(kind='pulse', dest=dest, sources=srcs, props=[0.3, 0.2][:len(srcs)])]
            go('pulse-%dD-into-%s' % (k, dest), force, lambda H, tb: [(n, 0.0) for n in names[:4]],
               'pulse-dispatch-%dD' % k)
    # frozen flags among five axes
    go('frozen-5th-of-5', [dict(kind='split', parent='d0'), dict(kind='split', parent='d1'), dict(kind='split', parent='d2'),
                           dict(kind='none')],
       lambda H, tb: [('d6', 0.0), ('d5', 0.0), ('d4', round(tb[4] + 0.5 * H.steps[3]['gens'], 3)), ('d3', 0.0)],
       'frozen5-takes-frozen4-flag', ne=SMALL_NE)
    go('frozen-4th-of-5', [dict(kind='split', parent='d0'), dict(kind='branch', parent='d1'), dict(kind='none'),
                           dict(kind='branch', parent='d2')],
       lambda H, tb: [('d1', 0.0), ('d2', round(tb[3] + 0.5 * H.steps[2]['gens'], 3)), ('d4', 0.0)],
       'frozen5-takes-frozen4-flag', ne=SMALL_NE)
    for fr in range(1, 4):   # frozen branch among 2,3,4 axes
        force = [dict(kind='branch', parent='d0') for _ in range(fr - 1)] + [dict(kind='none')]
        go('frozen-among-%d' % (fr + 1), force,
           lambda H, tb: [('d0', round(0.4 * H.steps[-1]['gens'], 3))] + [('d%d' % i, 0.0) for i in range(fr)],
           'ancient-vs-frozen', ne=SMALL_NE)
    # slicing
    for r in range(reps):
        for kind in ('linear', 'exponential', 'constant'):
            H = gen_history(rng, maxlive=1, nsteps=2, force=['none', 'none'], ne_choices=SMALL_NE)
            k0, N0, N1 = H.steps[1]['sizes']['d0']
            H.steps[1]['sizes']['d0'] = (kind, N0, N0 if kind == 'constant' else round(N0 * 2.5, 1))
            samples = [('d0', round(0.5 * H.steps[1]['gens'], 3))]
            g = resolve(render_demes(H))
            compare_with_native(d, ('slice', kind, r), dict(hist_summary(H, samples), ns=[4], pts=14),
                                lambda: demes_call(g, samples, [4], 14), H, samples, [4], 14,
                                fail_key='slice-%s-epoch' % kind)

            def sl():
                g2 = dadi.Demes.DemesUtil.slice(g, samples[0][1])
                got = g2['d0'].epochs[-1].end_size
                want = nu_value(kind, N0, H.steps[1]['sizes']['d0'][2], 1.0, 0.5)
                return abs(got - want) <= 1e-9 * want, dict(got=got, want=want, t=samples[0][1])
            d.check(('slice-size', kind, r), sl, dict(hist_summary(H, samples)), fail_key='slice-%s-epoch' % kind)
    go('all-ancient-with-descendant', [dict(kind='branch', parent='d0'), dict(kind='none')],
       lambda H, tb: [('d0', round(0.5 * H.steps[1]['gens'], 3)), ('d1', round(0.5 * H.steps[1]['gens'], 3))],
       'all-ancient-rename-leaves-ancestor-links', ne=SMALL_NE)
    go('same-deme-now-and-past', [dict(kind='none'), dict(kind='none')],
       lambda H, tb: [('d0', 0.0), ('d0', round(tb[1] + 0.3 * H.steps[0]['gens'], 3)), ('d0', tb[1])],
       'ancient-vs-frozen', ne=SMALL_NE)
    # YAML path
    tmp = tempfile.mkdtemp(prefix='c16_')
    try:
        for r in range(2 * reps):
            H = gen_history(rng, maxlive=3)
            live = H.steps[-1]['live']
            ns = [3] * len(live)
            g = resolve(render_demes(H))
            path = os.path.join(tmp, 'g%d.yaml' % r)
            demes.dump(g, path)

            def yaml_case():
                a = dadi.Spectrum.from_demes(path, sampled_demes=list(live), sample_sizes=ns, pts=[10, 12, 14])
                b = dadi.Spectrum.from_demes(g, sampled_demes=list(live), sample_sizes=ns, pts=[10, 12, 14])
                e = relerr(a, b)
                return e <= 1e-9, dict(rel_err=e)
            d.check(('yaml', r), yaml_case, hist_summary(H), fail_key='yaml-path')
    finally:
        shutil.rmtree(tmp, ignore_errors=True)
    return d.results()


def history_from_info(info):
    """rebuild a History from the `info` of a recorded case (for replaying a failure natively)"""
    H = History(info['Ne'])
    for s, (ev, gens, sizes, mig) in enumerate(zip(info['events'], info['gens'], info['sizes'], info['mig'])):
        k = ev['kind']
        born = []
        if k in ('split', 'split3'):
            H.info[ev['parent']]['died'] = s
            born = [(c, [ev['parent']], [1.0]) for c in ev['children']]
        elif k in ('branch', 'successor'):
            if k == 'successor':
                H.info[ev['parent']]['died'] = s
            born = [(ev['child'], [ev['parent']], [1.0])]
        elif k in ('admix', 'merge'):
            if k == 'merge':
                for p in ev['parents']:
                    H.info[p]['died'] = s
            born = [(ev['child'], ev['parents'], ev['props'])]
        elif k == 'extinct':
            H.info[ev['pop']]['died'] = s
        for (n, anc, props) in born:
            H.info[n] = dict(anc=list(anc), props=list(props), born=s, died=None)
            H.order.append(n)
        live = [n for n in H.order if n in sizes]
        H.steps.append(dict(event=ev, live=live, gens=gens, sizes={n: tuple(v) for n, v in sizes.items()},
                            mig=[tuple(m) for m in mig]))
    return H
