"""C07 - grid extrapolation exact for polynomial grid dependence with 1-6 grid sizes.

Contracts (sidecar; /repo untouched):
  Numerics.{linear,quadratic,cubic,quartic,quintic}_extrap(ys, xs)
      requires  distinct(xs)
      ensures   ys_i = sum_{d<k} c_d xs_i^d  ==>  result == c_0          (per-monomial obligations)
  Numerics.make_extrap_func(func, extrap_x_l, extrap_log, fail_mag).extrap_func(*args, **kwargs)
      ensures   pts positional or keyword; for len(pts)==k the k-point formula is applied to
                ([log] func(other args, p) for p in pts, [r.extrap_x]) in list order; len 1 returns the
                single result; len>6 raises ValueError; exp applied in log mode; pop_ids copied;
                every callee name is bound.
Bounded: round-off exactness for all k, all orderings, array and Spectrum values, log mode, fallback.
"""
import itertools, time, math
import z3
from vf.core import Task, R
from vf.helpers import prove, prove_eq, discharge, cover, struct, guarded, reals, model_floats
from vf.pyvc import Executor, Tm, VList, PyFn, PyRaise, FuncRef, Closure, vrepr, term_eq, Unsupported

FILE = 'dadi/Numerics.py'
NAMES = {2: 'linear_extrap', 3: 'quadratic_extrap', 4: 'cubic_extrap', 5: 'quartic_extrap', 6: 'quintic_extrap'}

META = dict(
    level='proof',
    explanation='Lagrange exactness of each k-point formula is proved for all real inputs from the AST of the '
                'current Numerics.py (one obligation per formula and monomial degree, z3 NRA); the dispatch of '
                'make_extrap_func is decided by symbolic execution of the real closure (program algebra: callee, '
                'argument order, log/exp wrapping, labels, arity errors). Round-off behaviour, array/Spectrum '
                'values, the fail_mag fallback and order independence are checked by the bounded driver.',
    trusted_base=['floats as reals (no round-off) in the SMT obligations', 'z3 4.x/5.x NRA', 'E2 executor semantics (DESIGN 4)',
                  'numpy.log/exp as uninterpreted functions in the wiring obligations'],
    assumptions=['xs pairwise distinct (precondition of every k-point formula)'],
)


def tasks(tier):
    ts = []
    for k in NAMES:
        for d in range(k):
            ts.append(Task('props.C07:ob_lagrange', name='C07/lagrange.%d.%d' % (k, d), k=k, d=d, timeout=150))
        ts.append(Task('props.C07:ob_lagrange_canary', name='C07/lagrange.%d.canary' % k, k=k, timeout=60))
    for k in range(1, 8):
        for mode in ('positional', 'keyword'):
            for log in (False, True):
                ts.append(Task('props.C07:ob_wiring', name='C07/wiring.%d.%s.%s' % (k, mode, log), k=k, mode=mode, log=log, timeout=60))
    for k in range(1, 5):
        for log in (False, True):
            ts.append(Task('props.C07:ob_wiring_explicit_x', name='C07/wiring-explicit-x.%d.%s' % (k, log), k=k, log=log, timeout=120))
    ts.append(Task('props.C07:ob_log_wrapper', name='C07/log_wrapper', timeout=60))
    n = 40 if tier == 'quick' else 400
    ts.append(Task('props.C07:bounded', name='C07/bounded', ncoef=n, tier=tier, timeout=1500))
    return ts


# ---------------------------------------------------------------- proof obligations
def _formula(k):
    ex = Executor()
    f = ex.func(FILE, NAMES[k])
    return ex, f


def ob_lagrange(k, d):
    oid = 'C07/Numerics.py:%s/post.exact.deg%d' % (NAMES[k], d)
    fn = 'dadi/Numerics.py::' + NAMES[k]

    @guarded(oid, fn)
    def go():
        ex, f = _formula(k)
        xs = reals('x', k)
        ys = [ex.power(x, d) for x in xs]
        paths = ex.run(f, [tuple(ys), tuple(xs)])
        out = []
        distinct = [xs[i] != xs[j] for i in range(k) for j in range(i + 1, k)]
        if len(paths) != 1 or paths[0].outcome != 'return':
            return [struct(oid, False, 'expected one returning path, got %r' % paths, fn)]
        from vf.pyvc import to_real
        goal = to_real(paths[0].value) == to_real(1 if d == 0 else 0)

        def replay(model):
            return _replay_lagrange(k, d, model)
        out.append(prove_eq(oid, distinct + paths[0].pc, paths[0].value, 1 if d == 0 else 0, func=fn, timeout_ms=100000, replay=replay))
        if d == 0:
            out.append(cover(oid + '.cover', distinct + paths[0].pc, fn))
        return out
    return go()


def _replay_lagrange(k, d, model):
    import importlib
    vals = model_floats(model, ['x%d' % i for i in range(k)])
    xs = [vals['x%d' % i] for i in range(k)]
    if any(v is None for v in xs):
        return dict(replayed=False)
    import dadi.Numerics as N
    ys = [x ** d for x in xs]
    got = float(getattr(N, NAMES[k])(ys, xs))
    want = 1.0 if d == 0 else 0.0
    scale = max(1.0, max(abs(y) for y in ys))
    ok = abs(got - want) <= 1e-6 * scale
    return dict(replayed=True, inputs=dict(xs=xs, ys=ys), native_result=got, expected=want,
                postcondition_holds_natively=bool(ok))


def ob_lagrange_canary(k):
    oid = 'C07/Numerics.py:%s/canary' % NAMES[k]
    fn = 'dadi/Numerics.py::' + NAMES[k]

    @guarded(oid, fn)
    def go():
        ex, f = _formula(k)
        xs = reals('x', k)
        paths = ex.run(f, [tuple([z3.RealVal(1)] * k), tuple(xs)])
        distinct = [xs[i] != xs[j] for i in range(k) for j in range(i + 1, k)]
        # wrong constant: result == 2 for the constant polynomial 1 must be refuted
        return [prove(oid, distinct + paths[0].pc, paths[0].value == 2, func=fn, canary=True, timeout_ms=30000)]
    return go()


def _extrap_setup(log, via_log_wrapper=False):
    """Symbolically build extrap_func = make_extrap_func(func, extrap_log=log) on the real source."""
    def policy(fref):
        if fref.qualname in ('make_extrap_func', 'make_extrap_log_func'):
            return 'inline'
        return 'abstract'
    ex = Executor(policy=policy)
    calls = []

    def model_func(a, b, pts, extra=None):
        r = Tm('result', a, b, pts, extra)
        r.attrs['extrap_x'] = Tm('extrap_x', pts)
        r.attrs['pop_ids'] = Tm('pop_ids', pts)
        calls.append((a, b, pts, extra))
        return r
    func = PyFn(model_func, 'model_func')
    return ex, func, calls


def ob_wiring(k, mode, log):
    oid = 'C07/Numerics.py:make_extrap_func.extrap_func/wiring.k%d.%s.%s' % (k, mode, 'log' if log else 'lin')
    fn = 'dadi/Numerics.py::make_extrap_func'

    @guarded(oid, fn)
    def go():
        ex, func, calls = _extrap_setup(log)
        mk = ex.func(FILE, 'make_extrap_func')
        a, b = Tm('argA'), Tm('argB')
        pts = [z3.Int('pts%d' % i) for i in range(k)]

        def thunk(ex):
            ef = ex.call(mk, [func], dict(extrap_log=log))
            del calls[:]
            if mode == 'positional':
                return ex.call(ef, [a, b, VList(pts)], {})
            return ex.call(ef, [a, b], dict(pts=VList(pts)))
        paths = ex.explore(thunk)
        out = []
        # callee names must be bound, arity errors only for k>6
        raising = [p for p in paths if p.outcome == 'raise']
        if k > 6:
            ok = len(paths) >= 1 and all(p.outcome == 'raise' and p.exc.kind == 'ValueError' for p in paths)
            return [struct(oid, ok, 'k=7 must raise ValueError; paths=%r' % paths, fn)]
        if raising:
            e = raising[0].exc
            w = _replay_wiring(k, mode, log)
            return [struct(oid, False, 'extrap_func raises %s(%s) for %d grid sizes' % (e.kind, e.msg, k), fn,
                           witness=w, finding_key='C07/extrap_func/raises-%s-%s' % (e.kind, e.msg))]
        # every path (the any(extrap_failed) branch forks) must call the right formula on the right data
        for p in paths:
            fcalls = [t for (tag, name, t) in [x for x in p.log if x[0] == 'call'] if name.startswith('dadi.Numerics.')]
            res = [Tm('result', a, b, pt, None) for pt in pts]
            for r_, pt in zip(res, pts):
                r_.attrs['extrap_x'] = Tm('extrap_x', pt)
                r_.attrs['pop_ids'] = Tm('pop_ids', pt)
            want_ys = [Tm('call:numpy.log', r_) for r_ in res] if log else res
            want_xs = [Tm('extrap_x', pt) for pt in pts]
            if k == 1:
                if fcalls:
                    return [struct(oid, False, 'k=1 must not extrapolate, called %r' % fcalls, fn)]
                core_val = want_ys[0]
            else:
                if len(fcalls) != 1 or fcalls[0].op != 'call:dadi.Numerics.' + NAMES[k]:
                    return [struct(oid, False, 'k=%d must call %s exactly once; calls=%r' % (k, NAMES[k], fcalls), fn,
                                   witness=_replay_wiring(k, mode, log))]
                goals = []
                mm = term_eq(fcalls[0].args, (VList(want_ys), VList(want_xs)), goals)
                mm = mm or discharge(goals, p.pc)
                if mm:
                    return [struct(oid, False, 'arguments of %s differ from ([log]results, extrap_x) in list order: %s %s' % (NAMES[k], mm, goals), fn,
                                   witness=_replay_wiring(k, mode, log))]
                core_val = fcalls[0]
            want = Tm('call:numpy.exp', core_val) if log else core_val
            goals = []
            mm = term_eq(_strip(p.value), _strip(want), goals)
            mm = mm or discharge(goals, p.pc)
            if mm:
                return [struct(oid, False, 'returned value is not %s: %s' % ('exp(formula)' if log else 'the formula result', mm), fn,
                               witness=_replay_wiring(k, mode, log))]
            # fallback: entries flagged as failed are replaced by the result on the *finest* grid (smallest x), whatever the list order
            if k > 1:
                sets = [e for e in p.log if e[0] == 'setitem' and e[1] is p.value]
                best = 'getitem([%s], call:lib:numpy.argmin([%s]))' % (', '.join(vrepr(_strip(y)) for y in want_ys), ', '.join(vrepr(x) for x in want_xs))
                if log:
                    best = 'call:numpy.exp(%s)' % best
                okfb = len(sets) == 1 and vrepr(_strip(sets[0][3])).startswith('getitem(%s, ' % best)
                if not okfb:
                    return [struct(oid, False, 'fallback value is not the finest-grid result %s: %s' % (best[:80], [vrepr(_strip(s_[3]))[:160] for s_ in sets]), fn,
                                   finding_key='C07/extrap_func/fallback-source')]
                # ... and an entry is flagged exactly when the extrapolated VALUE (after exp in log mode) is more than fail_mag *decades* from the
                # finest-grid VALUE:  abs(log10(ex/best)) > fail_mag, in linear and in log mode alike
                crit = vrepr(_strip(sets[0][2])).replace('call:lib:numpy.', '').replace('call:numpy.', '').replace('call:', '')
                exs = vrepr(_strip(want)).replace('call:lib:numpy.', '').replace('call:numpy.', '').replace('call:', '')
                bests = best.replace('call:lib:numpy.', '').replace('call:numpy.', '').replace('call:', '')
                want_crit = 'cmp:Gt(abs(log10(op:Div(%s, %s))), 10)' % (exs, bests)      # fail_mag has its default, 10 decades
                if crit != want_crit:
                    return [struct(oid, False, 'fallback criterion is not abs(log10(extrapolated/finest)) > fail_mag on the values: got %s ; expected %s' % (crit[-160:], want_crit[-160:]), fn,
                                   finding_key='C07/extrap_func/fallback-criterion')]
            # labels
            pid = p.value.attrs.get('pop_ids') if isinstance(p.value, Tm) else None
            ok = isinstance(pid, Tm) and pid.op == 'pop_ids' and pid.args[0] is pts[0]
            # log mode reads the label from numpy.log(result0); numpy ufuncs keep Spectrum.pop_ids
            # (Spectrum.__array_finalize__; axiom, exercised by the bounded driver)
            ok = ok or (log and isinstance(pid, Tm) and pid.op == 'attr:pop_ids' and isinstance(pid.args[0], Tm)
                        and pid.args[0].op == 'call:numpy.log' and isinstance(pid.args[0].args[0], Tm)
                        and pid.args[0].args[0].op == 'result' and pid.args[0].args[0].args[2] is pts[0])
            if not ok:
                return [struct(oid, False, 'pop_ids of the first result not copied to the extrapolated result (got %r)' % (pid,), fn)]
        return [struct(oid, True, '%d path(s): formula %s on ([log]results, extrap_x) in list order; pop_ids copied' % (len(paths), NAMES.get(k, 'identity')), fn)]
    return go()


def ob_wiring_explicit_x(k, log):
    """make_extrap_func(func, extrap_x_l=[x_0..x_{k-1}], extrap_log=log): the caller's i-th x value belongs to the caller's i-th grid size -
    the formula is handed the pairs ([log] func(args, pts_i), x_i), i = 0..k-1 (any common order of the pairs: the formulas are symmetric under a
    common permutation), whatever the order of the grid sizes (symbolic integers: every ordering is a path);  no_extrap=True returns
    [func(args, pts_i)] in the caller's list order and does not extrapolate."""
    oid = 'C07/Numerics.py:make_extrap_func.extrap_func/wiring-explicit-x.k%d.%s' % (k, 'log' if log else 'lin')
    fn = 'dadi/Numerics.py::make_extrap_func'

    @guarded(oid, fn)
    def go():
        ex = Executor(policy=lambda fref: 'inline' if fref.qualname in ('make_extrap_func', 'make_extrap_log_func') else 'abstract')
        func = PyFn(lambda a, pts: Tm('result', a, pts), 'model_func')       # results carry no extrap_x attribute
        mk = ex.func(FILE, 'make_extrap_func')
        a = Tm('argA')
        pts = [z3.Int('pts%d' % i) for i in range(k)]
        xs = reals('xl', k)
        out = []
        for no_extrap in (False, True):
            def thunk(ex_):
                ef = ex_.call(mk, [func], dict(extrap_x_l=VList(list(xs)), extrap_log=log))
                return ex_.call(ef, [a, VList(list(pts))], dict(no_extrap=True) if no_extrap else {})
            paths = ex.explore(thunk)
            tag = oid + ('.no_extrap' if no_extrap else '')
            bad = None
            for p in paths:
                if p.outcome != 'return':
                    bad = 'raises %s' % (p.exc,)
                    break
                fcalls = [t for (tg, name, t) in [x for x in p.log if x[0] == 'call'] if name.startswith('dadi.Numerics.')]
                res = [Tm('result', a, pt) for pt in pts]
                if no_extrap:
                    got = [vrepr(_strip(v)) for v in ex.iterate(p.value)] if isinstance(p.value, (VList, list, tuple)) else None
                    if fcalls or got != [vrepr(r) for r in res]:
                        bad = 'no_extrap=True must return [func(args, pts_i)] in list order without extrapolating: %s (pc %s)' % (got, p.pc[:4])
                        break
                    continue
                want_ys = [Tm('call:numpy.log', r_) for r_ in res] if log else res
                if k == 1:
                    core = want_ys[0]
                    if fcalls:
                        bad = 'k=1 must not extrapolate'
                        break
                else:
                    if len(fcalls) != 1 or fcalls[0].op != 'call:dadi.Numerics.' + NAMES[k]:
                        bad = 'k=%d must call %s exactly once: %r' % (k, NAMES[k], fcalls)
                        break
                    try:
                        ys, xl = [list(ex.iterate(v)) for v in fcalls[0].args[:2]]
                        pairs = sorted((vrepr(_strip(y)), vrepr(x)) for y, x in zip(ys, xl))
                    except Exception as e:
                        bad = 'arguments of %s are not two sequences: %s' % (NAMES[k], e)
                        break
                    want_pairs = sorted((vrepr(y), vrepr(x)) for y, x in zip(want_ys, xs))
                    if len(ys) != k or len(xl) != k or pairs != want_pairs:
                        bad = 'the formula gets the pairs %s, not (result for pts_i, x_i) %s, on the path %s' % (pairs, want_pairs, [str(c) for c in p.pc][:6])
                        break
                    core = fcalls[0]
                want = Tm('call:numpy.exp', core) if log else core
                goals = []
                mm = term_eq(_strip(p.value), _strip(want), goals)
                mm = mm or discharge(goals, p.pc)
                if mm:
                    bad = 'returned value is not %s: %s' % ('exp(formula)' if log else 'the formula result', mm)
                    break
            if not paths:
                bad = 'no path'
            witness = _replay_explicit(k, log) if bad else None
            out.append(struct(tag, bad is None, bad or '%d path(s): pairs (result for pts_i, x_i) for every ordering of the grid sizes' % len(paths), fn,
                              **(dict(witness=witness) if witness else {})))
        return out
    return go()


def _replay_explicit(k, log):
    """Native run: a degree<k polynomial in x = 1/pts, grid sizes given in DEcreasing order with the matching explicit x list, must extrapolate to c0."""
    try:
        import numpy, dadi.Numerics as N
        ptsl = list(range(10 + 10 * k, 10, -10))[:k] if k > 1 else [20]
        xl = [1.0 / p_ for p_ in ptsl]

        def model(a_, pts_):
            v = numpy.array([1.0 + 0.5 / pts_ + (2.0 / pts_ ** 2 if k > 2 else 0)])
            return numpy.exp(v) if log else v
        f = N.make_extrap_func(model, extrap_x_l=xl, extrap_log=log)
        got = f(0, ptsl)
        want = float(numpy.exp(1.0)) if log else 1.0
        res = dict(replayed=True, inputs=dict(pts=ptsl, extrap_x_l=xl, log=log), native_result=[float(x) for x in numpy.ravel(got)])
        if k > 1:
            res['postcondition_holds_natively'] = bool(abs(float(numpy.ravel(got)[0]) - want) < 1e-6 * want)
        lst = f(0, ptsl, no_extrap=True)
        res['no_extrap_in_list_order'] = bool(all(abs(float(numpy.ravel(r)[0]) - float(numpy.ravel(model(0, p_))[0])) < 1e-12 for r, p_ in zip(lst, ptsl)))
        if not res['no_extrap_in_list_order']:
            res['postcondition_holds_natively'] = False
        return res
    except Exception as e:
        return dict(replayed=False, error=repr(e))


def _strip(t):
    """compare ignoring attributes set on the result (pop_ids) and recorded setitems"""
    if isinstance(t, Tm):
        n = Tm(t.op, *[_strip(a) for a in t.args])
        return n
    if isinstance(t, VList):
        return VList([_strip(a) for a in t.items], t.kind)
    if isinstance(t, tuple):
        return tuple(_strip(a) for a in t)
    return t


def _replay_wiring(k, mode, log):
    """Native run: a degree<k polynomial model must extrapolate to c0."""
    try:
        import numpy, dadi.Numerics as N

        def model(a, pts):
            r = numpy.array([1.0 + 0.5 / pts + (2.0 / pts ** 2 if k > 2 else 0)])
            return r
        f = N.make_extrap_func(model, extrap_x_l=[1.0 / p for p in range(10, 10 + 10 * k, 10)], extrap_log=log)
        ptsl = list(range(10, 10 + 10 * k, 10))
        try:
            got = f(0, ptsl) if mode == 'positional' else f(0, pts=ptsl)
            return dict(replayed=True, inputs=dict(pts=ptsl, mode=mode, log=log), native_result=[float(x) for x in numpy.ravel(got)],
                        postcondition_holds_natively=bool(abs(float(numpy.ravel(got)[0]) - 1.0) < 1e-6))
        except Exception as e:
            return dict(replayed=True, inputs=dict(pts=ptsl, mode=mode, log=log), native_exception=repr(e),
                        postcondition_holds_natively=False)
    except Exception as e:
        return dict(replayed=False, error=repr(e))


def ob_log_wrapper():
    oid = 'C07/Numerics.py:make_extrap_log_func/wiring'
    fn = 'dadi/Numerics.py::make_extrap_log_func'

    @guarded(oid, fn)
    def go():
        ex = Executor(policy=lambda f: 'inline' if f.qualname == 'make_extrap_log_func' else 'abstract')
        mk = ex.func(FILE, 'make_extrap_log_func')
        func, xl = Tm('func'), Tm('xl')
        paths = ex.run(mk, [func], dict(extrap_x_l=xl))
        ok = len(paths) == 1 and paths[0].outcome == 'return' and isinstance(paths[0].value, Tm) \
            and paths[0].value.op == 'call:dadi.Numerics.make_extrap_func'
        if ok:
            t = paths[0].value
            names = t.attrs['__argnames__']
            d = dict(zip(names, t.args))
            ok = d['func'] is func and d['extrap_x_l'] is xl and d['extrap_log'] is True
        return [struct(oid, ok, 'make_extrap_log_func(func, xl) == make_extrap_func(func, xl, extrap_log=True): %r' % paths, fn)]
    return go()


# ---------------------------------------------------------------- bounded driver (E4)
def bounded(ncoef, tier):
    import numpy, random
    from vf.common import seed
    import dadi
    from dadi import Numerics
    rng = random.Random(seed())
    t0 = time.time()
    evals = nontriv = 0
    samples = []
    fails = []
    bound = 'k=1..6; %d coefficient sets; all orderings of the grid list for k<=4, 24 sampled for k=5,6; scalar-array and Spectrum values; the extrap_x of the results and an explicit extrap_x_l (6 orderings each, incl. no_extrap=True); linear and log modes; fallback on/off (linear mode: sign-changing entry; log mode: entries 0.3-2.0 x fail_mag decades from the finest grid, fail_mag in {2,5,10})' % ncoef
    distinct = set()
    for ci in range(ncoef):
        for k in range(1, 7):
            coefs = [rng.uniform(0.5, 2.0)] + [rng.uniform(-1, 1) for _ in range(k - 1)]
            shape = rng.choice([(), (3,), (2, 3)])
            base = numpy.array([[rng.uniform(0.5, 1.5) for _ in range(6)]]).reshape(-1)[:int(numpy.prod(shape)) or 1]
            pts0 = sorted(rng.sample(range(8, 60), k))
            perms = list(itertools.permutations(pts0)) if k <= 4 else [tuple(rng.sample(pts0, k)) for _ in range(24)]
            if ci % 4:
                perms = perms[:3]
            for log in (False, True):
                def model(scale, pts, _c=coefs, _b=base, _s=shape, _log=log):
                    x = 1.0 / pts
                    poly = sum(c * x ** d for d, c in enumerate(_c))
                    val = (numpy.exp(poly * 0.1) if _log else poly) * _b * scale
                    val = val.reshape(_s) if _s else val.reshape(1)
                    if _s == (3,):
                        fs = dadi.Spectrum(val, mask_corners=False, pop_ids=['A'])
                        fs.extrap_x = x
                        return fs
                    class A(numpy.ndarray):
                        pass
                    v = val.view(A)
                    v.extrap_x = x
                    return v
                f = Numerics.make_extrap_func(model, extrap_log=log)
                for perm in perms:
                    for mode in (0, 1):
                        try:
                            got = f(2.0, list(perm)) if mode == 0 else f(2.0, pts=list(perm))
                        except Exception as e:
                            fails.append(dict(k=k, pts=list(perm), log=log, error=repr(e)))
                            evals += 1
                            continue
                        evals += 1
                        c0 = coefs[0]
                        want = (numpy.exp(c0 * 0.1) if log else c0) * base * 2.0
                        want = want.reshape(shape) if shape else want.reshape(1)
                        err = float(numpy.max(numpy.abs(numpy.asarray(got) - want) / numpy.abs(want)))
                        distinct.add((k, perm, log, shape))
                        tol = 1e-6 if k >= 5 else 1e-8
                        if not err <= tol:
                            fails.append(dict(k=k, pts=list(perm), log=log, shape=list(shape), rel_err=err))
                        if shape == (3,) and getattr(got, 'pop_ids', None) != ['A']:
                            fails.append(dict(k=k, pts=list(perm), log=log, error='pop_ids lost'))
                        if len(samples) < 4 and k > 1:
                            samples.append(dict(k=k, pts=list(perm), log=log, shape=list(shape), rel_err=err))
                # explicit extrap_x_l (results without an extrap_x attribute): the caller's i-th x belongs to the caller's i-th grid size, in any order
                for perm in perms[:6]:
                    def plain(scale, pts, _m=model):
                        return numpy.array(numpy.asarray(_m(scale, pts)))
                    fx = Numerics.make_extrap_func(plain, extrap_x_l=[1.0 / p_ for p_ in perm], extrap_log=log)
                    evals += 1
                    try:
                        got = fx(2.0, list(perm))
                        lst = fx(2.0, list(perm), no_extrap=True)
                    except Exception as e:
                        fails.append(dict(k=k, pts=list(perm), log=log, explicit_x=True, error=repr(e)))
                        continue
                    want = (numpy.exp(coefs[0] * 0.1) if log else coefs[0]) * base * 2.0
                    want = want.reshape(shape) if shape else want.reshape(1)
                    err = float(numpy.max(numpy.abs(numpy.asarray(got) - want) / numpy.abs(want)))
                    distinct.add((k, perm, log, shape, 'explicit-x'))
                    if not err <= (1e-6 if k >= 5 else 1e-8):
                        fails.append(dict(k=k, pts=list(perm), log=log, shape=list(shape), explicit_x=True, rel_err=err))
                    if not all(numpy.array_equal(numpy.asarray(r_), plain(2.0, p_)) for r_, p_ in zip(lst, perm)):
                        fails.append(dict(k=k, pts=list(perm), log=log, explicit_x=True, error='no_extrap=True does not return the results in the order of the grid list'))
    # log mode: the threshold is fail_mag DECADES of the value.  exp(a + b x) extrapolates exactly in log mode (k = 2); with b/pts decades between
    # the finest grid and x = 0 the entry must fall back iff that distance exceeds fail_mag
    for trial in range(12 if tier == 'quick' else 120):
        pts = sorted(rng.sample(range(10, 40), 2))
        fm = rng.choice([2, 5, 10])
        dec = rng.choice([0.3, 0.8]) * fm if trial % 2 == 0 else rng.uniform(1.2, 2.0) * fm     # decades between finest-grid value and the limit
        b = dec * numpy.log(10.0) * max(pts)

        def lmodel(pts_, _b=b):
            x = 1.0 / pts_
            class A(numpy.ndarray):
                pass
            v = numpy.exp(numpy.array([0.3 + 0.1 * x, -2.0 + _b * x])).view(A)
            v.extrap_x = x
            return v
        flog = Numerics.make_extrap_func(lmodel, extrap_log=True, fail_mag=fm)
        order = pts[:]
        rng.shuffle(order)
        with numpy.errstate(all='ignore'):
            got = numpy.asarray(flog(order))
        finest = numpy.asarray(lmodel(max(pts)))
        exact = numpy.exp(numpy.array([0.3, -2.0]))
        want = numpy.array([exact[0], finest[1] if dec > fm else exact[1]])
        evals += 1
        distinct.add(('fallback-log', tuple(order), fm, round(dec, 3)))
        if not numpy.allclose(got, want, rtol=1e-9, atol=0):
            fails.append(dict(fallback_log=True, pts=order, fail_mag=fm, decades_from_finest=dec, got=got.tolist(), want=want.tolist()))
    # fallback: an entry whose extrapolation is > fail_mag decades away falls back to the finest grid value
    for trial in range(20 if tier == 'quick' else 200):
        k = rng.choice([2, 3])
        pts = sorted(rng.sample(range(10, 50), k))
        fm = rng.choice([0.5, 1, 2])

        def model(pts_, _k=k):
            x = 1.0 / pts_
            # entry 0 benign, entry 1 extrapolates to a value many decades away (sign change -> nan log)
            v = numpy.array([1.0 + x, 1e-3 * (1.0 - 0.9999 * x * min(pts)) + 1e-30, 2.0 + 3 * x])
            class A(numpy.ndarray):
                pass
            v = v.view(A)
            v.extrap_x = x
            return v
        f = Numerics.make_extrap_func(model, fail_mag=fm)
        order = pts[:]
        rng.shuffle(order)
        with numpy.errstate(all='ignore'):
            got = numpy.asarray(f(order))
        finest = numpy.asarray(model(max(pts)))
        exs = [numpy.asarray(model(p)) for p in order]
        xs = [1.0 / p for p in order]
        ex = Numerics.linear_extrap(exs, xs) if k == 2 else Numerics.quadratic_extrap(exs, xs)
        with numpy.errstate(all='ignore'):
            failed = numpy.abs(numpy.log10(numpy.asarray(ex) / finest)) > fm
        want = numpy.where(failed, finest, ex)
        evals += 1
        distinct.add(('fallback', tuple(order), fm))
        if not numpy.allclose(got, want, rtol=1e-12, atol=0, equal_nan=True):
            fails.append(dict(fallback=True, pts=order, fail_mag=fm, got=got.tolist(), want=want.tolist()))
        if failed.any():
            nontriv += 1
    nontriv += len(distinct)
    out = []
    if fails:
        key = 'C07/bounded/' + (fails[0].get('error') or 'value')[:60]
        out.append(R('C07/bounded', 'bounded', 'failed', backend='native', seconds=time.time() - t0,
                     detail='%d failing cases, first: %r' % (len(fails), fails[0]), witness=dict(replayed=True, cases=fails[:5]),
                     evals=evals, nontrivial=nontriv, samples=samples, bound=bound, finding_key=key))
    else:
        out.append(R('C07/bounded', 'bounded', 'held', backend='native', seconds=time.time() - t0, detail='all cases within tolerance',
                     evals=evals, nontrivial=nontriv, samples=samples, bound=bound))
    return out


def replay(rec):
    import json
    print(json.dumps(rec, indent=1)[:3000])
    w = rec.get('witness') or {}
    print('re-running native replay ...')
    if 'wiring' in rec['obligation']:
        parts = rec['obligation'].split('wiring.k')[1].split('.')
        print(_replay_wiring(int(parts[0]), parts[1], parts[2] == 'log'))
    return 0


MANIFEST_ENTRY = dict(
    category='proof',
    technique='contracts on the real Numerics.py functions; VCs generated from the AST, discharged by z3 NRA and an exact ring normaliser; program-algebra obligations for the dispatch closure; bounded run-time contract as complement',
    text='Lagrange exactness of linear/quadratic/cubic/quartic/quintic_extrap is proved for all real inputs (one obligation per formula and '
         'monomial degree); the dispatch of make_extrap_func (which formula for which number of grids, argument order, log/exp wrapping, '
         'positional/keyword pts, arity error, labels; an explicit extrap_x_l paired with the grid sizes for every ordering of them, no_extrap order) is decided on every path of the real closure. Round-off, array/Spectrum values, '
         'ordering independence and the fail_mag fallback are bounded run-time checks, not proofs.',
    note='floats treated as reals; E2 executor semantics (DESIGN.md 4); numpy.log/exp uninterpreted; numpy ufuncs preserve Spectrum.pop_ids (axiom, exercised by the bounded driver); vf/polyring.py normaliser trusted for k=6',
)
