"""E4 bounded driver for C12: optimisers honour bounds / fixed parameters and report the point they found.

The model is a closed-form 1-D spectrum (n=12) that is a smooth function of k=1..4 parameters (no PDE
integration) and records every parameter vector it is evaluated at.  The likelihood oracle is an
explicit Poisson / multinomial sum with math.lgamma on the closed form (no dadi.Inference call).
"""
from vf.core import Task
from vf.bounded import Driver

N = 12
S = 200.0
LB, UB = 1e-2, 20.0
PTRUE = [1.0, 0.5, 2.0, 1.3]
SCIPY = ['optimize', 'optimize_log', 'optimize_lbfgsb', 'optimize_log_lbfgsb', 'optimize_log_fmin', 'optimize_log_powell', 'optimize_cons']
LOGVARIANT = {'optimize': False, 'optimize_log': True, 'optimize_lbfgsb': False, 'optimize_log_lbfgsb': True,
              'optimize_log_fmin': True, 'optimize_log_powell': True, 'optimize_cons': False}
RTOL = 1e-12      # round-off allowance of the log/exp round trip when comparing against bounds / the start


def tasks(tier):
    q = tier == 'quick'
    ns = 2 if q else 24
    out = [Task('props.bounded_C12:drv_opt', name='C12/bounded/opt.log_%s' % ('on' if lo else 'off'), tier=tier, log_opt=lo, nstarts=ns, timeout=1500)
           for lo in (False, True)]
    for nm in SCIPY:
        if nm.endswith('lbfgsb'):
            out.append(Task('props.bounded_C12:drv_scipy', name='C12/bounded/%s' % nm, tier=tier, which=nm, nstarts=ns, shim=False, timeout=1500))
            # only informative on a tree that still passes iprint= (TypeError with scipy>=1.18): reaches the wiring behind it
            out.append(Task('props.bounded_C12:drv_scipy', name='C12/bounded/%s.iprint-shim' % nm, tier=tier, which=nm, nstarts=1 if q else 3, shim=True, timeout=1500))
        else:
            out.append(Task('props.bounded_C12:drv_scipy', name='C12/bounded/%s' % nm, tier=tier, which=nm, nstarts=ns, shim=False, timeout=1500))
    out.append(Task('props.bounded_C12:drv_grid', name='C12/bounded/optimize_grid', tier=tier, ngrids=6 if q else 60, timeout=1500))
    out.append(Task('props.bounded_C12:drv_project', name='C12/bounded/project_params', tier=tier, maxlen=6 if q else 9, timeout=600))
    out.append(Task('props.bounded_C12:drv_perturb', name='C12/bounded/perturb_params', tier=tier, ncases=400 if q else 8000, timeout=600))
    return out



def _det(d_):
    """Driver seeds its rng with hash(name), which is salted per process: re-seed deterministically from VERIF_SEED and the
    task name so that a failing case can be replayed by re-running the task."""
    import random, zlib
    from vf import common
    d_.rng = random.Random(common.seed() * 7919 + zlib.crc32(d_.name.encode()))
    return d_

# ------------------------------------------------------------------------------------------ model + oracle
class Problem:
    """k-parameter closed-form model, its data, an evaluation log and an independent likelihood."""

    def __init__(self, dadi, np, k, multinom, rng, data=None):
        self.dadi, self.np, self.k, self.multinom = dadi, np, k, multinom
        self.i = np.arange(1, N)
        self.log = []
        if data is not None:
            self.d = np.array(data, dtype=float)
        else:
            noise = np.array([1 + 0.08 * rng.uniform(-1, 1) for _ in range(N - 1)])
            self.d = self.shape(PTRUE[:k]) * noise * (3.7 if multinom else 1.0)
        arr = np.zeros(N + 1)
        arr[1:N] = self.d
        self.data = dadi.Spectrum(arr)

    def shape(self, params):
        np, i = self.np, self.i
        p = list(params) + [0.0, 0.0, 0.0, 1.0][len(params):]
        return S * (1.0 / i + p[0] / i ** 2 + p[1] / (N - i) + p[2] * np.exp(-i * p[3] / 2.0))

    def model(self, params, ns, pts=None):
        self.log.append(self.np.array(params, dtype=float, copy=True))
        arr = self.np.zeros(N + 1)
        arr[1:N] = self.shape(params)
        return self.dadi.Spectrum(arr)

    def ll(self, params):
        import math
        m = [float(x) for x in self.shape(params)]
        d = [float(x) for x in self.d]
        if self.multinom:
            th = math.fsum(d) / math.fsum(m)
            m = [th * x for x in m]
        return math.fsum(-mm + dd * math.log(mm) - math.lgamma(dd + 1) for mm, dd in zip(m, d))


def _subsets(k):
    """All fixed-parameter patterns for k parameters except 'all fixed' (index tuples)."""
    import itertools
    out = []
    for r in range(k):
        out.extend(itertools.combinations(range(k), r))
    return out


def _start(rng, k, on_bound):
    import math
    p = [math.exp(rng.uniform(math.log(LB * 1.5), math.log(UB / 1.5))) for _ in range(k)]
    if on_bound:
        j = rng.randrange(k)
        p[j] = rng.choice([LB, UB])
    return p


def _fixed_list(rng, k, subset):
    import math
    if not subset:
        return None if rng.random() < 0.5 else [None] * k
    return [math.exp(rng.uniform(math.log(LB * 2), math.log(UB / 2))) if j in subset else None for j in range(k)]


def _contracts(d_, np, name, key, prob, p0, fixed, lb, ub, xopt, reported, info, is_local=True, primary=False, sfx=''):
    """The C12 clauses for one optimiser run.  lb/ub entries may be None (unbounded)."""
    k = prob.k
    evals = list(prob.log)
    start = [fixed[j] if (fixed is not None and fixed[j] is not None) else p0[j] for j in range(k)]
    info = dict(info, n_evals=len(evals), returned=[float(x) for x in np.atleast_1d(xopt)], reported=None if reported is None else float(reported))

    def inb(p):
        for j in range(k):
            if lb is not None and lb[j] is not None and not p[j] >= lb[j] * (1 - RTOL):
                return False
            if ub is not None and ub[j] is not None and not p[j] <= ub[j] * (1 + RTOL):
                return False
        return True

    if is_local:
        ok = len(evals) > 0 and all(abs(evals[0][j] - start[j]) <= RTOL * abs(start[j]) for j in range(k))
        d_.case(key + ('first=start',), ok, dict(info, first=None if not evals else evals[0].tolist(), start=start), True, name + '-first-evaluation-not-start' + sfx)
    bad = [e.tolist() for e in evals if not inb(e)]
    d_.case(key + ('evals-in-bounds',), not bad, dict(info, outside=bad[:3]), True, name + '-evaluated-outside-bounds' + sfx)
    if fixed is not None:
        fj = [j for j in range(k) if fixed[j] is not None]
        bad = [e.tolist() for e in evals if any(e[j] != fixed[j] for j in fj)]
        d_.case(key + ('fixed-in-evals',), not bad, dict(info, fixed=fixed, moved=bad[:3]), bool(fj), name + '-fixed-param-moved' + sfx)
        ok = all(xopt[j] == fixed[j] for j in fj)
        d_.case(key + ('fixed-returned',), ok, dict(info, fixed=fixed), bool(fj), name + '-fixed-param-not-returned' + sfx)
    ok = len(xopt) == k and bool(np.all(np.isfinite(xopt))) and inb(xopt)
    if not ok and reported is not None and abs(reported + 1e8) <= 1.0:
        # the optimiser stopped on the out-of-bounds penalty plateau (_out_of_bounds_val) and that point is handed back
        d_.case(key + ('returned-in-bounds',), False, dict(info, ll_start=prob.ll(start), best_evaluated_ll=max(prob.ll(e) for e in evals)), True,
                name + '-returns-out-of-bounds-penalty-point')
        return
    d_.case(key + ('returned-in-bounds',), ok, info, True, name + '-returned-outside-bounds' + sfx)
    if not (len(xopt) == k and np.all(np.isfinite(xopt))):
        return
    ll_ret = prob.ll(xopt)
    if reported is not None:
        ok = abs(ll_ret - reported) <= 1e-10 * max(1.0, abs(ll_ret))
        d_.case(key + ('ll(returned)=reported',), ok, dict(info, ll_returned=ll_ret, ll_start=prob.ll(start)), True, name + '-returned-point-is-not-the-reported-optimum' + sfx)
    ok = any(all(abs(e[j] - xopt[j]) <= RTOL * abs(xopt[j]) for j in range(k)) for e in evals)
    d_.case(key + ('returned-was-evaluated',), ok, info, True, name + '-returned-point-never-evaluated' + sfx)
    if primary:
        ll0 = prob.ll(start)
        ok = ll_ret >= ll0 - 1e-10 * max(1.0, abs(ll0))
        d_.case(key + ('no-worse-than-start',), ok, dict(info, ll_returned=ll_ret, ll_start=ll0), True, name + '-worse-than-start' + sfx)


def _configs(rng, nstarts):
    """(k, subset, multinom, start index, start on a bound?)"""
    for k in (1, 2, 3, 4):
        for subset in _subsets(k):
            for multinom in (True, False):
                for s in range(nstarts):
                    yield k, subset, multinom, s, (s % 6 == 5) or (nstarts < 6 and rng.random() < 0.15)


def _silence():
    import logging, warnings
    logging.getLogger('Inference').setLevel(logging.ERROR)
    warnings.simplefilter('ignore')


# ------------------------------------------------------------------------------------------ drivers
def drv_opt(tier, log_opt, nstarts):
    d_ = _det(Driver('C12', 'opt.log_%s' % ('on' if log_opt else 'off'), bound='Inference.opt (NLopt) log_opt=%s; closed-form 1-D model n=12 with k=1..4 parameters, '
                'every fixed subset (26), multinom on/off, %d log-uniform starts each in [0.015,13.3]^k (about 1 in 6 with a coordinate exactly on a '
                'bound), bounds [0.01,20], upper bound None in 1/8 of the runs; algorithms BOBYQA (default; also COBYLA, NELDERMEAD, SBPLX in rotation), '
                'maxeval 600; evaluation log: first=start (rel 1e-12), all inside bounds (rel 1e-12), fixed exact, ll(returned)=reported (1e-10 rel, '
                'math.lgamma oracle), returned no worse than start' % (log_opt, nstarts)))
    import numpy as np
    import nlopt
    import dadi
    from dadi import Inference as I
    _silence()
    rng = d_.rng
    algs = [('BOBYQA', nlopt.LN_BOBYQA), ('BOBYQA', nlopt.LN_BOBYQA), ('COBYLA', nlopt.LN_COBYLA), ('NELDERMEAD', nlopt.LN_NELDERMEAD), ('SBPLX', nlopt.LN_SBPLX)]
    n = 0
    for k, subset, multinom, s, onb in _configs(rng, nstarts):
        n += 1
        prob = Problem(dadi, np, k, multinom, rng)
        p0 = _start(rng, k, onb)
        fixed = _fixed_list(rng, k, subset)
        an, alg = algs[n % len(algs)]
        lb, ub = [LB] * k, [UB] * k
        none_ub = n % 8 == 3
        if none_ub:
            ub = [None if j % 2 == 0 else UB for j in range(k)]
        info = dict(k=k, p0=p0, fixed=fixed, multinom=multinom, log_opt=log_opt, algorithm=an, lower=lb, upper=ub, data=prob.d.tolist())
        key = (k, subset, multinom, s, an, none_ub)
        name = 'opt' + ('-log_opt' if log_opt else '')

        def run():
            prob.log[:] = []
            lb_in, ub_in, p0_in, fx_in = list(lb), list(ub), list(p0), (None if fixed is None else list(fixed))
            xopt, val = I.opt(p0_in, prob.data, prob.model, None, multinom=multinom, lower_bound=lb_in, upper_bound=ub_in, fixed_params=fx_in,
                              algorithm=alg, log_opt=log_opt, maxeval=600)
            d_.case(key + ('frame',), lb_in == lb and ub_in == ub and p0_in == p0 and fx_in == fixed, info, True, name + '-arguments-mutated')
            if np.any(np.isnan(np.asarray(xopt, dtype=float))):
                d_.case(key + ('roundoff-limited',), True, info, False)     # documented nlopt.RoundoffLimited path
                return True, None
            _contracts(d_, np, name, key, prob, p0, fixed, lb, ub, np.asarray(xopt, dtype=float), val, info, primary=True)
            return True, None
        d_.check(key, run, info, name + '-exception', nontrivial=False)
    return d_.results()


def _call_scipy(I, which, prob, p0, lb, ub, fixed, multinom, ll_scale, maxiter):
    f = getattr(I, which)
    kw = dict(lower_bound=lb, upper_bound=ub, multinom=multinom, full_output=True, fixed_params=fixed)
    if maxiter is not None:
        kw['maxiter'] = maxiter
    if which not in ('optimize_log_fmin', 'optimize_log_powell'):
        kw['ll_scale'] = ll_scale
    else:
        ll_scale = 1
    out = f(p0, prob.data, prob.model, None, **kw)
    return out[0], -out[1] * ll_scale


def drv_scipy(tier, which, nstarts, shim):
    d_ = _det(Driver('C12', which + ('.iprint-shim' if shim else ''), bound='Inference.%s%s; closed-form 1-D model n=12, k=1..4 parameters, every fixed subset (26), '
                'multinom on/off, %d starts each (log-uniform in [0.015,13.3]^k, about 1 in 6 with a coordinate exactly on a bound), bounds [0.01,20], '
                'upper bound None for some parameters in 1/8 of the runs, ll_scale in {1,10}, maxiter in {default,40}; evaluation log: first=start, all '
                'inside bounds (rel 1e-12), fixed exact, ll(returned)=-fopt*ll_scale (1e-10 rel, math.lgamma oracle), returned point was evaluated'
                % (which, ' with scipy.optimize.fmin_l_bfgs_b wrapped to drop the iprint keyword that scipy>=1.18 rejects (to reach the wiring behind the TypeError)'
                   if shim else '', nstarts)))
    import numpy as np
    import scipy.optimize as so
    import dadi
    from dadi import Inference as I
    _silence()
    rng = d_.rng
    orig = so.fmin_l_bfgs_b
    if shim:
        def shimmed(*a, **k):
            k.pop('iprint', None)
            return orig(*a, **k)
        so.fmin_l_bfgs_b = shimmed
    try:
        n = 0
        for k, subset, multinom, s, onb in _configs(rng, nstarts):
            n += 1
            prob = Problem(dadi, np, k, multinom, rng)
            p0 = _start(rng, k, onb)
            fixed = _fixed_list(rng, k, subset)
            lb, ub = [LB] * k, [UB] * k
            none_ub = n % 8 == 3
            if none_ub:
                ub = [None if j % 2 == 0 else UB for j in range(k)]
            ll_scale = 10 if n % 5 == 0 else 1
            maxiter = None if (n % 3 and which != 'optimize_cons') else 40
            info = dict(optimiser=which, k=k, p0=p0, fixed=fixed, multinom=multinom, lower=lb, upper=ub, ll_scale=ll_scale, maxiter=maxiter, data=prob.d.tolist())
            key = (k, subset, multinom, s, none_ub, ll_scale, maxiter)

            def run():
                prob.log[:] = []
                lb_in, ub_in, p0_in, fx_in = list(lb), list(ub), list(p0), (None if fixed is None else list(fixed))
                try:
                    xopt, rep = _call_scipy(I, which, prob, p0_in, lb_in, ub_in, fx_in, multinom, ll_scale, maxiter)
                except Exception as e:
                    import traceback
                    tb = traceback.format_exc()
                    if isinstance(e, TypeError) and "unexpected keyword argument 'iprint'" in str(e):
                        fk = 'iprint-typeerror'                              # scipy >= 1.18 removed fmin_l_bfgs_b(iprint=)
                    elif none_ub and which == 'optimize_log_lbfgsb' and isinstance(e, TypeError) and 'log' in tb[-400:]:
                        fk = 'optimize_log_lbfgsb-None-bound-typeerror'      # numpy.log([.., None, ..])
                    else:
                        fk = which + '-exception'
                    d_.case(key + ('call',), False, dict(info, exception=tb[-700:]), True, fk)
                    return True, None
                d_.case(key + ('frame',), lb_in == lb and ub_in == ub and p0_in == p0 and fx_in == fixed, info, True, which + '-arguments-mutated')
                _contracts(d_, np, which, key, prob, p0, fixed, lb, ub, np.asarray(xopt, dtype=float), rep, info)
                return True, None
            d_.check(key, run, info, which + '-driver-exception', nontrivial=False)
        if which == 'optimize_log':
            # pinned case found by the thorough tier under another seed (about 1 run in 10^4): BFGS walks onto the penalty plateau
            pin = dict(k=4, p0=[0.056035406038669924, 1.0540665386511048, 0.017666715410811325, 0.034665695088744695],
                       fixed=[None, 5.222762423735782, None, 7.952012335475725], multinom=False,
                       data=[578.0471631690394, 262.29519390522995, 163.99548691676347, 112.14054768129047, 71.69365671463687, 64.25902429482306,
                             61.26397123226303, 56.06567136343042, 60.360799645668415, 76.34631182983897, 121.7441115670576])
            prob = Problem(dadi, np, 4, False, rng, data=pin['data'])
            info = dict(pin, optimiser=which, lower=[LB] * 4, upper=[UB] * 4, ll_scale=1, maxiter=None, pinned=True)

            def run_pinned():
                prob.log[:] = []
                xopt, rep = _call_scipy(I, which, prob, list(pin['p0']), [LB] * 4, [UB] * 4, list(pin['fixed']), False, 1, None)
                _contracts(d_, np, which, ('pinned-plateau',), prob, pin['p0'], pin['fixed'], [LB] * 4, [UB] * 4, np.asarray(xopt, dtype=float), rep, info)
                return True, None
            d_.check(('pinned-plateau',), run_pinned, info, which + '-driver-exception', nontrivial=False)
        if which == 'optimize_cons':
            # the documented default maxiter=None
            prob = Problem(dadi, np, 2, True, rng)
            p0 = _start(rng, 2, False)
            info = dict(optimiser=which, k=2, p0=p0, maxiter='default (None)', data=prob.d.tolist())

            def run_default():
                xopt, rep = _call_scipy(I, which, prob, list(p0), [LB] * 2, [UB] * 2, None, True, 1, None)
                _contracts(d_, np, which, ('default-maxiter',), prob, p0, None, [LB] * 2, [UB] * 2, np.asarray(xopt, dtype=float), rep, info)
                return True, None
            d_.check(('default-maxiter',), run_default, info, 'optimize_cons-default-maxiter-typeerror')
    finally:
        so.fmin_l_bfgs_b = orig
    return d_.results()


def drv_grid(tier, ngrids):
    d_ = _det(Driver('C12', 'optimize_grid', bound='Inference.optimize_grid; closed-form 1-D model n=12, k=1..4 with every fixed subset leaving 1-3 free parameters, '
                '%d random grids per pattern (2-5 points per axis, complex-step and real-step slices inside [0.01,20]), multinom on/off, full_output on/off: every '
                'evaluation is a grid point (rel 1e-12) with fixed values exact, every grid point evaluated once, returned point = grid argmax of the math.lgamma '
                'oracle, -fopt = ll(returned), fout and thetas equal the oracle at every grid point (1e-10 rel)' % ngrids))
    import numpy as np
    import itertools, math
    import dadi
    from dadi import Inference as I
    _silence()
    rng = d_.rng
    for k in (1, 2, 3, 4):
        for subset in _subsets(k):
            nfree = k - len(subset)
            if nfree > 3:
                continue
            for g in range(max(1, ngrids // (1 if nfree < 3 else 3))):
                multinom = bool(g % 2)
                full = bool((g // 2) % 2) if g >= 2 else bool(g)
                prob = Problem(dadi, np, k, multinom, rng)
                fixed = [math.exp(rng.uniform(math.log(LB * 2), math.log(UB / 2))) if j in subset else None for j in range(k)]
                if not subset and rng.random() < 0.5:
                    fixed = None
                axes, slices = [], []
                for _ in range(nfree):
                    lo = rng.uniform(0.05, 2.0)
                    npts = rng.randint(2, 5)
                    if rng.random() < 0.5:
                        hi = lo + rng.uniform(0.5, 6.0)
                        slices.append(slice(lo, hi, complex(0, npts)))
                        axes.append(list(np.linspace(lo, hi, npts)))
                    else:
                        step = rng.uniform(0.2, 1.5)
                        hi = lo + step * (npts - 0.5)
                        slices.append(slice(lo, hi, step))
                        axes.append(list(np.arange(lo, hi, step)))
                info = dict(k=k, fixed=fixed, multinom=multinom, full_output=full, axes=axes, data=prob.d.tolist())
                key = (k, subset, g, multinom, full)
                free_idx = [j for j in range(k) if j not in subset]

                def up(q):
                    p = [None] * k
                    for j, v in zip(free_idx, q):
                        p[j] = float(v)
                    for j in subset:
                        p[j] = fixed[j]
                    return p
                pts_all = [up(q) for q in itertools.product(*axes)]
                lls = [prob.ll(p) for p in pts_all]
                best = max(range(len(lls)), key=lambda t: lls[t])
                sfx = '-1-free-param' if nfree == 1 else ''

                def run():
                    prob.log[:] = []
                    out = I.optimize_grid(prob.data, prob.model, None, tuple(slices), multinom=multinom, full_output=full,
                                          fixed_params=None if fixed is None else list(fixed))
                    xopt = np.atleast_1d(np.asarray(out[0] if full else out, dtype=float))
                    evals = [e.tolist() for e in prob.log]

                    def close(a, b):
                        return all(abs(x - y) <= RTOL * abs(y) for x, y in zip(a, b))
                    ok = len(evals) == len(pts_all) and all(any(close(e, p) for p in pts_all) for e in evals) and all(any(close(e, p) for e in evals) for p in pts_all)
                    d_.case(key + ('evals=grid',), ok, dict(info, n_evals=len(evals), n_grid=len(pts_all)), True, 'optimize_grid-evaluations-not-the-grid')
                    ok = all(e[j] == fixed[j] for e in evals for j in subset)
                    d_.case(key + ('fixed',), ok and all(xopt[j] == fixed[j] for j in subset), info, bool(subset), 'optimize_grid-fixed-param-moved')
                    gap = sorted(lls)[-1] - sorted(lls)[-2] if len(lls) > 1 else 1.0
                    ok = len(xopt) == k and (close(xopt, pts_all[best]) or gap <= 1e-9 * abs(lls[best]))
                    d_.case(key + ('argmax',), ok, dict(info, returned=xopt.tolist(), want=pts_all[best]), True, 'optimize_grid-returned-not-argmax')
                    if full:
                        xo, fopt, grid, fout, thetas = out
                        ok = abs(-fopt - prob.ll(list(xopt))) <= 1e-10 * abs(fopt)
                        d_.case(key + ('fopt',), ok, dict(info, fopt=float(fopt)), True, 'optimize_grid-fopt')
                        bad = []
                        for ind in np.ndindex(*np.shape(fout)):
                            q = np.atleast_2d(grid)[(slice(None),) + ind] if nfree > 1 else [np.asarray(grid)[ind]]
                            p = up(q)
                            if not abs(-fout[ind] - prob.ll(p)) <= 1e-10 * abs(fout[ind]):
                                bad.append(('fout', list(ind)))
                            th = math.fsum(prob.d) / math.fsum(prob.shape(p))
                            if not abs(thetas[ind] - th) <= 1e-12 * th:
                                bad.append(('theta', list(ind), float(thetas[ind]), th))
                        d_.case(key + ('fout/thetas',), not bad, dict(info, bad=bad[:4]), True, 'optimize_grid-fout-or-thetas')
                    return True, None
                d_.check(key, run, info, 'optimize_grid-1-free-param-full_output-indexerror' if (nfree == 1 and full) else 'optimize_grid-exception', nontrivial=False)
    return d_.results()


def drv_project(tier, maxlen):
    d_ = _det(Driver('C12', 'project_params', bound='_project_params_down/_project_params_up: lengths 1..%d, EVERY fixed pattern (2^len), lists/tuples/arrays, random '
                'values incl. 0, negatives and fixed value 0.0; fixed_params=None identity; scalar pin; length mismatch raises ValueError; exact equality' % maxlen))
    import numpy as np
    import itertools
    from dadi import Inference as I
    rng = d_.rng
    for L in range(1, maxlen + 1):
        for pat in itertools.product([False, True], repeat=L):
            p = [rng.choice([0.0, -1.5, rng.uniform(-5, 5), rng.uniform(1e-8, 1e8)]) for _ in range(L)]
            fixed = [rng.choice([0.0, rng.uniform(-3, 3)]) if f else None for f in pat]
            cont = rng.choice(['list', 'tuple', 'array'])
            pin = p if cont == 'list' else tuple(p) if cont == 'tuple' else np.array(p)
            info = dict(p=p, fixed=fixed, container=cont)
            key = (L, pat)

            def run():
                p_snap, f_snap = list(p), list(fixed)
                down = I._project_params_down(pin, fixed)
                nfree = sum(1 for f in pat if not f)
                ok = len(down) == nfree and list(down) == [v for v, f in zip(p, pat) if not f]
                d_.case(key + ('down',), ok, dict(info, down=list(map(float, down))), True, 'project-down')
                if nfree == 0:
                    upv = I._project_params_up([], fixed)
                else:
                    upv = I._project_params_up(down, fixed)
                ok = len(upv) == L and all((upv[j] == fixed[j]) if pat[j] else (upv[j] == p[j]) for j in range(L))
                d_.case(key + ('up(down)',), ok, dict(info, up=list(map(float, upv))), True, 'project-up-after-down')
                q = [rng.uniform(-2, 2) for _ in range(nfree)]
                rt = I._project_params_down(I._project_params_up(q if nfree != 1 or rng.random() < 0.5 else q[0], fixed), fixed)
                d_.case(key + ('down(up)',), list(rt) == q, dict(info, q=q, got=list(map(float, rt))), nfree > 0, 'project-down-after-up')
                d_.case(key + ('frame',), list(p) == p_snap and fixed == f_snap, info, True, 'project-arguments-mutated')
                return True, None
            d_.check(key, run, info, 'project-exception', nontrivial=False)
        # None: identity (same values, same length); mismatch: ValueError
        p = [rng.uniform(-5, 5) for _ in range(L)]
        d_.case((L, 'none'), list(I._project_params_down(p, None)) == p and list(I._project_params_up(p, None)) == p, dict(p=p), True, 'project-none-identity')
        try:
            I._project_params_down(p, [None] * (L + 1))
            ok = False
        except ValueError:
            ok = True
        d_.case((L, 'mismatch'), ok, dict(p=p), True, 'project-length-mismatch-accepted')
    return d_.results()


def drv_perturb(tier, ncases):
    d_ = _det(Driver('C12', 'perturb_params', bound='Misc.perturb_params: %d cases, 1-5 parameters inside bounds with 0<=lb, 1.01*lb<=0.99*ub, fold in {0,0.5,1,2,3}, bounds '
                'lists with and without None entries, None bounds, params on a bound; result within [lb,ub], within a factor 2^fold of the input unless clamped '
                'to 1.01*lb/0.99*ub, arguments (incl. None entries of the bounds lists) unchanged; numpy.random seeded from the driver rng' % ncases))
    import numpy as np
    from dadi import Misc
    rng = d_.rng
    for c in range(ncases):
        k = rng.randint(1, 5)
        lb = [rng.choice([0.0, 1e-3, rng.uniform(0, 2)]) for _ in range(k)]
        ub = [l * 1.03 + rng.choice([1e-3, 1.0, rng.uniform(0.1, 50)]) for l in lb]
        params = [rng.choice([l, u, rng.uniform(l, u)]) if rng.random() < 0.3 else rng.uniform(l, u) for l, u in zip(lb, ub)]
        fold = rng.choice([0, 0.5, 1, 2, 3])
        mode = c % 4          # 0: both lists, 1: None entries in the lists, 2: lower only, 3: no bounds
        lb_in = list(lb) if mode in (0, 1, 2) else None
        ub_in = list(ub) if mode in (0, 1) else None
        if mode == 1:
            j = rng.randrange(k)
            lb_in[j] = None
            ub_in[rng.randrange(k)] = None
        cont = rng.choice(['array', 'list'])
        p_in = np.array(params) if cont == 'array' else np.array(params).tolist()
        info = dict(params=params, fold=fold, lower=lb_in, upper=ub_in, container=cont)
        key = (c, k, mode, fold)
        seed = rng.randrange(2 ** 31)

        def run():
            np.random.seed(seed)
            lb_c = None if lb_in is None else list(lb_in)
            ub_c = None if ub_in is None else list(ub_in)
            p_c = np.array(p_in, copy=True) if cont == 'array' else list(p_in)
            out = Misc.perturb_params(p_c, fold=fold, lower_bound=lb_c, upper_bound=ub_c)
            out = np.asarray(out, dtype=float)
            ok = out.shape == (k,)
            for j in range(k):
                lo = lb_in[j] if lb_in is not None and lb_in[j] is not None else None
                hi = ub_in[j] if ub_in is not None and ub_in[j] is not None else None
                if lo is not None and not out[j] >= lo:
                    ok = False
                if hi is not None and not out[j] <= hi:
                    ok = False
                inrange = params[j] * 2 ** (-fold) * (1 - 1e-15) <= out[j] <= params[j] * 2 ** fold * (1 + 1e-15)
                clamped = (lo is not None and out[j] == 1.01 * lo) or (hi is not None and out[j] == 0.99 * hi)
                if not (inrange or clamped):
                    ok = False
            d_.case(key + ('range',), ok, dict(info, got=out.tolist()), True, 'perturb_params-outside-bounds-or-fold')
            same = (lb_c == lb_in) and (ub_c == ub_in)
            d_.case(key + ('frame-bounds',), same, dict(info, lower_after=lb_c, upper_after=ub_c), mode != 3,
                    'perturb_params-rewrites-None-bounds-in-callers-lists' if mode == 1 else 'perturb_params-bounds-mutated')
            d_.case(key + ('frame-params',), list(p_c) == list(p_in), info, True, 'perturb_params-params-mutated')
            return True, None
        d_.check(key, run, info, 'perturb_params-exception' + ('-list-params' if cont == 'list' else ''), nontrivial=False)
    return d_.results()
