"""Bounded run-time-contract driver (E4) for C05: sampling a spectrum from phi is exact binomial
integration on every code path (Spectrum.from_phi, Spectrum.from_phi_inbreeding,
Numerics.BetaBinomConvolution).

Oracles (none of them calls dadi):
 * analytic paths: per axis an exact weight matrix A[d, j] = int_0^1 C(n,d) x^d (1-x)^(n-d) hat_j(x) dx,
   hat_j the piecewise-linear nodal basis function of the grid; the binomial polynomial is expanded and
   integrated term by term in exact integer/Fraction arithmetic (the doubles of the grid are dyadic
   rationals), rounded once to double.  The k-D spectrum is the tensor contraction of the A's with phi.
 * direct paths: T[d, j] = w_j C(n,d) x_j^d (1-x_j)^(n-d) (times x_j (1-x_j) on the ascertained axis),
   w the trapezoid weights, in exact Fractions; same tensor contraction.
 * admix_props paths: explicit trapezoid sum of the product of binomial kernels at the admixed
   frequencies (exact Fractions in 2-D, float64 einsum in 3-D/4-D).
 * inbreeding: per-individual beta-binomial pmf from rising factorials in 40-digit mpmath, convolved
   nInd times (polynomial power), point masses at x=0 / x=1, explicit trapezoid sum.
 * projection: own hypergeometric matrix from math.comb in Fractions; marginalisation: own trapezoid.
"""
import math
from fractions import Fraction as Fr
from vf.core import Task
from vf.bounded import Driver


def tasks(tier):
    names = ['drv_1d', 'drv_2d', 'drv_3d', 'drv_4d', 'drv_5d', 'drv_admix', 'drv_dispatch5d',
             'drv_bbconv', 'drv_inbreeding', 'drv_inbreeding_limit']
    return [Task('props.bounded_C05:%s' % n, name='C05/bounded/%s' % n[4:], tier=tier, timeout=900) for n in names]


# ------------------------------------------------------------------------------------------------
# exact oracles
# ------------------------------------------------------------------------------------------------
_LCM = {}


def _lcm_upto(P):
    if P not in _LCM:
        L = 1
        for q in range(1, P + 1):
            L = L * q // math.gcd(L, q)
        _LCM[P] = L
    return _LCM[P]


_A_CACHE = {}


def analytic_weights(n, xs):
    """A[d][j] = int C(n,d) x^d (1-x)^(n-d) hat_j(x) dx over the grid clipped to [0,1]; exact, rounded once.
    Returns a numpy (n+1, len(xs)) float array and the list-of-lists of Fractions."""
    import numpy
    key = (n, tuple(float(x) for x in xs))
    if key in _A_CACHE:
        return _A_CACHE[key]
    X = [Fr(min(max(float(x), 0.0), 1.0)) for x in xs]
    pts = len(X)
    E = max(f.denominator.bit_length() - 1 for f in X)
    ms = [f.numerator * (1 << (E - (f.denominator.bit_length() - 1))) for f in X]
    P = n + 2
    L = _lcm_upto(P)
    # mp[j][q] = m_j^q 2^(E (P-q)), so x_j^q = mp[j][q] / 2^(E P)
    mp = []
    for m in ms:
        row = [1] * (P + 1)
        for q in range(1, P + 1):
            row[q] = row[q - 1] * m
        row = [row[q] << (E * (P - q)) for q in range(P + 1)]
        mp.append(row)
    DEN = L << (E * P)
    A = [[Fr(0)] * pts for _ in range(n + 1)]
    for d in range(n + 1):
        cnd = math.comb(n, d)
        coefs = [cnd * (-1) ** k * math.comb(n - d, k) for k in range(n - d + 1)]
        # G0(x) = int_0^x B_d, G1(x) = int_0^x t B_d(t) dt   (numerators over DEN)
        G0 = [sum(c * (L // (d + k + 1)) * mp[j][d + k + 1] for k, c in enumerate(coefs)) for j in range(pts)]
        G1 = [sum(c * (L // (d + k + 2)) * mp[j][d + k + 2] for k, c in enumerate(coefs)) for j in range(pts)]
        row = A[d]
        for i in range(pts - 1):
            h = X[i + 1] - X[i]
            if h == 0:
                continue
            M0 = Fr(G0[i + 1] - G0[i], DEN)
            M1 = Fr(G1[i + 1] - G1[i], DEN)
            row[i] += (X[i + 1] * M0 - M1) / h
            row[i + 1] += (M1 - X[i] * M0) / h
    Af = numpy.array([[float(v) for v in row] for row in A])
    _A_CACHE[key] = (Af, A)
    return Af, A


def trap_weights_exact(xs):
    X = [Fr(float(x)) for x in xs]
    pts = len(X)
    w = []
    for j in range(pts):
        lo = X[j] - X[j - 1] if j > 0 else 0
        hi = X[j + 1] - X[j] if j < pts - 1 else 0
        w.append((lo + hi) / 2)
    return X, w


def direct_weights(n, xs, het=False):
    """T[d][j] = w_j C(n,d) x_j^d (1-x_j)^(n-d) [x_j (1-x_j)], exact Fractions on the raw grid."""
    import numpy
    X, w = trap_weights_exact(xs)
    T = []
    for d in range(n + 1):
        c = math.comb(n, d)
        row = []
        for x, wj in zip(X, w):
            v = wj * c * x ** d * (1 - x) ** (n - d)
            if het:
                v *= x * (1 - x)
            row.append(v)
        T.append(row)
    return numpy.array([[float(v) for v in row] for row in T]), T


def trap_weights(xs):
    import numpy
    _, w = trap_weights_exact(xs)
    return numpy.array([float(v) for v in w])


def contract(mats, phi):
    """out[d1..dk] = sum_{j1..jk} prod_a mats[a][d_a, j_a] phi[j1..jk] (float64, pairwise axis by axis)."""
    import numpy
    out = numpy.asarray(phi, dtype=float)
    for a, M in enumerate(mats):
        out = numpy.moveaxis(numpy.tensordot(M, out, axes=([1], [a])), 0, a)
    return out


def absmass(phi, xxs):
    """sum_j prod w_j |phi_j| : every spectrum entry is bounded by it; the tolerance scale."""
    import numpy
    return float(contract([trap_weights(x)[None, :] for x in xxs], numpy.abs(phi)).reshape(()))


def mass(phi, xxs):
    import numpy
    return float(contract([trap_weights(x)[None, :] for x in xxs], phi).reshape(()))


def cond_scale(phi, xxs):
    """Round-off scale of the semi-analytic formula: per interval c1_i = phi_i - s_i x_i multiplies a
    difference of incomplete beta functions that carries ~1 ulp(1) absolute error, so the error along
    one axis is ~eps * sum_i (|phi_i| + |dphi_i| x_i / h_i)  (unweighted sum over intervals), times the
    trapezoid mass over the other axes.  cond_scale = absmass + the sum of that over the axes."""
    import numpy
    phi = numpy.asarray(phi, dtype=float)
    tot = absmass(phi, xxs)
    aphi = numpy.abs(phi)
    for a, xx in enumerate(xxs):
        xx = numpy.asarray(xx, dtype=float)
        dphi = numpy.abs(numpy.diff(phi, axis=a))
        sh = [1] * phi.ndim
        sh[a] = -1
        lo = [slice(None)] * phi.ndim
        hi = [slice(None)] * phi.ndim
        lo[a], hi[a] = slice(None, -1), slice(1, None)
        fac = (numpy.abs(xx[1:]) / numpy.diff(xx)).reshape(sh)
        mats = [trap_weights(x)[None, :] for x in xxs]
        mats[a] = numpy.ones((1, len(xx) - 1))      # unweighted sum over the intervals of this axis
        tot += float(contract(mats, 0.5 * (aphi[tuple(lo)] + aphi[tuple(hi)]) + dphi * fac).reshape(()))
    return tot


def proj_matrix(n, m):
    import numpy
    cnm = math.comb(n, m)
    return numpy.array([[float(Fr(math.comb(i, j) * math.comb(n - i, m - j), cnm)) if 0 <= m - j <= n - i else 0.0
                         for i in range(n + 1)] for j in range(m + 1)])


# ------------------------------------------------------------------------------------------------
# input generators
# ------------------------------------------------------------------------------------------------

def make_grid(rng, pts, kind):
    import numpy
    if kind == 'uniform':
        xx = numpy.linspace(0, 1, pts)
    elif kind == 'default':
        # same functional form as dadi.Numerics.default_grid, re-derived here (dense near 0 and 1)
        crwd = 8.0
        unif = numpy.linspace(-1, 1, pts)
        grid = 1. / (1. + numpy.exp(-crwd * unif))
        xx = (grid - grid[0]) / (grid[-1] - grid[0])
    elif kind == 'dyadic':
        xx = numpy.array(sorted(set([0.0, 1.0] + [rng.randrange(1, 64) / 64. for _ in range(pts - 2)])))
    else:  # random with minimum spacing 2e-3
        while True:
            xs = sorted([0.0, 1.0] + [rng.uniform(0.002, 0.998) for _ in range(pts - 2)])
            if min(b - a for a, b in zip(xs, xs[1:])) > 2e-3:
                break
        xx = numpy.array(xs)
    return xx


def overshoot(xx, mode):
    """mode 1: last point 1+2.2e-16 (next double above 1; 1+1e-16 itself rounds to 1.0);
    mode 2: first point -1e-16; mode 3: both."""
    import numpy
    xx = numpy.array(xx, dtype=float)
    if mode in (1, 3):
        xx[-1] = numpy.nextafter(1.0, 2.0)
    if mode in (2, 3):
        xx[0] = -1e-16
    return xx


def make_phi(rng, nprng, xxs, kind):
    import numpy
    shape = tuple(len(x) for x in xxs)
    if kind == 'pos':
        return nprng.uniform(0.1, 2.0, size=shape)
    if kind == 'signed':
        return nprng.uniform(-1.0, 1.0, size=shape)
    if kind == 'spike':
        phi = numpy.zeros(shape)
        for _ in range(rng.randrange(1, 4)):
            phi[tuple(rng.randrange(s) for s in shape)] = rng.uniform(0.5, 3.0)
        return phi
    if kind == 'snm':       # product of 1/x-like factors (phi[0]=phi[1] as dadi does), the typical shape
        phi = numpy.ones(shape)
        for a, xx in enumerate(xxs):
            v = numpy.empty(len(xx))
            v[1:] = 1. / numpy.asarray(xx[1:], dtype=float)
            v[0] = v[1]
            sh = [1] * len(shape)
            sh[a] = -1
            phi = phi * v.reshape(sh)
        return phi * nprng.uniform(0.5, 1.5, size=shape)
    if kind == 'smooth':
        phi = numpy.ones(shape)
        for a, xx in enumerate(xxs):
            xx = numpy.asarray(xx, dtype=float)
            v = 1.0 + rng.uniform(-0.9, 0.9) * numpy.cos(rng.uniform(1, 6) * xx) + rng.uniform(0, 2) * xx ** 2
            sh = [1] * len(shape)
            sh[a] = -1
            phi = phi * v.reshape(sh)
        return phi
    raise ValueError(kind)


def _quiet():
    import logging
    logging.getLogger('Spectrum_mod').setLevel(logging.ERROR)   # the 'different grids' warning is expected here


PHI_KINDS = ['pos', 'signed', 'spike', 'snm', 'smooth']
EPS = 2.220446049250313e-16


def _maxerr(got, want):
    import numpy
    got = numpy.asarray(numpy.ma.getdata(got), dtype=float)
    if got.shape != want.shape:
        return float('inf')
    if not numpy.all(numpy.isfinite(got)):
        return float('inf')
    return float(numpy.max(numpy.abs(got - want))) if got.size else 0.0


def _lst(a):
    import numpy
    return numpy.asarray(a, dtype=float).tolist()


def _info(ns, xxs, phi, **kw):
    i = dict(ns=list(ns), xxs=[_lst(x) for x in xxs])
    if phi.size <= 64:
        i['phi'] = _lst(phi)
    else:
        i['phi_shape'] = list(phi.shape)
    i.update(kw)
    return i


TOL_A = 4 * EPS       # x cond_scale : analytic paths (observed worst ~0.1 eps*cond_scale)
TOL_D = 16 * EPS      # x absmass    : direct paths (sums of non-cancelling products)


def _check_common(d, fs, ns, xxs, phi, keybase, want, pop_ids, mask_corners, info):
    """Contracts that every path shares: mask, pop_ids, extrap_x, shape."""
    import numpy
    ok = tuple(fs.shape) == tuple(n + 1 for n in ns)
    ok = ok and fs.pop_ids == pop_ids and fs.extrap_x == xxs[0][1]
    m = numpy.ma.getmaskarray(fs)
    wantmask = numpy.zeros(fs.shape, bool)
    if mask_corners:
        wantmask[tuple([0] * fs.ndim)] = True
        wantmask[tuple([-1] * fs.ndim)] = True
    ok = ok and bool(numpy.all(m == wantmask))
    d.case(key=keybase + ('meta',), ok=ok, info=dict(info, pop_ids=repr(fs.pop_ids), extrap_x=float(fs.extrap_x),
           mask_ok=bool(numpy.all(m == wantmask))), fail_key='meta-mask-popids-extrapx')


def _run_cases(d, tier, D, ncases, nmax, ptsrange, kinds=('uniform', 'default', 'random', 'dyadic'),
               lastaxis_distinct=True, direct_nmax=None, do_direct=True):
    """Generic body for the 1-D..5-D from_phi tasks (analytic, direct, het-ascertained, identities)."""
    import numpy
    from dadi import Spectrum
    _quiet()
    rng, nprng = d.rng, d.nprng()
    hets = ['xx', 'yy', 'zz'][:min(D, 3)]
    for ci in range(ncases):
        gkind = kinds[ci % len(kinds)]
        pts = rng.randrange(ptsrange[0], ptsrange[1] + 1)
        base = make_grid(rng, pts, gkind)
        ov = [0, 0, 1, 2, 3][ci % 5]
        base = overshoot(base, ov)
        xxs = [base.copy() for _ in range(D)]
        # the linalg paths only need the first two grids equal; later axes may use other grids
        if lastaxis_distinct and D >= 3 and ci % 2:
            for a in range(2, D):
                xxs[a] = overshoot(make_grid(rng, rng.randrange(ptsrange[0], ptsrange[1] + 1), rng.choice(kinds)), rng.choice([0, 1, 3]))
        special = [1, 2, nmax]
        ns = [special[(ci + a) % 3] if ci % 4 == 0 else rng.randrange(1, nmax + 1) for a in range(D)]
        pkind = PHI_KINDS[ci % len(PHI_KINDS)]
        phi = make_phi(rng, nprng, xxs, pkind)
        mask_corners = bool(ci % 2)
        pop_ids = ['p%d' % a for a in range(D)] if ci % 3 else None
        keyb = (D, ci, gkind, ov, pkind, tuple(ns))
        info = _info(ns, xxs, phi, grid=gkind, overshoot=ov, phi_kind=pkind)
        S = absmass(phi, xxs)
        C = cond_scale(phi, xxs)
        M = mass(phi, xxs)

        # ---- analytic path vs exact piecewise-polynomial integration --------------------------------
        A = [analytic_weights(n, xx)[0] for n, xx in zip(ns, xxs)]
        want = contract(A, phi)
        phi_in = phi.copy()
        try:
            fs = Spectrum.from_phi(phi, ns, xxs, mask_corners=mask_corners, pop_ids=pop_ids)
        except Exception as e:
            d.case(keyb + ('analytic',), False, dict(info, exception=repr(e)), fail_key='analytic-%dd-exception' % D)
            continue
        err = _maxerr(fs, want)
        d.case(keyb + ('analytic',), err <= TOL_A * C, dict(info, err=err, tol=TOL_A * C, path='analytic'),
               fail_key='analytic-%dd-value' % D)
        d.case(keyb + ('pure',), bool(numpy.array_equal(phi, phi_in)), dict(info, what='phi mutated'), fail_key='phi-mutated')
        _check_common(d, fs, ns, xxs, phi, keyb, want, pop_ids, mask_corners, info)
        got = numpy.asarray(fs.data, dtype=float)
        # total over all entries = trapezoid mass of phi
        tot = float(got.sum())
        d.case(keyb + ('total',), abs(tot - M) <= TOL_A * C * got.size, dict(info, total=tot, mass=M), fail_key='analytic-total-mass')
        # sampling n then projecting to m = sampling m   (own hypergeometric matrices)
        ms = [rng.randrange(1, n + 1) for n in ns]
        try:
            fsm = Spectrum.from_phi(phi, ms, xxs, mask_corners=False)
            proj = contract([proj_matrix(n, m) for n, m in zip(ns, ms)], got)
            e2 = _maxerr(fsm, proj)
            d.case(keyb + ('project', tuple(ms)), e2 <= 2 * TOL_A * C, dict(info, ms=ms, err=e2, tol=2 * TOL_A * C), fail_key='analytic-project')
        except Exception as e:
            d.case(keyb + ('project', tuple(ms)), False, dict(info, ms=ms, exception=repr(e)), fail_key='analytic-project-exception')
        # marginalising a population before or after sampling
        if D >= 2:
            a = rng.randrange(D)
            w = trap_weights(xxs[a])
            sh = [1] * D
            sh[a] = -1
            phim = (phi * w.reshape(sh)).sum(axis=a)
            nsm = [n for b, n in enumerate(ns) if b != a]
            xxm = [x for b, x in enumerate(xxs) if b != a]
            ok_grid = D - 1 < 2 or (len(xxm[0]) == len(xxm[1]) and numpy.allclose(xxm[0], xxm[1]))
            if ok_grid:
                try:
                    fsm = Spectrum.from_phi(phim, nsm, xxm, mask_corners=False)
                    e3 = _maxerr(fsm, got.sum(axis=a))
                    d.case(keyb + ('marginal', a), e3 <= 2 * TOL_A * C * (ns[a] + 1), dict(info, axis=a, err=e3), fail_key='analytic-marginalise')
                except Exception as e:
                    d.case(keyb + ('marginal', a), False, dict(info, axis=a, exception=repr(e)), fail_key='analytic-marginalise-exception')
        # linearity in the density
        if ci % 3 == 0:
            phi2 = make_phi(rng, nprng, xxs, 'signed')
            a1, a2 = rng.uniform(-2, 2), rng.uniform(-2, 2)
            f2 = Spectrum.from_phi(phi2, ns, xxs, mask_corners=False)
            f12 = Spectrum.from_phi(a1 * phi + a2 * phi2, ns, xxs, mask_corners=False)
            C2 = cond_scale(phi2, xxs)
            e4 = _maxerr(f12, a1 * got + a2 * numpy.asarray(f2.data))
            d.case(keyb + ('linear',), e4 <= 4 * TOL_A * (abs(a1) * C + abs(a2) * C2), dict(info, err=e4), fail_key='analytic-linearity')

        # ---- direct paths (force_direct, het_ascertained) vs exact trapezoid weights -----------------
        nd = [min(n, direct_nmax) for n in ns] if direct_nmax else ns
        variants = [(None, True)] + [(h, False) for h in hets] if do_direct else []
        if ci % 2 and variants:
            variants = [variants[0], variants[1 + (ci // 2) % len(hets)]]
        for het, force in variants:
            Ts = []
            for a, (n, xx) in enumerate(zip(nd, xxs)):
                Ts.append(direct_weights(n, xx, het=(het == ['xx', 'yy', 'zz'][a] if a < 3 else False))[0])
            wantd = contract(Ts, phi)
            vkey = keyb + ('direct', het or 'force', tuple(nd))
            try:
                fsd = Spectrum.from_phi(phi, nd, xxs, mask_corners=mask_corners, pop_ids=pop_ids,
                                        het_ascertained=het, force_direct=force)
            except Exception as e:
                d.case(vkey, False, dict(info, nd=nd, het=het, exception=repr(e)[:300]),
                       fail_key='direct-%dd-exception' % D)
                continue
            e5 = _maxerr(fsd, wantd)
            d.case(vkey, e5 <= TOL_D * S * D, dict(info, nd=nd, het=het, err=e5, tol=TOL_D * S * D), fail_key='direct-%dd-value' % D)
            _check_common(d, fsd, nd, xxs, phi, vkey, wantd, pop_ids, mask_corners, info)
            if het is None:
                totd = float(numpy.asarray(fsd.data).sum())
                d.case(vkey + ('total',), abs(totd - M) <= TOL_D * S * D * wantd.size, dict(info, total=totd, mass=M), fail_key='direct-total-mass')
                # projection consistency on the direct path (pointwise identity of the kernels)
                ms = [rng.randrange(1, n + 1) for n in nd]
                fsm = Spectrum.from_phi(phi, ms, xxs, mask_corners=False, force_direct=True)
                proj = contract([proj_matrix(n, m) for n, m in zip(nd, ms)], numpy.asarray(fsd.data))
                e6 = _maxerr(fsm, proj)
                d.case(vkey + ('project', tuple(ms)), e6 <= 4 * TOL_D * S * D, dict(info, ms=ms, err=e6), fail_key='direct-project')

        # ---- path agreement analytic vs direct: both integrate the same kernel, the direct one with the
        # trapezoid rule on f*L (L the interpolant); rigorous 1-D bound sum_i h_i^3/12 max|(f L)''| with
        # |f'|<=n, |f''|<=2n(n-1) on [0,1]; tensor products by the telescoping bound.
        if do_direct and ov == 0 and pkind in ('smooth', 'pos'):
            try:
                fsd = Spectrum.from_phi(phi, ns, xxs, mask_corners=False, force_direct=True)
            except Exception:
                continue   # already recorded above
            bound = 0.0
            for a, (n, xx) in enumerate(zip(ns, xxs)):
                xx = numpy.asarray(xx, dtype=float)
                h = numpy.diff(xx)
                sh = [1] * D
                sh[a] = -1
                sl_lo = [slice(None)] * D
                sl_hi = [slice(None)] * D
                sl_lo[a] = slice(None, -1)
                sl_hi[a] = slice(1, None)
                aphi = numpy.abs(phi)
                pm = numpy.maximum(aphi[tuple(sl_lo)], aphi[tuple(sl_hi)])
                sl = numpy.abs(numpy.diff(phi, axis=a)) / h.reshape(sh)
                loc = (h ** 3 / 12.).reshape(sh) * (2. * n * (n - 1) * pm + 2. * n * sl)
                mats = [trap_weights(x)[None, :] for x in xxs]
                mats[a] = numpy.ones((1, len(xx) - 1))
                bound += float(contract(mats, loc).reshape(()))
            e7 = _maxerr(fsd, got)
            d.case(keyb + ('agree',), e7 <= bound + TOL_A * C, dict(info, diff=e7, bound=bound), fail_key='analytic-vs-direct-agreement')


def drv_1d(tier):
    d = Driver('C05', '1d', bound='1-D from_phi: %s random cases; n in 1..40 (1, 2, 40 forced), grids of 3..40 points '
               '(uniform, dadi-like, random with spacing>2e-3, dyadic), first/last point overshooting by -1e-16/+2.2e-16; densities '
               'positive/signed/spike/1-over-x/smooth; analytic path vs exact Fraction integration at 4 eps*cond, direct and '
               'het_ascertained paths vs exact trapezoid weights at 16 eps*mass*D; total mass, projection n->m, linearity, '
               'analytic-vs-direct within the rigorous trapezoid error bound' % ('150' if tier == 'quick' else '2500'))
    _run_cases(d, tier, 1, 150 if tier == 'quick' else 2500, 40, (3, 40))
    return d.results()


def drv_2d(tier):
    d = Driver('C05', '2d', bound='2-D from_phi: %s random cases; n in 1..40 per axis (quick: 1..24), grids 3..24 points incl. overshoot; '
               'analytic (linalg) path vs tensor product of exact 1-D weights; direct/het xx,yy vs exact trapezoid weights; total mass, '
               'projection, marginalise-commutes, linearity, analytic-vs-direct bound' % ('100' if tier == 'quick' else '1500'))
    _run_cases(d, tier, 2, 100 if tier == 'quick' else 1500, 24 if tier == 'quick' else 40, (3, 24))
    return d.results()


def drv_3d(tier):
    d = Driver('C05', '3d', bound='3-D from_phi: %s random cases; n in 1..12, grids 3..9 points (third axis on its own grid in half the '
               'cases), overshoot; analytic vs exact tensor weights, direct/het xx,yy,zz vs exact trapezoid weights, identities as 2-D'
               % ('80' if tier == 'quick' else '1500'))
    _run_cases(d, tier, 3, 80 if tier == 'quick' else 1500, 12, (3, 9))
    return d.results()


def drv_4d(tier):
    d = Driver('C05', '4d', bound='4-D from_phi: %s random cases; n in 1..6 (direct paths n<=4), grids 3..6 points (axes 3,4 on their own grids in '
               'half the cases), overshoot; analytic vs exact tensor weights, direct/het vs exact trapezoid weights, identities'
               % ('40' if tier == 'quick' else '800'))
    _run_cases(d, tier, 4, 40 if tier == 'quick' else 800, 6, (3, 6), direct_nmax=4)
    return d.results()


def drv_5d(tier):
    d = Driver('C05', '5d', bound='5-D from_phi: %s random cases; n in 1..4, grids 3..5 points (axes 3..5 on their own grids in half the cases), '
               'overshoot; analytic vs exact tensor weights; total, projection, marginalise, linearity (the 5-D non-analytic options are '
               'exercised in dispatch5d)' % ('24' if tier == 'quick' else '400'))
    _run_cases(d, tier, 5, 24 if tier == 'quick' else 400, 4, (3, 5), do_direct=False)
    return d.results()


def drv_dispatch5d(tier):
    """5-D from_phi with any of force_direct / het_ascertained / admix_props must produce the spectrum
    (the property quantifies over 1-5 dimensions and all options) - oracle: exact trapezoid weights."""
    import numpy
    from dadi import Spectrum
    d = Driver('C05', 'dispatch5d', bound='5-D from_phi with force_direct, het_ascertained in xx,yy,zz and identity admix_props on three 3/4-point '
               'grids (one overshooting), n<=3: value vs exact trapezoid weights at 16 eps*mass*D')
    _quiet()
    rng, nprng = d.rng, d.nprng()
    eye = tuple(tuple(1 if i == j else 0 for j in range(5)) for i in range(5))
    for ci in range(3):
        xx = [numpy.array([0.0, 0.375, 1.0]), make_grid(rng, 4, 'random'), overshoot(make_grid(rng, 3, 'default'), 3)][ci]
        xxs = [xx] * 5
        ns = [[1, 2, 1, 2, 1], [2, 1, 1, 1, 3], [1, 1, 2, 2, 1]][ci]
        phi = nprng.uniform(0.1, 1.0, size=(len(xx),) * 5)
        S = absmass(phi, xxs)
        for label, kw in [('force_direct', dict(force_direct=True)), ('het_xx', dict(het_ascertained='xx')),
                          ('het_yy', dict(het_ascertained='yy')), ('het_zz', dict(het_ascertained='zz')),
                          ('admix_identity', dict(admix_props=eye))]:
            het = kw.get('het_ascertained')
            Ts = [direct_weights(n, x, het=(a < 3 and het == ['xx', 'yy', 'zz'][a]))[0] for a, (n, x) in enumerate(zip(ns, xxs))]
            want = contract(Ts, phi)

            def fn(kw=kw, want=want):
                fs = Spectrum.from_phi(phi, ns, xxs, mask_corners=False, **kw)
                e = _maxerr(fs, want)
                return e <= TOL_D * S * 5, dict(err=e)
            d.check((5, ci, label), fn, info=dict(ns=ns, xx=_lst(xx), options=label, phi='uniform(0.1,1) seeded'),
                    fail_key='from_phi-5d-nonanalytic-unbound-fs')
    return d.results()


# ------------------------------------------------------------------------------------------------
# admix_props paths
# ------------------------------------------------------------------------------------------------

def _rand_props(rng, D, kind):
    if kind == 'identity':
        return tuple(tuple(1 if i == j else 0 for j in range(D)) for i in range(D))
    if kind == 'identity_float':
        return tuple(tuple(1.0 if i == j else 0.0 for j in range(D)) for i in range(D))
    if kind == 'perm':
        p = list(range(D))
        rng.shuffle(p)
        return tuple(tuple(1 if p[i] == j else 0 for j in range(D)) for i in range(D))
    rows = []
    for i in range(D):
        if kind == 'dyadic':
            cuts = sorted(rng.randrange(0, 17) for _ in range(D - 1))
            r = [b - a for a, b in zip([0] + cuts, cuts + [16])]
            rows.append(tuple(v / 16. for v in r))
        else:
            r = [rng.random() for _ in range(D)]
            s = sum(r)
            r = [v / s for v in r]
            r[-1] = 1.0 - sum(r[:-1])
            rows.append(tuple(max(v, 0.0) for v in r))
    return tuple(rows)


def admix_oracle_float(phi, ns, xxs, props):
    import numpy
    D = phi.ndim
    G = numpy.meshgrid(*[numpy.asarray(x, dtype=float) for x in xxs], indexing='ij')
    W = numpy.ones(phi.shape)
    for a, x in enumerate(xxs):
        sh = [1] * D
        sh[a] = -1
        W = W * trap_weights(x).reshape(sh)
    out = numpy.zeros(tuple(n + 1 for n in ns))
    Ks = []
    for k in range(D):
        xa = sum(float(props[k][l]) * G[l] for l in range(D))
        Ks.append([math.comb(ns[k], dd) * xa ** dd * (1 - xa) ** (ns[k] - dd) for dd in range(ns[k] + 1)])
    import itertools
    base = W * phi
    for idx in itertools.product(*[range(n + 1) for n in ns]):
        t = base
        for k, dd in enumerate(idx):
            t = t * Ks[k][dd]
        out[idx] = math.fsum(t.ravel().tolist())
    return out


def admix_oracle_exact_2d(phi, ns, xxs, props):
    import numpy
    X, wx = trap_weights_exact(xxs[0])
    Y, wy = trap_weights_exact(xxs[1])
    P = [[Fr(float(v)) for v in row] for row in props]
    out = numpy.zeros((ns[0] + 1, ns[1] + 1))
    acc = [[Fr(0)] * (ns[1] + 1) for _ in range(ns[0] + 1)]
    for i, x in enumerate(X):
        for j, y in enumerate(Y):
            ph = Fr(float(phi[i, j])) * wx[i] * wy[j]
            if ph == 0:
                continue
            xa = P[0][0] * x + P[0][1] * y
            ya = P[1][0] * x + P[1][1] * y
            kx = [math.comb(ns[0], a) * xa ** a * (1 - xa) ** (ns[0] - a) for a in range(ns[0] + 1)]
            ky = [math.comb(ns[1], b) * ya ** b * (1 - ya) ** (ns[1] - b) for b in range(ns[1] + 1)]
            for a in range(ns[0] + 1):
                pa = ph * kx[a]
                for b in range(ns[1] + 1):
                    acc[a][b] += pa * ky[b]
    for a in range(ns[0] + 1):
        for b in range(ns[1] + 1):
            out[a, b] = float(acc[a][b])
    return out


def drv_admix(tier):
    import numpy
    from dadi import Spectrum
    nc = 120 if tier == 'quick' else 2400
    d = Driver('C05', 'admix', bound='from_phi(admix_props=...) in 2-D, 3-D, 4-D: %d random cases; proportion matrices identity (int and float), '
               'permutation, dyadic rows (entries k/16 incl. 0 and 1), random rows summing to 1; 2-D: n<=8, grids 3..9 pts, oracle exact Fractions; '
               '3-D: n<=4, 3..6 pts; 4-D: n<=2, 3..4 pts, oracle float64 explicit trapezoid sum with fsum; tolerance 64 eps*mass*D; identity '
               'proportions equal force_direct; sum over entries = trapezoid mass; rows not summing to 1 rejected' % nc)
    _quiet()
    rng, nprng = d.rng, d.nprng()
    kinds = ['identity', 'identity_float', 'perm', 'dyadic', 'random', 'random']
    for ci in range(nc):
        D = [2, 2, 3, 2, 3, 4][ci % 6]
        pk = kinds[(ci // 6) % len(kinds)]
        nmax, pr = {2: (8, (3, 9)), 3: (4, (3, 6)), 4: (2, (3, 4))}[D]
        xxs = []
        for a in range(D):
            g = make_grid(rng, rng.randrange(pr[0], pr[1] + 1), rng.choice(['uniform', 'default', 'random', 'dyadic']))
            xxs.append(overshoot(g, rng.choice([0, 0, 1, 3]) if pk.startswith('identity') else 0))
        if ci % 2 == 0:
            xxs = [xxs[0].copy() for _ in range(D)]
        ns = [rng.randrange(1, nmax + 1) for _ in range(D)]
        phi = make_phi(rng, nprng, xxs, PHI_KINDS[ci % len(PHI_KINDS)])
        props = _rand_props(rng, D, pk)
        S = absmass(phi, xxs)
        M = mass(phi, xxs)
        info = _info(ns, xxs, phi, admix_props=[list(map(float, r)) for r in props], props_kind=pk)
        key = (D, ci, pk, tuple(ns))
        try:
            fs = Spectrum.from_phi(phi, ns, xxs, mask_corners=bool(ci % 2), admix_props=props, pop_ids=['a', 'b', 'c', 'd'][:D])
        except Exception as e:
            d.case(key, False, dict(info, exception=repr(e)[:300]), fail_key='admix-%dd-exception' % D)
            continue
        want = admix_oracle_exact_2d(phi, ns, xxs, props) if D == 2 else admix_oracle_float(phi, ns, xxs, props)
        e = _maxerr(fs, want)
        tol = TOL_D * S * D * 4
        d.case(key, e <= tol, dict(info, err=e, tol=tol), fail_key='admix-%dd-value' % D)
        _check_common(d, fs, ns, xxs, phi, key, want, ['a', 'b', 'c', 'd'][:D], bool(ci % 2), info)
        tot = float(numpy.asarray(fs.data).sum())
        d.case(key + ('total',), abs(tot - M) <= tol * want.size, dict(info, total=tot, mass=M), fail_key='admix-probabilities-sum-to-one')
        if pk.startswith('identity'):
            fd = Spectrum.from_phi(phi, ns, xxs, mask_corners=False, force_direct=True)
            e2 = _maxerr(fs, numpy.asarray(fd.data))
            d.case(key + ('identity=direct',), e2 <= tol, dict(info, err=e2), fail_key='admix-identity-vs-direct')
        # rows that do not sum to 1 must be rejected
        if ci % 6 == 0:
            bad = [list(r) for r in props]
            bad[rng.randrange(D)][rng.randrange(D)] += rng.choice([0.25, -0.25, 1e-3])

            def fn(bad=bad):
                try:
                    Spectrum.from_phi(phi, ns, xxs, admix_props=tuple(tuple(r) for r in bad))
                except ValueError:
                    return True, None
                return False, dict(note='accepted')
            d.check(key + ('reject',), fn, info=dict(info, bad_props=bad), fail_key='admix-rows-not-summing-to-1-accepted')
    return d.results()


# ------------------------------------------------------------------------------------------------
# inbreeding
# ------------------------------------------------------------------------------------------------

def bb_conv_pmf(nInd, ploidy, alpha, beta, point=None):
    """pmf of the sum of nInd iid BetaBinomial(ploidy, alpha, beta): rising factorials, 40-digit mpmath.
    point='zero'/'one': the x->0 / x->1 limits (point masses)."""
    import mpmath
    n = nInd * ploidy
    if point == 'zero':
        return [mpmath.mpf(1)] + [mpmath.mpf(0)] * n
    if point == 'one':
        return [mpmath.mpf(0)] * n + [mpmath.mpf(1)]
    a, b = mpmath.mpf(alpha), mpmath.mpf(beta)

    def rf(x, k):
        r = mpmath.mpf(1)
        for t in range(k):
            r *= (x + t)
        return r
    den = rf(a + b, ploidy)
    one = [math.comb(ploidy, k) * rf(a, k) * rf(b, ploidy - k) / den for k in range(ploidy + 1)]
    pmf = [mpmath.mpf(1)]
    for _ in range(nInd):
        new = [mpmath.mpf(0)] * (len(pmf) + ploidy)
        for i, p in enumerate(pmf):
            for k, q in enumerate(one):
                new[i + k] += p * q
        pmf = new
    return pmf


def drv_bbconv(tier):
    import mpmath
    from dadi import Numerics
    mpmath.mp.dps = 40
    nc = 240 if tier == 'quick' else 5000
    d = Driver('C05', 'bbconv', bound='Numerics.BetaBinomConvolution(i, nInd, alpha, beta, ploidy): %d random (nInd, ploidy, alpha, beta) with ploidy 2..8, '
               'nInd 1..20 for ploidy 2 and 1..6 otherwise (n<=40), alpha,beta log-uniform in [1e-6,1e6] plus the 1e-20-type end values dadi uses; '
               'all i in 0..n: value vs 40-digit rising-factorial convolution at relative 16 eps*(a+b)(1+log(a+b))*nInd+1e-12 (lgamma round-off) + 1e-13 absolute, '
               'sum over i = 1 at the same tolerance; nInd passed as int and as float' % nc)
    rng = d.rng
    for ci in range(nc):
        ploidy = 2 + ci % 7
        nInd = rng.randrange(1, 21 if ploidy == 2 else 7)
        while nInd * ploidy > 40:
            nInd -= 1
        if ci % 5 == 0:
            c = 10 ** rng.uniform(-3, 4)
            alpha, beta = rng.choice([(1e-20 * c, (1 - 1e-20) * c), ((1 - 1e-20) * c, 1e-20 * c)])
        else:
            alpha, beta = 10 ** rng.uniform(-6, 6), 10 ** rng.uniform(-6, 6)
        n = nInd * ploidy
        want = bb_conv_pmf(nInd, ploidy, alpha, beta)
        ni = float(nInd) if ci % 2 else nInd
        info = dict(nInd=nInd, ploidy=ploidy, alpha=alpha, beta=beta)
        try:
            got = [Numerics.BetaBinomConvolution(i, ni, alpha, beta, ploidy=ploidy) for i in range(n + 1)]
        except Exception as e:
            d.case((ci, 'exc'), False, dict(info, exception=repr(e)[:300]), fail_key='bbconv-exception')
            continue
        ab = max(1.0, alpha + beta)
        rel = 16 * EPS * ab * (1 + math.log(ab)) * nInd + 1e-12     # round-off of lgamma differences at magnitude ab*log(ab)
        err = max(abs(g - float(w)) - rel * float(w) for g, w in zip(got, want))
        d.case((nInd, ploidy, alpha, beta), err <= 1e-13, dict(info, err=err), fail_key='bbconv-value')
        s = math.fsum(got)
        d.case((nInd, ploidy, alpha, beta, 'sum'), abs(s - 1) <= 1e-13 * (n + 1) + rel, dict(info, sum=s), fail_key='bbconv-sum-to-one')
    return d.results()


def inbreeding_weights(n, xx, F, ploidy, het=False):
    """W[d, j] = w_j P(d | x_j, F, ploidy) [x_j(1-x_j)]: trapezoid weight times beta-binomial-convolution
    kernel (alpha = x (1-F)/F, beta = (1-x)(1-F)/F; point masses at the first/last grid point, which is
    what dadi's 1e-20 substitution stands for)."""
    import numpy, mpmath
    mpmath.mp.dps = 40
    nInd = n // ploidy
    w = trap_weights(xx)
    c = (mpmath.mpf(1) - mpmath.mpf(float(F))) / mpmath.mpf(float(F))
    W = numpy.zeros((n + 1, len(xx)))
    for j, x in enumerate(xx):
        if j == 0:
            pmf = bb_conv_pmf(nInd, ploidy, None, None, 'zero')
        elif j == len(xx) - 1:
            pmf = bb_conv_pmf(nInd, ploidy, None, None, 'one')
        else:
            pmf = bb_conv_pmf(nInd, ploidy, mpmath.mpf(float(x)) * c, (1 - mpmath.mpf(float(x))) * c)
        f = float(x) * (1 - float(x)) if het else 1.0
        for dd in range(n + 1):
            W[dd, j] = float(pmf[dd]) * w[j] * f
    return W


def drv_inbreeding(tier):
    import numpy
    from dadi import Spectrum
    nc = 120 if tier == 'quick' else 2400
    d = Driver('C05', 'inbreeding', bound='from_phi_inbreeding in 1-D, 2-D, 3-D: %d random cases; F in {1e-3..0.999} per population, ploidy 2..8, '
               'n = ploidy*nInd <= 24 (1-D), 12 (2-D), 8 (3-D), grids 3..12 / 3..8 / 3..5 points incl. overshoot, het_ascertained none/xx/yy/zz; '
               'value vs explicit trapezoid sum with 40-digit beta-binomial-convolution kernels at 1e-9*mass; sum over entries = trapezoid mass '
               '(no ascertainment); all F=0 equals from_phi(force_direct=True); one F=0 among non-zero F (in the stated domain F in [0,1)) '
               'must equal binomial sampling in that population; n not divisible by ploidy raises ValueError' % nc)
    _quiet()
    rng, nprng = d.rng, d.nprng()
    Fchoices = [1e-3, 0.01, 0.1, 0.3, 0.5, 0.9, 0.99, 0.999]
    for ci in range(nc):
        D = [1, 2, 1, 3, 2, 1][ci % 6]
        nmax, pr = {1: (24, (3, 12)), 2: (12, (3, 8)), 3: (8, (3, 5))}[D]
        ploidys = [rng.choice([2, 2, 3, 4, 5, 6, 7, 8]) for _ in range(D)]
        ns = [p * rng.randrange(1, max(1, nmax // p) + 1) for p in ploidys]
        Fs = [rng.choice(Fchoices) if ci % 4 else rng.uniform(1e-3, 0.999) for _ in range(D)]
        base = overshoot(make_grid(rng, rng.randrange(pr[0], pr[1] + 1), rng.choice(['uniform', 'default', 'random'])), [0, 0, 1, 3][ci % 4])
        xxs = [base.copy() for _ in range(D)]
        if ci % 3 == 0 and D > 1:
            xxs[-1] = make_grid(rng, rng.randrange(pr[0], pr[1] + 1), 'random')
        phi = make_phi(rng, nprng, xxs, PHI_KINDS[ci % len(PHI_KINDS)])
        het = [None, None, 'xx', 'yy', 'zz'][ci % 5]
        if het and ['xx', 'yy', 'zz'].index(het) >= D:
            het = None
        S, M = absmass(phi, xxs), mass(phi, xxs)
        info = _info(ns, xxs, phi, Fs=Fs, ploidys=ploidys, het=het)
        key = (D, ci, tuple(ns), tuple(ploidys), het)
        Ws = [inbreeding_weights(n, x, F, p, het=(het == ['xx', 'yy', 'zz'][a])) for a, (n, x, F, p) in enumerate(zip(ns, xxs, Fs, ploidys))]
        want = contract(Ws, phi)
        mc = bool(ci % 2)
        try:
            fs = Spectrum.from_phi_inbreeding(phi, ns, xxs, list(Fs), list(ploidys), mask_corners=mc, pop_ids=['u', 'v', 'w'][:D], het_ascertained=het)
        except Exception as e:
            d.case(key, False, dict(info, exception=repr(e)[:300]), fail_key='inbreeding-%dd-exception' % D)
            continue
        e = _maxerr(fs, want)
        tol = 1e-9 * S
        d.case(key, e <= tol, dict(info, err=e, tol=tol), fail_key='inbreeding-%dd-value' % D)
        _check_common(d, fs, ns, xxs, phi, key, want, ['u', 'v', 'w'][:D], mc, info)
        if het is None:
            tot = float(numpy.asarray(fs.data).sum())
            d.case(key + ('total',), abs(tot - M) <= tol * want.size, dict(info, total=tot, mass=M), fail_key='inbreeding-probabilities-sum-to-one')
        # all F = 0 -> from_phi(force_direct=True) (from_phi_inbreeding's default): compare with exact trapezoid weights
        if ci % 4 == 0:
            Ts = [direct_weights(n, x)[0] for n, x in zip(ns, xxs)]
            wd = contract(Ts, phi)

            def fn0():
                f0 = Spectrum.from_phi_inbreeding(phi, ns, xxs, [0] * D, list(ploidys), mask_corners=False)
                e0 = _maxerr(f0, wd)
                return e0 <= TOL_D * S * D, dict(err=e0)
            d.check(key + ('F=0',), fn0, info=dict(info, Fs=[0] * D), fail_key='inbreeding-allF0')
        # one population with F = 0 exactly, the others inbred: F in [0,1) is the stated domain
        if D >= 2 and ci % 2 == 0:
            a0 = rng.randrange(D)
            Fm = list(Fs)
            Fm[a0] = 0.0
            Wm = list(Ws) if het is None else [inbreeding_weights(n, x, F, p) for n, x, F, p in zip(ns, xxs, Fs, ploidys)]
            Wm[a0] = direct_weights(ns[a0], xxs[a0])[0]
            wm = contract(Wm, phi)

            def fnm(Fm=Fm, wm=wm):
                import warnings
                with warnings.catch_warnings():
                    warnings.simplefilter('ignore')
                    fm = Spectrum.from_phi_inbreeding(phi, ns, xxs, Fm, list(ploidys), mask_corners=False)
                em = _maxerr(fm, wm)
                return em <= 1e-9 * S, dict(err=em if math.isfinite(em) else 'non-finite', got_sample=repr(numpy.asarray(fm.data).ravel()[:4].tolist()))
            d.check(key + ('mixedF0', a0), fnm, info=dict(info, Fs=Fm), fail_key='inbreeding-mixed-zero-F')
        # n not divisible by ploidy: explicit refusal
        if ci % 6 == 1:
            nb = list(ns)
            nb[0] += 1
            if nb[0] % ploidys[0]:
                def fnb(nb=nb):
                    try:
                        Spectrum.from_phi_inbreeding(phi, nb, xxs, list(Fs), list(ploidys))
                    except ValueError:
                        return True, None
                    return False, dict(note='accepted')
                d.check(key + ('indivisible',), fnb, info=dict(info, ns=nb), fail_key='inbreeding-indivisible-accepted')
    return d.results()


def drv_inbreeding_limit(tier):
    """F -> 0: the beta-binomial with alpha+beta = c = (1-F)/F is a Polya urn in which the t-th draw copies an
    earlier one with probability (t-1)/(c+t-1); coupling with independent draws gives total variation
    <= nInd p (p-1) / (2c) per population, hence |inbred - direct| <= sum_k nInd_k p_k (p_k-1)/(2 c_k) * mass(|phi|)."""
    import numpy
    from dadi import Spectrum
    nc = 60 if tier == 'quick' else 1200
    d = Driver('C05', 'inbreeding_limit', bound='from_phi_inbreeding with F in {1e-3,1e-4,1e-5,1e-6} vs from_phi(force_direct=True), 1-D..3-D, %d random cases, '
               'ploidy 2..8, n<=16/8/6, grids 3..10 points: |difference| <= sum_k nInd_k p_k (p_k-1) F_k/(2(1-F_k)) * mass(|phi|) + 1e-8*mass '
               '(rigorous coupling bound + gammaln round-off); the direct spectrum itself is checked against exact weights in the other tasks' % nc)
    rng, nprng = d.rng, d.nprng()
    for ci in range(nc):
        D = 1 + ci % 3
        nmax, pr = {1: (16, (3, 10)), 2: (8, (3, 7)), 3: (6, (3, 5))}[D]
        ploidys = [rng.choice([2, 2, 3, 4, 6, 8]) for _ in range(D)]
        ns = [p * rng.randrange(1, max(1, nmax // p) + 1) for p in ploidys]
        F = [1e-3, 1e-4, 1e-5, 1e-6][(ci // 3) % 4]
        Fs = [F] * D
        xx = make_grid(rng, rng.randrange(pr[0], pr[1] + 1), rng.choice(['uniform', 'default', 'random']))
        xxs = [xx.copy() for _ in range(D)]
        phi = make_phi(rng, nprng, xxs, ['pos', 'smooth', 'snm', 'signed'][ci % 4])
        S = absmass(phi, xxs)
        info = _info(ns, xxs, phi, Fs=Fs, ploidys=ploidys)
        bound = sum((n // p) * p * (p - 1) * f / (2 * (1 - f)) for n, p, f in zip(ns, ploidys, Fs)) * S + 1e-8 * S

        def fn():
            fi = Spectrum.from_phi_inbreeding(phi, ns, xxs, Fs, ploidys, mask_corners=False)
            fd = Spectrum.from_phi(phi, ns, xxs, mask_corners=False, force_direct=True)
            e = _maxerr(fi, numpy.asarray(fd.data))
            return e <= bound, dict(diff=e, bound=bound)
        d.check((D, ci, tuple(ns), tuple(ploidys), F), fn, info=info, fail_key='inbreeding-F-to-0-limit')
    return d.results()
