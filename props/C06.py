"""C06 - Splits, admixture, pulses, removal and reordering conserve marginal densities

Contracts: the obligations listed in tasks() (contracts/py_wiring.py, contracts/py_memo.py, contracts/c_*.py) are generated from the real source on every run and
discharged by z3 / the ring normaliser; clauses outside their reach are run-time contracts over stated bounded domains (props/bounded_C06.py).
"""
from vf.helpers import bounded_tasks

META = dict(
    level='other',
    explanation='Wiring / closed-form / memo-key contracts generated from the real source and discharged by z3 and the ring normaliser for the functions within reach (see coverage.obligations); the remaining clauses are run-time contracts over the bounded domain stated per driver (bounded stand-in, never counted as proved).',
    trusted_base=['oracles of props/bounded_C06.py (independent of dadi: exact rationals, mpmath, dense linear algebra, explicit index loops)'],
    rule='cases enumerated or sampled as stated in each driver\'s bound; a case is non-trivial unless the driver marks it degenerate; distinct by its key',
)


def tasks(tier):
    from vf.core import Task
    from contracts.py_wiring import c06_pulse_functions
    pulses = [Task('props.wire:run', name='C06/wire.pulse_exec.' + q, fname='c06_pulse_exec', kwargs=dict(q=q), timeout=600) for q in c06_pulse_functions()]
    pulses += [Task('props.wire:run', name='C06/wire.pulse_exec.G3.' + q, fname='c06_pulse_exec', kwargs=dict(q=q, G=3), timeout=900) for q in c06_pulse_functions()]
    W_ = lambda name, fname, **kw: Task('props.wire:run', name='C06/wire.' + name, fname=fname, kwargs=kw, timeout=600)
    extra = [W_('simplex_guards', 'c06_simplex_guards')] + [W_('new_pop_exec.' + q, 'c06_new_pop_exec', q=q) for q in ('phi_2D_to_3D_admix', 'phi_3D_to_4D', 'phi_4D_to_5D')] + \
            [W_('new_pop_exec.G3.' + q, 'c06_new_pop_exec', q=q, G=3) for q in ('phi_2D_to_3D_admix', 'phi_3D_to_4D', 'phi_4D_to_5D')] + \
            [W_('phi_reorder.%dD' % K, 'c06_phi_reorder', K=K) for K in (2, 3, 4)] + \
            [W_('remove_pop.2D.1', 'c06_remove_filter', K=2, popnum=1), W_('remove_pop.3D.2', 'c06_remove_filter', K=3, popnum=2), W_('remove_pop.4D.4', 'c06_remove_filter', K=4, popnum=4),
             W_('filter_pops.3D.3_1', 'c06_remove_filter', K=3, tokeep=[3, 1]), W_('filter_pops.4D.2', 'c06_remove_filter', K=4, tokeep=[2])]
    return pulses + extra + [Task('props.wire:run', name='C06/wire.c06_pulse_roles', fname='c06_pulse_roles', timeout=300)] + [Task('props.wire:run', name='C06/wire.c06_admixture_intermediates.n3', fname='c06_admixture_intermediates', kwargs=dict(n=3), timeout=300), Task('props.wire:run', name='C06/wire.c06_admixture_intermediates.n4', fname='c06_admixture_intermediates', kwargs=dict(n=4), timeout=300), Task('props.wire:run', name='C06/wire.c06_admixture_intermediates.n5', fname='c06_admixture_intermediates', kwargs=dict(n=5), timeout=300)] + bounded_tasks('C06', tier)


MANIFEST_ENTRY = dict(
    category='other',
    engine='bounded',
    technique='sidecar contracts on the real functions: wiring / closed-form obligations from the AST discharged by z3 and the ring normaliser where the functions are within reach; bounded run-time contracts with independent oracles for the rest (never counted as proved)',
    text='Discharged from the real source on every run (all values, stated small shapes): deposition law of _admixture_intermediates (n=3,4,5), destination-grid/axis roles of the 14 pulse functions, every pulse function and the simplex guards of the four helpers (refusal only beyond a round-off allowance), every new-population constructor *executed* on 2- and 3-point-per-axis grids (bracket indices in general position) against the bracket-deposition (+ trapezoid) spec (helper by abstract result, fractions in population order); reorder_pops, remove_pop, filter_pops on phi incl. mass conservation. Bounded run-time contracts (never counted as proved): Deposition law and marginal conservation for every constructor and pulse function, simplex acceptance/rejection, removal and reordering.',
    note='bounded: see coverage.bounded.drivers[].bound in the evidence file for the exact domain of every driver',
)
