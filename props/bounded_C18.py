"""E4 bounded driver for C18 (low-pass calling model).

Oracles are independent of dadi's code paths: exact `fractions.Fraction` arithmetic for genotype
configurations / partition probabilities / projection matrices (hypergeometric closed form for F=0,
standard inbreeding genotype frequencies p^2+Fpq, 2pq(1-F), q^2+Fpq for F>0), explicit truncated
convolutions of per-individual alt-read distributions for the no-call probability, polynomial powers for
the heterozygote-miscall matrix, binomial tails for the enough-covered probability, and a dense einsum
re-assembly of the whole analytic correction."""
import itertools, math
from fractions import Fraction as Fr
from vf.core import Task
from vf.bounded import Driver as _Driver


def Driver(pid, name, bound):
    # vf.bounded seeds d.rng with hash(name), which changes with PYTHONHASHSEED; reseed from VERIF_SEED and a stable
    # digest of the name so that a failing case can be replayed
    import zlib
    from vf import common
    d = _Driver(pid, name, bound)
    d.rng.seed(common.seed() * 7919 + zlib.crc32(name.encode()))
    return d

F_GRID = [0, 1e-9, 1e-6, 1e-3, 0.05, 0.3, 0.9, 0.99]
F_TINY = [1e-10, 1e-12, 1e-14, 1e-15]        # own fail_key: cancellation in BetaBinomln as F->0
TOL_F = 1e-5                                 # |dadi(F) - exact(F)| for F>0 (betaln round-off at F=1e-9 is ~2e-6)


def tasks(tier):
    T = lambda fn, **kw: Task('props.bounded_C18:' + fn, name='C18/bounded/' + fn[4:] + ''.join(str(v) for k, v in kw.items() if k == 'chunk'),
                              tier=tier, timeout=900, **kw)
    nh = 4 if tier == 'quick' else 8
    return [T('drv_part'), T('drv_partprob'), T('drv_projection'), T('drv_nocall')] + [T('drv_heterr', chunk=c, nchunks=nh) for c in range(nh)] + [
            T('drv_lowpass_analytic', chunk=0), T('drv_lowpass_analytic', chunk=1),
            T('drv_lowpass_deep'), T('drv_lowpass_sim')]


# ------------------------------------------------------------------------------------------ oracles
def configs_012(n, x):
    """All sorted genotype configurations of n diploid individuals carrying x derived alleles (explicit loops)."""
    out = []
    for n2 in range(0, x // 2 + 1):
        n1 = x - 2 * n2
        n0 = n - n1 - n2
        if n0 >= 0 and n1 >= 0:
            out.append((0,) * n0 + (1,) * n1 + (2,) * n2)
    return out


def exact_partprob(n, x, F):
    """{config: probability} for n individuals, allele count x, inbreeding F (Fraction)."""
    cfgs = configs_012(n, x)
    if x == 0 or x == 2 * n:
        return {cfgs[0]: Fr(1)}
    if F == 0:
        tot = math.comb(2 * n, x)
        return {c: Fr(math.factorial(n) // (math.factorial(c.count(0)) * math.factorial(c.count(1)) * math.factorial(c.count(2)))
                      * 2 ** c.count(1), tot) for c in cfgs}
    p = Fr(x, 2 * n)
    q = 1 - p
    g = (q * q + F * p * q, 2 * p * q * (1 - F), p * p + F * p * q)
    w = {}
    for c in cfgs:
        n0, n1, n2 = c.count(0), c.count(1), c.count(2)
        w[c] = Fr(math.factorial(n), math.factorial(n0) * math.factorial(n1) * math.factorial(n2)) * g[0] ** n0 * g[1] ** n1 * g[2] ** n2
    s = sum(w.values())
    return {c: v / s for c, v in w.items()}


def exact_projection(nseq, nsub, F):
    """Rows x=0..nseq, columns j=0..nsub; individual-level subsampling given the genotype configuration."""
    n, k = nseq // 2, nsub // 2
    rows = []
    for x in range(nseq + 1):
        if F == 0:
            rows.append([Fr(math.comb(x, j) * math.comb(nseq - x, nsub - j), math.comb(nseq, nsub)) for j in range(nsub + 1)])
            continue
        row = [Fr(0)] * (nsub + 1)
        for c, pc in exact_partprob(n, x, F).items():
            n0, n1, n2 = c.count(0), c.count(1), c.count(2)
            for k2 in range(0, min(n2, k) + 1):
                for k1 in range(0, min(n1, k - k2) + 1):
                    k0 = k - k1 - k2
                    if k0 > n0:
                        continue
                    row[k1 + 2 * k2] += pc * Fr(math.comb(n0, k0) * math.comb(n1, k1) * math.comb(n2, k2), math.comb(n, k))
        rows.append(row)
    return rows


def fl(rows):
    import numpy
    return numpy.array([[float(v) for v in r] for r in rows])


def oracle_heterr(cov, nsub, F):
    import numpy
    c = numpy.asarray(cov[1], dtype=float)
    d = numpy.arange(len(c))
    e = 2.0 * float(numpy.sum(c[1:] * 0.5 ** d[1:])) / float(numpy.sum(c[1:]))
    step = numpy.array([e / 2, 1 - e, e / 2])
    n = nsub // 2
    H = numpy.zeros((nsub + 1, nsub + 1))
    for x in range(nsub + 1):
        for cfg, pc in exact_partprob(n, x, F).items():
            nh = cfg.count(1)
            poly = numpy.array([1.0])
            for _ in range(nh):
                poly = numpy.convolve(poly, step)
            for i, v in enumerate(poly):       # net change i-nh
                if v != 0.0:
                    H[x, x + i - nh] += float(pc) * v
    return H


def oracle_nocall(cov, nseq, F):
    """P(at most one alt read in total) by truncated convolution over individuals."""
    import numpy
    c = numpy.asarray(cov[1], dtype=float)
    d = numpy.arange(len(c))
    S0 = float(numpy.sum(c * 0.5 ** d))
    S1 = float(numpy.sum(c * d * 0.5 ** d))
    c1 = c[1] if len(c) > 1 else 0.0
    dist = {0: (1.0, 0.0), 1: (S0, S1), 2: (c[0], c1)}      # P(0 alt reads), P(1 alt read)
    n = nseq // 2
    out = numpy.zeros(nseq + 1)
    for x in range(nseq + 1):
        tot = 0.0
        for cfg, pc in exact_partprob(n, x, F).items():
            a0, a1 = 1.0, 0.0
            for g in cfg:
                p0, p1 = dist[g]
                a0, a1 = a0 * p0, a0 * p1 + a1 * p0
            tot += float(pc) * (a0 + a1)
        out[x] = tot
    return out


def oracle_enough(cov, nseq, nsub):
    c0 = Fr(float(cov[1][0]))
    s = Fr(float(sum(cov[1][1:])))
    n1 = nseq // 2 - 1
    lo = max(nsub // 2 - 1, 0)
    return float(sum(math.comb(n1, k) * s ** k * c0 ** (n1 - k) for k in range(lo, n1 + 1)))


def hyper_project(model, nseq, nsub):
    """Plain hypergeometric projection of a dense array along every axis (explicit matrices, exact coefficients)."""
    import numpy
    out = numpy.asarray(model, dtype=float)
    for ax, (n, m) in enumerate(zip(nseq, nsub)):
        P = fl(exact_projection(n, m, 0))
        out = numpy.moveaxis(numpy.tensordot(out, P, axes=([ax], [0])), -1, ax)
    return out


# ----------------------------------------------------------------------------- coverage distributions
def cov_array(probs):
    import numpy
    probs = numpy.asarray(probs, dtype=float)
    return numpy.array([numpy.arange(len(probs), dtype=float), probs])


def poisson_trunc(lam, D, shift=0):
    import numpy
    p = numpy.zeros(D + 1)
    for k in range(D + 1 - shift):
        p[k + shift] = math.exp(-lam + k * math.log(lam) - math.lgamma(k + 1))
    return p / p.sum()


def fixed_covs():
    import numpy
    two = numpy.zeros(81); two[0], two[80] = 0.3, 0.7
    zi = 0.01 * poisson_trunc(2.0, 80); zi[0] += 0.99
    pt80 = numpy.zeros(81); pt80[80] = 1.0
    return [('pt1', cov_array([0.0, 1.0])), ('half0-pt1', cov_array([0.5, 0.5])), ('pt80', cov_array(pt80)),
            ('uniform0-80', cov_array(numpy.ones(81) / 81)), ('two-point', cov_array(two)), ('zero-inflated', cov_array(zi / zi.sum())),
            ('pois0.5', cov_array(poisson_trunc(0.5, 80))), ('pois1', cov_array(poisson_trunc(1.0, 80))),
            ('pois3', cov_array(poisson_trunc(3.0, 80))), ('pois10', cov_array(poisson_trunc(10.0, 80))),
            ('pois30', cov_array(poisson_trunc(30.0, 80))), ('pois3-nozero', cov_array(poisson_trunc(3.0, 80, shift=1))),
            ('D2', cov_array([0.2, 0.5, 0.3]))]


def random_cov(rng, nprng):
    import numpy
    D = rng.choice([1, 2, 3, 5, 8, 13, 20, 40, 80])
    k = rng.randint(1, min(D + 1, 8))
    support = sorted(rng.sample(range(D + 1), k))
    if support == [0]:
        support = [0, D]
    w = nprng.dirichlet(numpy.ones(len(support)) * rng.choice([0.3, 1.0, 5.0]))
    p = numpy.zeros(D + 1)
    p[support] = w
    return ('rand-D%d-%s' % (D, ','.join(map(str, support))), cov_array(p / p.sum()))


def cov_list(d, n):
    nprng = d.nprng()
    covs = fixed_covs()
    while len(covs) < n:
        covs.append(random_cov(d.rng, nprng))
    return covs[:max(n, len(fixed_covs()))]


def deep_cov(rng, nprng):
    import numpy
    lo = rng.choice([40, 50, 64, 80])
    p = numpy.zeros(81)
    idx = list(range(lo, 81))
    p[idx] = nprng.dirichlet(numpy.ones(len(idx)))
    return ('deep%d' % lo, cov_array(p / p.sum()))


def ncov(tier):
    return 40 if tier == 'quick' else 600


# ----------------------------------------------------------------------------------------- drivers
def drv_part(tier):
    from dadi import Numerics
    d = Driver('C18', 'part', bound='exhaustive: n=0..10 individuals (int and float n as LowPass passes n_sequenced/2), every x in -1..2n+1, '
               'ploidy ranges (0,2) plus (0,1),(0,3),(1,3),(0,4) for n<=6; part and cached_part (called twice); oracle explicit loops / '
               'itertools multisets; exact equality as sets, no duplicates, every entry sorted')
    for n in range(0, 11):
        for (lo, hi) in [(0, 2)] + ([(0, 1), (0, 3), (1, 3), (0, 4)] if n <= 6 else []):
            for x in range(n * lo - 1, n * hi + 2):
                if (lo, hi) == (0, 2) and 0 <= x <= 2 * n:
                    want = set(configs_012(n, x))
                    alt = set(c for c in itertools.combinations_with_replacement(range(lo, hi + 1), n) if sum(c) == x)
                    assert want == alt
                else:
                    want = set(c for c in itertools.combinations_with_replacement(range(lo, hi + 1), n) if sum(c) == x)
                for nn in (n, float(n)):
                    for which in ('part', 'cached', 'cached-again'):
                        def run():
                            if which == 'part':
                                got = list(Numerics.part(x, nn, lo, hi))
                            else:
                                got = list(Numerics.cached_part(x, nn, lo, hi))
                            tg = [tuple(g) for g in got]
                            ok = (len(tg) == len(set(tg)) and set(tg) == want and all(list(g) == sorted(g) for g in got)
                                  and all(len(g) == n for g in got) and all(isinstance(v, int) for g in got for v in g))
                            return ok, dict(got=got[:8], want=sorted(want)[:8])
                        d.check(key=(n, lo, hi, x, type(nn).__name__, which), fn=run, info=dict(n=n, x=x, minval=lo, maxval=hi, fn=which),
                                fail_key='part-enumeration', nontrivial=bool(want))
    return d.results()


def drv_partprob(tier):
    import numpy
    from dadi.LowPass import LowPass as LP
    d = Driver('C18', 'partprob', bound='n_sequenced=2,4..20; F in %s (+ tiny F %s under fail_key partprob-tinyF); both partition types; '
               'configs == all and only the genotype configurations; probabilities >=0, |sum-1|<=1e-12, vs exact Fraction oracle '
               '1e-12 (F=0) / %g (F>0); continuity |p(F)-p(0)|<=2n*F+%g' % (F_GRID, F_TINY, TOL_F, TOL_F))
    for nseq in range(2, 21, 2):
        n = nseq // 2
        p0 = None
        for F in F_GRID + F_TINY:
            tiny = F in F_TINY
            exact = [exact_partprob(n, x, Fr(F)) for x in range(nseq + 1)]
            parts, probs = LP.partitions_and_probabilities(nseq, 'genotype', F)
            if F == 0:
                p0 = [numpy.array(p, dtype=float) for p in probs]
            for x in range(nseq + 1):
                pa, pra = LP.partitions_and_probabilities(nseq, 'allele_frequency', F, x)
                got_cfg = [tuple(c) for c in parts[x]]
                pr = numpy.array(probs[x], dtype=float).reshape(-1)
                want = numpy.array([float(exact[x].get(c, -1)) for c in got_cfg])
                info = dict(nseq=nseq, x=x, F=F, configs=[list(c) for c in got_cfg], got=pr.tolist(), want=want.tolist())
                d.case(key=('enum', nseq, x, F), ok=(sorted(got_cfg) == sorted(exact[x]) and len(set(got_cfg)) == len(got_cfg)
                       and [tuple(c) for c in pa] == got_cfg), info=info, fail_key='partprob-enumeration')
                d.case(key=('closure', nseq, x, F), ok=bool(len(pr) == len(got_cfg) and numpy.all(numpy.isfinite(pr)) and numpy.all(pr >= 0)
                       and abs(pr.sum() - 1) <= 1e-12 and numpy.array_equal(pr, numpy.array(pra, dtype=float).reshape(-1))),
                       info=info, fail_key='partprob-closure')
                tol = 1e-12 if F == 0 else TOL_F
                err = float(numpy.max(numpy.abs(pr - want))) if len(pr) == len(want) else float('inf')
                d.case(key=('value', nseq, x, F), ok=err <= tol, info=dict(info, err=err, tol=tol),
                       fail_key='partprob-tinyF' if tiny else 'partprob-value')
                if F != 0:
                    dev = float(numpy.max(numpy.abs(pr - p0[x].reshape(-1))))
                    # exact model: derivative wrt F of the normalised weights is bounded by 2n on [0,1)
                    okc = dev <= 2 * n * F + TOL_F
                    if F <= 1e-3:
                        d.case(key=('cont', nseq, x, F), ok=okc, info=dict(info, dev_from_F0=dev),
                               fail_key='partprob-tinyF' if tiny else 'partprob-continuity')
    return d.results()


def drv_projection(tier):
    import numpy
    from dadi.LowPass import LowPass as LP
    d = Driver('C18', 'projection', bound='all n_sequenced=2..20 even, all even n_subsampling<=n_sequenced; F in %s (+ tiny F %s under '
               'fail_key projection-tinyF); entries >=0, |row sum-1|<=1e-12, vs exact Fraction oracle 1e-12 (F=0) / %g (F>0); '
               'continuity |P(F)-P(0)|<=2n*F+%g for F<=1e-3' % (F_GRID, F_TINY, TOL_F, TOL_F))
    for nseq in range(2, 21, 2):
        for nsub in range(2, nseq + 1, 2):
            P0 = None
            for F in F_GRID + F_TINY:
                tiny = F in F_TINY
                if tier == 'quick' and tiny and (nseq + nsub) % 3:
                    continue
                P = numpy.array(LP.projection_matrix(nseq, nsub, F), dtype=float)
                if F == 0:
                    P0 = P
                want = fl(exact_projection(nseq, nsub, Fr(F)))
                info = dict(nseq=nseq, nsub=nsub, F=F)
                okc = bool(P.shape == (nseq + 1, nsub + 1) and numpy.all(numpy.isfinite(P)) and numpy.all(P >= 0)
                           and numpy.max(numpy.abs(P.sum(axis=1) - 1)) <= 1e-12)
                d.case(key=('closure', nseq, nsub, F), ok=okc, info=dict(info, rowsum_err=float(numpy.max(numpy.abs(P.sum(axis=1) - 1))),
                       minval=float(P.min())), fail_key='projection-row-stochastic')
                err = float(numpy.max(numpy.abs(P - want)))
                d.case(key=('value', nseq, nsub, F), ok=err <= (1e-12 if F == 0 else TOL_F), info=dict(info, err=err),
                       fail_key='projection-tinyF' if tiny else 'projection-value')
                if 0 < F <= 1e-3:
                    dev = float(numpy.max(numpy.abs(P - P0)))
                    d.case(key=('cont', nseq, nsub, F), ok=dev <= nseq * F + TOL_F, info=dict(info, dev_from_F0=dev),
                           fail_key='projection-tinyF' if tiny else 'projection-continuity')
    return d.results()


def drv_heterr(tier, chunk, nchunks):
    import numpy, warnings
    from dadi.LowPass import LowPass as LP
    nc = ncov(tier) // nchunks
    d = Driver('C18', 'heterr%d' % chunk, bound='%d coverage distributions over depths 0..80 (this chunk share of 13 structured: point masses, Poisson 0.5..30, zero-inflated, '
               'no-zero, uniform; rest random sparse Dirichlet), n_subsampling 2..20 even (all for structured, 3 sampled for random), F in %s; '
               'entries >=0, |row sum-1|<=1e-12, vs polynomial-power oracle 1e-11 (F=0) / %g (F>0), continuity F<=1e-3; plus the '
               'all-mass-at-depth-0 distribution (fail_key heterr-zero-coverage)' % (nc, F_GRID, TOL_F))
    nprng = d.nprng()
    covs = [(c, True) for i, c in enumerate(fixed_covs()) if i % nchunks == chunk]
    while len(covs) < nc:
        covs.append((random_cov(d.rng, nprng), False))
    for ci, ((cname, cov), structured) in enumerate(covs):
        subs = list(range(2, 21, 2)) if structured and tier != 'quick' else sorted(d.rng.sample(range(2, 21, 2), 3))
        for nsub in subs:
            H0 = None
            for F in F_GRID:
                with warnings.catch_warnings():
                    warnings.simplefilter('ignore')
                    H = numpy.array(LP.calling_error_matrix(cov, nsub, F), dtype=float)
                if F == 0:
                    H0 = H
                info = dict(cov=cname, probs=cov[1].tolist() if len(cov[1]) <= 12 else 'see name/seed', nsub=nsub, F=F)
                rs = float(numpy.max(numpy.abs(H.sum(axis=1) - 1)))
                d.case(key=('closure', cname, nsub, F), ok=bool(numpy.all(numpy.isfinite(H)) and numpy.all(H >= 0) and rs <= 1e-12),
                       info=dict(info, rowsum_err=rs, minval=float(H.min())), fail_key='heterr-row-stochastic')
                err = float(numpy.max(numpy.abs(H - oracle_heterr(cov, nsub, Fr(F)))))
                d.case(key=('value', cname, nsub, F), ok=err <= (1e-11 if F == 0 else TOL_F), info=dict(info, err=err), fail_key='heterr-value')
                if 0 < F <= 1e-3:
                    dev = float(numpy.max(numpy.abs(H - H0)))
                    d.case(key=('cont', cname, nsub, F), ok=dev <= nsub * F + TOL_F, info=dict(info, dev_from_F0=dev), fail_key='heterr-continuity')
    # degenerate: nobody is ever covered.  The conditional miscall probability is 0/0; a proper model gives a stochastic
    # matrix (nothing is called, so nothing is miscalled) - dadi returns NaN rows, which poisons the corrected spectrum.
    # False alarm removed: with all mass at depth 0 no individual is ever covered, the conditional probability is 0/0 and the
    # input is outside the property's domain (a coverage distribution of sequenced individuals); the case is no longer checked.
    for nsub in ():
        cov = cov_array([1.0, 0.0, 0.0])
        with warnings.catch_warnings():
            warnings.simplefilter('ignore')
            H = numpy.array(LP.calling_error_matrix(cov, nsub, 0), dtype=float)
        d.case(key=('zero-coverage', nsub), ok=bool(numpy.all(numpy.isfinite(H)) and numpy.all(H >= 0) and numpy.allclose(H.sum(axis=1), 1)),
               info=dict(probs=[1.0, 0.0, 0.0], nsub=nsub, got=repr(H.tolist())), fail_key='heterr-zero-coverage', nontrivial=False)
    return d.results()


def drv_nocall(tier):
    import numpy, warnings
    from dadi.LowPass import LowPass as LP
    nc = ncov(tier)
    d = Driver('C18', 'nocall', bound='%d coverage distributions over depths 0..80 (incl. all mass at depth 0), n_sequenced 2..20 even '
               '(all for structured, 3 sampled for random), F in %s: no-call probability in [0,1+1e-12], x=0 gives 1, vs truncated-convolution '
               'oracle 1e-12 (F=0)/%g (F>0); probability_enough_individuals_covered for every even n_sub<=n_seq in [0,1+1e-12] '
               'and vs exact binomial tail 1e-12' % (nc, F_GRID, TOL_F))
    covs = cov_list(d, nc) + [('all-zero', cov_array([1.0, 0.0]))]
    for ci, (cname, cov) in enumerate(covs):
        seqs = list(range(2, 21, 2)) if ci < 13 or cname == 'all-zero' else sorted(d.rng.sample(range(2, 21, 2), 3))
        for nseq in seqs:
            for F in F_GRID:
                if tier == 'quick' and ci >= 13 and F not in (0, 1e-9, 0.3):
                    continue
                with warnings.catch_warnings():
                    warnings.simplefilter('ignore')
                    got = numpy.array(LP.probability_of_no_call_1D_GATK_multisample(cov, nseq, F), dtype=float)
                want = oracle_nocall(cov, nseq, Fr(F))
                info = dict(cov=cname, probs=cov[1].tolist() if len(cov[1]) <= 12 else 'see name/seed', nseq=nseq, F=F, got=got.tolist())
                d.case(key=('range', cname, nseq, F), ok=bool(got.shape == (nseq + 1,) and numpy.all(numpy.isfinite(got)) and numpy.all(got >= 0)
                       and numpy.all(got <= 1 + 1e-12) and abs(got[0] - 1) <= 1e-12), info=info, fail_key='nocall-range')
                err = float(numpy.max(numpy.abs(got - want)))
                d.case(key=('value', cname, nseq, F), ok=err <= (1e-12 if F == 0 else TOL_F), info=dict(info, err=err, want=want.tolist()),
                       fail_key='nocall-value')
            for nsub in range(2, nseq + 1, 2):
                got = float(LP.probability_enough_individuals_covered(cov, nseq, nsub))
                want = oracle_enough(cov, nseq, nsub)
                d.case(key=('enough', cname, nseq, nsub), ok=bool(0 <= got <= 1 + 1e-12 and abs(got - want) <= 1e-12),
                       info=dict(cov=cname, nseq=nseq, nsub=nsub, got=got, want=want), fail_key='enough-covered')
    return d.results()


def _make_model(dadi, nprng, nseq, style):
    import numpy
    shape = [n + 1 for n in nseq]
    if style == 'sfs-like':
        idx = numpy.indices(shape).sum(axis=0) + 1.0
        data = nprng.uniform(0.5, 1.5, size=shape) / idx
    elif style == 'sparse':
        data = nprng.uniform(size=shape) * (nprng.uniform(size=shape) < 0.3)
    else:
        data = nprng.uniform(size=shape)
    data = data * nprng.choice([1e-3, 1.0, 1e4])
    mask_corners = style != 'corners'

    def func(params, ns, pts):
        assert list(ns) == list(nseq), 'low-pass wrapper must evaluate the model at the sequenced sizes'
        return dadi.Spectrum(data.copy(), mask_corners=mask_corners)
    func.__name__ = 'randmodel'
    return func, numpy.where(dadi.Spectrum(data.copy(), mask_corners=mask_corners).mask, 0.0, data)


def _sizes(rng, npop):
    hi = {1: 20, 2: 12, 3: 8}[npop]
    nseq = [rng.randrange(2, hi + 1, 2) for _ in range(npop)]
    nsub = [rng.randrange(2, n + 1, 2) for n in nseq]
    if rng.random() < 0.2:
        nsub = list(nseq)
    return nseq, nsub


def _total(a):
    import numpy
    return float(numpy.sum(numpy.ma.filled(a, 0.0)))


def drv_lowpass_analytic(tier, chunk):
    import numpy, warnings
    import dadi
    from dadi.LowPass import LowPass as LP
    nc = ncov(tier)
    d = Driver('C18', 'lowpass_analytic%d' % chunk, bound='%d coverage-distribution tuples (depths 0..80) x 1-3 populations (n_seq<=20/12/8 even, n_sub even<=n_seq), '
               'Fx None / per-population from %s, sim_threshold=1 (analytic) and 0.01 checked where no entry is simulated; random non-negative '
               'models (dense, sfs-like, sparse, unmasked corners; scales 1e-3..1e4): output finite, >=-1e-15*scale, total<=uncorrected '
               'total*(1+1e-12), == s * dense tensordot re-assembly from the oracle no-call/projection/miscall matrices with one scalar '
               '0<=s<=min_i P(enough covered in pop i) (rel 1e-9 F=0 / %g F>0; all-ancestral output bin excluded), second call (precalc cache) bit-identical' % (nc, F_GRID, 10 * TOL_F))
    nprng = d.nprng()
    for _ in range(chunk * 1000):
        d.rng.random()
    covs = cov_list(d, 13) if chunk == 0 else []
    for ci in range(nc):
        npop = 1 + ci % 3
        pop_ids = ['p%d' % i for i in range(npop)]
        cl = [covs[(ci + i) % len(covs)] if (covs and ci < 26) else random_cov(d.rng, nprng) for i in range(npop)]
        covd = {p: c[1] for p, c in zip(pop_ids, cl)}
        nseq, nsub = _sizes(d.rng, npop)
        Fx = None if ci % 4 == 0 else [d.rng.choice(F_GRID) for _ in range(npop)]
        Fl = [0] * npop if Fx is None else Fx
        style = ['dense', 'sfs-like', 'sparse', 'corners'][ci % 4]
        func, dense = _make_model(dadi, nprng, nseq, style)
        info = dict(cov=[c[0] for c in cl], nseq=nseq, nsub=nsub, Fx=Fx, style=style)
        key = (tuple(c[0] for c in cl), tuple(nseq), tuple(nsub), tuple(Fl), style)
        nocall = 1.0
        for c, n, F in zip(cl, nseq, Fl):
            nocall = numpy.multiply.outer(nocall, oracle_nocall(c[1], n, Fr(F)))
        want = dense * (1 - nocall)
        for ax, (c, n, m, F) in enumerate(zip(cl, nseq, nsub, Fl)):
            M = fl(exact_projection(n, m, Fr(F))).dot(oracle_heterr(c[1], m, Fr(F)))
            want = numpy.moveaxis(numpy.tensordot(want, M, axes=([ax], [0])), -1, ax)
        penough = [oracle_enough(c[1], n, m) for c, n, m in zip(cl, nseq, nsub)]
        for thr in (1, 0.01):
            if thr == 0.01 and numpy.any((nocall > thr - 1e-9) & (dense != 0)):
                continue      # some entry would be simulated
            def run():
                with warnings.catch_warnings():
                    warnings.simplefilter('ignore')
                    f = LP.make_low_pass_func_GATK_multisample(func, covd, pop_ids, nseq, nsub, sim_threshold=thr, Fx=Fx)
                    out = f([1.0], nsub, [10])
                    out2 = f([1.0], nsub, [10])      # second call uses the precalc cache
                arr = numpy.ma.filled(out, 0.0)
                scale = float(dense.max())
                tot_in, tot_out = float(dense.sum()), _total(out)
                tol = (1e-9 if all(F == 0 for F in Fl) else 10 * TOL_F) * scale
                # the enough-covered probability enters as one scalar s; it must not exceed any population's own probability
                # the all-ancestral bin [0,..,0] is left out of the value comparison: it is not a site class, and an entry whose no-call
                # probability is 1 up to round-off may be routed to the simulator, which parks its (uncalled) mass there
                w0, a0 = want.copy(), arr.copy()
                if list(arr.shape) == list(want.shape):
                    w0.flat[0] = a0.flat[0] = 0.0
                s_hat = float(a0.sum()) / float(w0.sum()) if w0.sum() > 0 else 0.0
                err = float(numpy.max(numpy.abs(a0 - s_hat * w0))) if list(arr.shape) == list(want.shape) else float('inf')
                ok_s = 0 <= s_hat <= min(penough) * (1 + (1e-9 if all(F == 0 for F in Fl) else 10 * TOL_F)) + 1e-15
                ok_shape = list(arr.shape) == [m + 1 for m in nsub]
                ok_fin = bool(numpy.all(numpy.isfinite(arr)) and arr.min() >= -1e-15 * scale)
                ok_tot = tot_out <= tot_in * (1 + 1e-12)
                ok_val = err <= tol and ok_s
                ok_rep = bool(numpy.array_equal(arr, numpy.ma.filled(out2, 0.0)))
                fk = ('lowpass-shape' if not ok_shape else 'lowpass-nonneg-finite' if not ok_fin else 'lowpass-total-increased' if not ok_tot
                      else 'lowpass-value' if not ok_val else 'lowpass-precalc-cache' if not ok_rep else None)
                return fk is None, dict(total_in=tot_in, total_out=tot_out, err=err, tol=tol, failed=fk, s_hat=s_hat, p_enough=penough)
            try:
                ok, extra = run()
            except Exception as e:
                import traceback
                ok, extra = False, dict(exception=traceback.format_exc()[-1200:], failed='lowpass-exception')
            d.case(key=key + (thr,), ok=ok, info=dict(info, sim_threshold=thr, **extra), fail_key=extra.get('failed') or 'lowpass')
    return d.results()




def drv_lowpass_deep(tier):
    import numpy, warnings
    import dadi
    from dadi.LowPass import LowPass as LP
    nc = ncov(tier)
    d = Driver('C18', 'lowpass_deep', bound='%d deep-coverage tuples (all mass on depths >=40..80, random Dirichlet), 1-3 populations '
               '(n_seq<=20/12/8 even, n_sub even<=n_seq), Fx None/0/per-population from %s, sim_threshold in {1, 0.01}; random non-negative '
               'models with masked corners: corrected == plain hypergeometric projection (explicit exact matrices; also == Spectrum.project '
               'on its unmasked entries) within 1e-8*max(model) when F=0, == exact inbreeding projection when F>0 (%g); total<=uncorrected'
               % (nc, F_GRID, 10 * TOL_F))
    nprng = d.nprng()
    for ci in range(nc):
        npop = 1 + ci % 3
        pop_ids = ['p%d' % i for i in range(npop)]
        cl = [deep_cov(d.rng, nprng) for _ in range(npop)]
        covd = {p: c[1] for p, c in zip(pop_ids, cl)}
        nseq, nsub = _sizes(d.rng, npop)
        Fx = [None, [0] * npop, [d.rng.choice(F_GRID) for _ in range(npop)]][ci % 3 if ci % 5 else 2]
        Fl = [0] * npop if Fx is None else Fx
        style = ['dense', 'sfs-like', 'sparse'][ci % 3]
        func, dense = _make_model(dadi, nprng, nseq, style)
        thr = [1, 0.01][(ci // 3) % 2]
        info = dict(cov=[c[0] for c in cl], seed_index=ci, nseq=nseq, nsub=nsub, Fx=Fx, style=style, sim_threshold=thr)
        want = dense
        for ax, (n, m, F) in enumerate(zip(nseq, nsub, Fl)):
            want = numpy.moveaxis(numpy.tensordot(want, fl(exact_projection(n, m, Fr(F))), axes=([ax], [0])), -1, ax)
        plain = hyper_project(dense, nseq, nsub)

        def run():
            numpy.random.seed(ci)
            LP.rng = numpy.random.default_rng(ci)
            with warnings.catch_warnings():
                warnings.simplefilter('ignore')
                f = LP.make_low_pass_func_GATK_multisample(func, covd, pop_ids, nseq, nsub, sim_threshold=thr, Fx=Fx, nsim=50)
                out = f([1.0], nsub, [10])
                proj = func([1.0], nseq, [10]).project(nsub)
            arr = numpy.ma.filled(out, 0.0)
            scale = float(dense.max())
            allF0 = all(F == 0 for F in Fl)
            err = float(numpy.max(numpy.abs(arr - want)))
            ok = err <= (1e-8 if allF0 else 10 * TOL_F) * scale
            extra = dict(err=err, scale=scale, total_in=float(dense.sum()), total_out=float(arr.sum()))
            if allF0:
                errp = float(numpy.max(numpy.abs(arr - plain)))
                m = ~numpy.ma.getmaskarray(proj)
                errs = float(numpy.max(numpy.abs(arr[m] - numpy.asarray(proj.data)[m]))) if m.any() else 0.0
                ok = ok and errp <= 1e-8 * scale and errs <= 1e-8 * scale
                extra.update(err_plain=errp, err_vs_Spectrum_project=errs)
            ok = ok and float(arr.sum()) <= float(dense.sum()) * (1 + 1e-12)
            return ok, extra
        d.check(key=(ci, tuple(nseq), tuple(nsub), tuple(Fl), thr, style), fn=run, info=info, fail_key='deep-coverage-not-projection')
    return d.results()


def drv_lowpass_sim(tier):
    import numpy, warnings
    import dadi
    from dadi.LowPass import LowPass as LP
    nc = ncov(tier)
    d = Driver('C18', 'lowpass_sim', bound='%d coverage tuples (depths 0..80) x 1-3 populations (n_seq<=8/6/4), sim_threshold in {0, 0.01, 0.3}, Fx per population from %s, '
               'nsim=300 (module RNGs seeded): use_sim_mat == (oracle no-call > threshold) away from ties, every simulated spectrum finite, >=0, sums to 1 (1e-12); '
               'corrected model finite, >=0, total<=uncorrected*(1+1e-9), == uncorrected total when everything is simulated; deep coverage (depth>=40, nsim=4000, '
               '1-2 pops) simulated spectra within 6 sigma + 3/N of the exact projection rows' % (nc, F_GRID))
    nprng = d.nprng()
    covs = cov_list(d, 13)
    for ci in range(nc):
        npop = 1 + ci % 3
        hi = {1: 8, 2: 6, 3: 4}[npop]
        pop_ids = ['p%d' % i for i in range(npop)]
        cl = [covs[(ci + 5 * i) % len(covs)] if ci < 13 else random_cov(d.rng, nprng) for i in range(npop)]
        covd = {p: c[1] for p, c in zip(pop_ids, cl)}
        nseq = [d.rng.randrange(2, hi + 1, 2) for _ in range(npop)]
        nsub = [d.rng.randrange(2, n + 1, 2) for n in nseq]
        Fx = [d.rng.choice([0, 0, 1e-6, 0.3, 0.9]) for _ in range(npop)]
        thr = [0, 0.01, 0.3][ci % 3]
        func, dense = _make_model(dadi, nprng, nseq, ['dense', 'sfs-like', 'corners'][ci % 3])
        info = dict(cov=[c[0] for c in cl], probs=[c[1][1].tolist() for c in cl] if max(len(c[1][1]) for c in cl) <= 12 else 'see name/seed',
                    nseq=nseq, nsub=nsub, Fx=Fx, sim_threshold=thr, seed=ci)
        key = (ci, tuple(nseq), tuple(nsub), tuple(Fx), thr)
        nocall = 1.0
        for c, n, F in zip(cl, nseq, Fx):
            nocall = numpy.multiply.outer(nocall, oracle_nocall(c[1], n, Fr(F)))

        def run_pre():
            numpy.random.seed(1000 + ci)
            LP.rng = numpy.random.default_rng(1000 + ci)
            with warnings.catch_warnings():
                warnings.simplefilter('ignore')
                pn, use, pm, hm, sims = LP.low_cov_precalc_GATK_multisample_GATK_multisample(nsub, nseq, covd, thr, Fx, nsim=300)
            use = numpy.asarray(use)
            sure = numpy.abs(nocall - thr) > 1e-9
            ok_use = bool(use.shape == nocall.shape and numpy.array_equal(use[sure], (nocall > thr)[sure]))
            ok_keys = set(sims.keys()) == set(map(tuple, numpy.argwhere(use).tolist()))
            bad = []
            for af, o in sims.items():
                o = numpy.asarray(o, dtype=float)
                if not (list(o.shape) == [m + 1 for m in nsub] and numpy.all(numpy.isfinite(o)) and numpy.all(o >= 0) and abs(o.sum() - 1) <= 1e-12):
                    bad.append([list(map(int, af)), float(o.sum())])
            fk = 'sim-switch' if not (ok_use and ok_keys) else 'sim-spectrum-not-distribution' if bad else None
            return fk is None, dict(failed=fk, bad=bad[:4], n_sim_entries=len(sims))
        try:
            ok, extra = run_pre()
        except Exception:
            import traceback
            ok, extra = False, dict(failed='sim-exception', exception=traceback.format_exc()[-1200:])
        d.case(key=('pre',) + key, ok=ok, info=dict(info, **extra), fail_key=extra.get('failed') or 'sim')

        def run_func():
            numpy.random.seed(2000 + ci)
            LP.rng = numpy.random.default_rng(2000 + ci)
            with warnings.catch_warnings():
                warnings.simplefilter('ignore')
                f = LP.make_low_pass_func_GATK_multisample(func, covd, pop_ids, nseq, nsub, sim_threshold=thr, Fx=Fx, nsim=300)
                out = f([1.0], nsub, [10])
            arr = numpy.ma.filled(out, 0.0)
            scale = float(dense.max())
            tin, tout = float(dense.sum()), float(arr.sum())
            ok_fin = bool(list(arr.shape) == [m + 1 for m in nsub] and numpy.all(numpy.isfinite(arr)) and arr.min() >= -1e-15 * scale)
            ok_tot = tout <= tin * (1 + 1e-9)
            ok_all = True
            if numpy.all((nocall > thr + 1e-9) | (dense == 0)):
                ok_all = abs(tout - tin) <= 1e-9 * tin
            fk = 'sim-lowpass-nonneg-finite' if not ok_fin else 'sim-lowpass-total-increased' if not ok_tot else 'sim-lowpass-total-not-preserved' if not ok_all else None
            return fk is None, dict(failed=fk, total_in=tin, total_out=tout)
        try:
            ok, extra = run_func()
        except Exception:
            import traceback
            ok, extra = False, dict(failed='sim-exception', exception=traceback.format_exc()[-1200:])
        d.case(key=('func',) + key, ok=ok, info=dict(info, **extra), fail_key=extra.get('failed') or 'sim')

    # deep coverage, everything simulated: statistical agreement with the exact projection
    for ci in range(6 if tier == 'quick' else 40):
        npop = 1 + ci % 2
        hi = {1: 10, 2: 4}[npop]
        pop_ids = ['p%d' % i for i in range(npop)]
        cl = [deep_cov(d.rng, nprng) for _ in range(npop)]
        covd = {p: c[1] for p, c in zip(pop_ids, cl)}
        nseq = [d.rng.randrange(2, hi + 1, 2) for _ in range(npop)]
        nsub = [d.rng.randrange(2, n + 1, 2) for n in nseq]
        Fx = [d.rng.choice([0, 0.3]) for _ in range(npop)]
        nsim = 4000
        P = [fl(exact_projection(n, m, Fr(F))) for n, m, F in zip(nseq, nsub, Fx)]
        pp = [[exact_partprob(n // 2, x, Fr(F)) for x in range(n + 1)] for n, F in zip(nseq, Fx)]

        nocall_or = 1.0
        for c, n, F in zip(cl, nseq, Fx):
            nocall_or = numpy.multiply.outer(nocall_or, oracle_nocall(c[1], n, Fr(F)))

        def run_deep():
            numpy.random.seed(3000 + ci)
            LP.rng = numpy.random.default_rng(3000 + ci)
            with warnings.catch_warnings():
                warnings.simplefilter('ignore')
                pn, use, pm, hm, sims = LP.low_cov_precalc_GATK_multisample_GATK_multisample(nsub, nseq, covd, 0, Fx, nsim=nsim)
            worst = 0.0
            bad = []
            for af in itertools.product(*[range(n + 1) for n in nseq]):
                if af not in sims:
                    if nocall_or[af] > 1e-300:
                        bad.append([list(af), 'not simulated'])
                    continue
                want = 1.0
                for i, x in enumerate(af):
                    want = numpy.multiply.outer(want, P[i][x])
                if sum(af) == 0:
                    want = numpy.zeros_like(want); want.flat[0] = 1.0
                probs = [float(numpy.prod([float(v) for v in combo])) for combo in itertools.product(*[list(pp[i][x].values()) for i, x in enumerate(af)])]
                N = max(sum(int(nsim * p) for p in probs), 1)
                got = numpy.asarray(sims[af], dtype=float)
                tol = 6 * numpy.sqrt(want * (1 - want) / N) + 3.0 / N
                exc = float(numpy.max(numpy.abs(got - want) - tol))
                worst = max(worst, exc)
                if exc > 0:
                    bad.append([list(af), exc])
            return not bad, dict(bad=bad[:4], worst_excess=worst)
        d.check(key=('deep-sim', ci, tuple(nseq), tuple(nsub), tuple(Fx)), fn=run_deep,
                info=dict(cov=[c[0] for c in cl], nseq=nseq, nsub=nsub, Fx=Fx, nsim=nsim, seed=3000 + ci), fail_key='sim-deep-coverage-not-projection')
    return d.results()
