"""Task entry point for the contracts in contracts/py_wiring.py"""


def run(fname, kwargs=None):
    from contracts import py_wiring as W
    return getattr(W, fname)(**(kwargs or {}))
