"""C16 - Demes graphs and native dadi models give the same spectrum in any units or order

Contracts: the obligations listed in tasks() (contracts/py_wiring.py, contracts/py_memo.py, contracts/c_*.py) are generated from the real source on every run and
discharged by z3 / the ring normaliser; clauses outside their reach are run-time contracts over stated bounded domains (props/bounded_C16.py).
"""
from vf.helpers import bounded_tasks

META = dict(
    level='other',
    explanation='Wiring / closed-form / memo-key contracts generated from the real source and discharged by z3 and the ring normaliser for the functions within reach (see coverage.obligations); the remaining clauses are run-time contracts over the bounded domain stated per driver (bounded stand-in, never counted as proved).',
    trusted_base=['oracles of props/bounded_C16.py (independent of dadi: exact rationals, mpmath, dense linear algebra, explicit index loops)'],
    rule='cases enumerated or sampled as stated in each driver\'s bound; a case is non-trivial unless the driver marks it degenerate; distinct by its key',
)


def tasks(tier):
    from vf.core import Task
    return [Task('props.wire:run', name='C16/wire.c16_sizes_at_time', fname='c16_sizes_at_time', timeout=300), Task('props.wire:run', name='C16/wire.c16_integrate_phi', fname='c16_integrate_phi', timeout=300)] + [Task('props.wire:run', name='C16/wire.' + n, fname=n, timeout=300) for n in ('c16_make_nu_func', 'c16_integration_parameters', 'c16_migration_rate', 'c16_apply_event', 'c16_export_names', 'c16_shift_deme_time', 'c16_size_at', 'c16_check_linear')] + [Task('props.wire:run', name='C16/wire.admix_phi.%dD' % K, fname='c16_admix_phi', kwargs=dict(K=K), timeout=600) for K in (2, 3, 4, 5)] + [Task('props.wire:run', name='C16/wire.new_pop_events.%dD' % K, fname='c16_new_pop_events', kwargs=dict(K=K), timeout=600) for K in (1, 2, 3, 4)] + [Task('props.wire:run', name='C16/wire.integration_event.%dD' % K, fname='c16_integration_event', kwargs=dict(K=K), timeout=600) for K in (1, 2, 3, 4, 5)] + bounded_tasks('C16', tier)


MANIFEST_ENTRY = dict(
    category='other',
    engine='bounded',
    technique='sidecar contracts on the real functions: wiring / closed-form obligations from the AST discharged by z3 and the ring normaliser where the functions are within reach; bounded run-time contracts with independent oracles for the rest (never counted as proved)',
    text='Discharged from the real source on every run (all values, stated small shapes): _sizes_at_time, _make_nu_func, _get_integration_parameters (T, 2 Ne m, frozen flags, epoch order), _migration_rate_in_interval, _integrate_phi argument map 1-5 D, _admix_phi / _admix_new_pop_phi / _split_phi for every destination and source order (2-5 demes), _apply_event dispatch and deme order, name inheritance of the export through Split/Remove/Reorder, DemesUtil._shift_deme_time (kept epochs, shifted times, size at the slice time from the own span of the epoch), _size_at closed forms and end points, IntegrationNonConst.check_linear, the event each integrator records (duration T - initial_t, sizes, rates, names; constant and time-dependent paths, 1-5 D). Bounded run-time contracts (never counted as proved): Random demes graphs against hand-written dadi programs, unit/size/order invariances, ancient samples, export and re-import.',
    note='bounded: see coverage.bounded.drivers[].bound in the evidence file for the exact domain of every driver',
)
