"""E4 bounded driver for C02: every integration path (1-5 populations) solves the documented implicit scheme.

Oracle: an independent dense-matrix numpy implementation of the scheme of DESIGN.md section 7 / C02

    row_j(u) = u_j/dt + Delta_j (F_{j+1/2}(u) - F_{j-1/2}(u)) + abs_j u_j = phi_j/dt ,  Delta_j w_j = 1 (trapezoid w),
    F_{j+1/2}(u) = M_{j+1/2}(delta_j u_j + (1-delta_j) u_{j+1}) - (V_{j+1} u_{j+1} - V_j u_j)/(2 dx_j),  F_{-1/2}=F_{n-1/2}=0,
    V(x) = x(1-x)/nu [* (beta+1)^2/(4 beta) in 1-D],  M(x; others) = sum_o m_o (x_o - x) + 2 gamma (h+(1-2h)x) x(1-x),
    delta_j = 1/2, or the Chang-Cooper weight 1/(1-exp(-z)) - 1/z with z = 2 M_{j+1/2} dx_j / V_{j+1/2},
    abs_0 = (1/(2nu) - M_0) 2/dx_0 iff every other coordinate == 0 and M_0 <= 0; abs_{n-1} = (1/(2nu) + M_{n-1}) 2/dx_{n-2}
    iff every other coordinate == 1 and M_{n-1} >= 0,

assembled as  A = I/dt + diag(Delta) . Div . Flux (+ abs)  with einsum, one dense n x n matrix per line, solved by LAPACK.
No dadi code is used by the oracle.
"""
import itertools
import math

from vf.core import Task
from vf.bounded import Driver

TOL = 1e-9          # relative residual / solution tolerance for kernel vs dense reference
TOL_PATH = 1e-12    # constant-parameter vs function-of-time driver agreement
ZMAX = 700.0        # |z| bound for use_delj_trick=1 in the regular tasks (exp overflow regime: task delj_overflow)
ZMIN = 1e-3         # smallest non-zero |z| for use_delj_trick=1 in the regular tasks (cancellation regime: task delj_smallz)
AXN = 'xyzab'

# wrapper-imposed shape equalities (integration_c.pyx passes phi.shape[..] as the end of the line range)
EQ = {'2Dx': (0, 1), '2Dy': (0, 1), '3Dy': (0, 1), '3Dz': (0, 2),
      'precalc_2Dx': (0, 1), 'precalc_2Dy': (0, 1), 'precalc_3Dx': (0, 1), 'precalc_3Dy': (0, 1), 'precalc_3Dz': (0, 2)}

KERNELS = [(1, 0)] + [(D, k) for D in (2, 3, 4, 5) for k in range(D)]
PRECALC = [(2, 0), (2, 1), (3, 0), (3, 1), (3, 2)]


def kname(D, k):
    return '%dD%s' % (D, AXN[k])


def tasks(tier):
    q = tier == 'quick'
    n = 200 if q else 5000
    ts = []
    for D, k in KERNELS:
        ts.append(Task('props.bounded_C02:drv_kernel', name='C02/bounded/kernel_%s' % kname(D, k), D=D, k=k, n=n, tier=tier, timeout=900))
    ts.append(Task('props.bounded_C02:drv_precalc', name='C02/bounded/precalc', n=n, tier=tier, timeout=900))
    ts.append(Task('props.bounded_C02:drv_tridiag', name='C02/bounded/tridiag', n=(600 if q else 20000), tier=tier, timeout=900))
    for D in (1, 2, 3, 4, 5):
        nd = {1: 200, 2: 200, 3: 150, 4: 60, 5: 30}[D] if q else {1: 5000, 2: 5000, 3: 4000, 4: 1500, 5: 600}[D]
        ts.append(Task('props.bounded_C02:drv_driver', name='C02/bounded/driver_%dpop' % D, D=D, n=nd, tier=tier, timeout=900))
    ts.append(Task('props.bounded_C02:drv_driver_delj_const', name='C02/bounded/driver_delj_const', n=(60 if q else 1500), tier=tier, timeout=900))
    ts.append(Task('props.bounded_C02:drv_delj_overflow', name='C02/bounded/delj_overflow', n=(40 if q else 600), tier=tier, timeout=900))
    ts.append(Task('props.bounded_C02:drv_delj_smallz', name='C02/bounded/delj_smallz', n=(40 if q else 600), tier=tier, timeout=900))
    return ts


# ------------------------------------------------------------------------------------------------
# independent reference
# ------------------------------------------------------------------------------------------------

def trap_w(x):
    import numpy as np
    dx = np.diff(x)
    w = np.empty(len(x))
    w[0] = dx[0] / 2
    w[-1] = dx[-1] / 2
    w[1:-1] = (dx[:-1] + dx[1:]) / 2
    return w


def cc_delta(z):
    """Chang-Cooper weight 1/(1-exp(-z)) - 1/z, evaluated stably (limits: 1/2 at 0, 1-1/z at +inf, -1/z at -inf)."""
    import numpy as np
    z = np.asarray(z, dtype=float)
    with np.errstate(all='ignore'):
        big = 1.0 / (-np.expm1(-z)) - 1.0 / z
    small = 0.5 + z / 12.0 - z ** 3 / 720.0
    return np.where(np.abs(z) < 1e-3, small, big)


def ref_matrix(grids, k, nu, ms, gamma, h, dt, delj_on, beta=1.0):
    """Dense matrices A[other axes in increasing order..., n, n] of the scheme along axis k.
    ms: dict other_axis -> migration rate into k from that axis.  Returns (A, zinfo) with zinfo = (max |z|, min nonzero |z|)."""
    import numpy as np
    D = len(grids)
    x = np.asarray(grids[k], dtype=float)
    n = len(x)
    others = [o for o in range(D) if o != k]
    oshape = tuple(len(grids[o]) for o in others)
    allzero = np.ones(oshape, dtype=bool)
    allone = np.ones(oshape, dtype=bool)
    for i, o in enumerate(others):
        sh = [1] * len(others)
        sh[i] = -1
        g = np.asarray(grids[o], dtype=float).reshape(sh)
        allzero = allzero & (g == 0)
        allone = allone & (g == 1)

    def Mof(xi):
        out = np.zeros(oshape + (len(xi),))
        for i, o in enumerate(others):
            sh = [1] * (len(others) + 1)
            sh[i] = -1
            out = out + ms[o] * (np.asarray(grids[o], dtype=float).reshape(sh) - xi)
        return out + gamma * 2 * (h + (1 - 2 * h) * xi) * xi * (1 - xi)

    dx = np.diff(x)
    xm = (x[:-1] + x[1:]) / 2
    bf = (beta + 1.0) ** 2 / (4.0 * beta)
    V = x * (1 - x) / nu * bf
    Vm = xm * (1 - xm) / nu * bf
    Mm = Mof(xm)
    zinfo = (0.0, float('inf'))
    if delj_on:
        z = 2 * Mm * dx / Vm
        delta = cc_delta(z)
        az = np.abs(z)
        nz = az[az > 0]
        zinfo = (float(az.max()) if az.size else 0.0, float(nz.min()) if nz.size else float('inf'))
    else:
        delta = 0.5
    j = np.arange(n - 1)
    Fl = np.zeros(oshape + (n - 1, n))
    Fl[..., j, j] = Mm * delta + V[:-1] / (2 * dx)
    Fl[..., j, j + 1] = Mm * (1 - delta) - V[1:] / (2 * dx)
    Dv = np.zeros((n, n - 1))
    Dv[j, j] = 1.0
    Dv[j + 1, j] = -1.0
    Delta = 1.0 / trap_w(x)
    A = np.einsum('j,jk,...kl->...jl', Delta, Dv, Fl) + np.eye(n) / dt
    M0 = Mof(x[:1])[..., 0]
    M1 = Mof(x[-1:])[..., 0]
    A[..., 0, 0] += np.where(allzero & (M0 <= 0), (0.5 / nu - M0) * 2 / dx[0], 0.0)
    A[..., n - 1, n - 1] += np.where(allone & (M1 >= 0), (0.5 / nu + M1) * 2 / dx[-1], 0.0)
    return A, zinfo


def solve_lines(A, phi, k, dt):
    import numpy as np
    p = np.moveaxis(phi, k, -1)
    u = np.linalg.solve(A, (p / dt)[..., None])[..., 0]
    return np.moveaxis(u, -1, k)


def compare(A, phi_old, got, want, k, dt):
    """(componentwise row residual, per-line solution error) of `got` against the dense system."""
    import numpy as np
    g = np.moveaxis(got, k, -1)
    w = np.moveaxis(want, k, -1)
    r = np.moveaxis(phi_old, k, -1) / dt
    if not np.all(np.isfinite(g)):
        return float('inf'), float('inf')
    res = np.abs(np.einsum('...jl,...l->...j', A, g) - r)
    scale = np.einsum('...jl,...l->...j', np.abs(A), np.abs(g)) + np.abs(r)
    scale = np.where(scale == 0, 1.0, scale)
    resid = float(np.max(res / scale))
    lw = np.max(np.abs(w), axis=-1)
    lw = np.where(lw == 0, 1.0, lw)
    serr = float(np.max(np.max(np.abs(g - w), axis=-1) / lw))
    return resid, serr


def ref_inject(phi, grids, theta0, dt, active):
    """New mutations: dt*theta0/2 per unit 1/x_1 placed at the unit vector e_k, normalised by the trapezoid weights."""
    ws = [trap_w(g) for g in grids]
    D = len(grids)
    for k in range(D):
        if not active[k]:
            continue
        idx = tuple(1 if l == k else 0 for l in range(D))
        wt = 1.0
        for l in range(D):
            wt *= ws[l][idx[l]]
        phi[idx] += dt * theta0 / 2 / grids[k][1] / wt
    return phi


def ref_step(phi, xx, P, dt, delj_on):
    """One driver step: injection then one sweep per non-frozen axis, in axis order.  P: dict of parameters."""
    D = phi.ndim
    grids = [xx] * D
    phi = phi.copy()
    active = [not P['frozen'][k] and not P['nomut'][k] for k in range(D)]
    ref_inject(phi, grids, P['theta0'], dt, active)
    zhi, zlo = 0.0, float('inf')
    for k in range(D):
        if P['frozen'][k]:
            continue
        ms = {o: P['m'][k][o] for o in range(D) if o != k}
        A, zi = ref_matrix(grids, k, P['nu'][k], ms, P['gamma'][k], P['h'][k], dt, delj_on, beta=P.get('beta', 1.0))
        phi = solve_lines(A, phi, k, dt)
        zhi, zlo = max(zhi, zi[0]), min(zlo, zi[1])
    return phi, (zhi, zlo)


# ------------------------------------------------------------------------------------------------
# input generation
# ------------------------------------------------------------------------------------------------

GRID_KINDS = ('uniform', 'exponential', 'quadratic', 'random', 'interior')


def make_grid(rng, n, kind):
    import numpy as np
    t = np.linspace(0.0, 1.0, n)
    if kind == 'uniform':
        x = t
    elif kind == 'exponential':
        crwd = rng.choice([2.0, 8.0])
        g = 1.0 / (1.0 + np.exp(-crwd * np.linspace(-1.0, 1.0, n)))
        x = (g - g[0]) / (g[-1] - g[0])
    elif kind == 'quadratic':
        x = t * t
    else:
        while True:
            inner = sorted(rng.uniform(0.0, 1.0) for _ in range(n - 2))
            x = np.array([0.0] + inner + [1.0])
            if np.min(np.diff(x)) >= 1e-3:
                break
        if kind == 'interior':
            lo = rng.uniform(0.01, 0.2)
            hi = rng.uniform(0.8, 0.99)
            x = lo + (hi - lo) * x
    x = np.ascontiguousarray(x, dtype=float)
    if kind != 'interior':
        assert x[0] == 0.0 and x[-1] == 1.0
    return x


def make_phi(rng, nprng, shape):
    import numpy as np
    style = rng.choice(['dense', 'dense', 'sparse', 'point', 'smooth'])
    scale = 10.0 ** rng.uniform(-3, 3)
    if style == 'dense':
        phi = nprng.uniform(0.0, 1.0, size=shape)
    elif style == 'sparse':
        phi = nprng.uniform(0.0, 1.0, size=shape) * (nprng.uniform(size=shape) < 0.3)
    elif style == 'point':
        phi = np.zeros(shape)
        phi[tuple(rng.randrange(s) for s in shape)] = 1.0
    else:
        phi = np.ones(shape)
        for ax, s in enumerate(shape):
            sh = [1] * len(shape)
            sh[ax] = s
            phi = phi * (0.1 + np.linspace(0, 1, s).reshape(sh) ** rng.choice([1, 2]))
    return np.ascontiguousarray(phi * scale, dtype=float)


def draw_h(rng):
    return rng.choice([0.0, 0.5, 1.0, rng.uniform(0, 1), rng.uniform(0, 1)])


def draw_nu(rng):
    return 10.0 ** rng.uniform(-2, 2)


def draw_gamma(rng):
    return rng.choice([0.0, rng.uniform(-40, 40), rng.uniform(-40, 40), rng.uniform(-2, 2)])


def draw_m(rng):
    return rng.choice([0.0, rng.uniform(0, 20), rng.uniform(0, 20), rng.uniform(0, 1)])


def draw_dt(rng):
    return 10.0 ** rng.uniform(-6, -1)


def draw_sizes(rng, D, eq=None, lo=3, hi=9, allow2=True):
    hi = {1: hi, 2: hi, 3: hi, 4: min(hi, 8), 5: min(hi, 7)}[D]
    sizes = [rng.randint(lo, hi) for _ in range(D)]
    if allow2 and rng.random() < 0.05:
        sizes[rng.randrange(D)] = 2
    if eq is not None:
        sizes[eq[1]] = sizes[eq[0]]
    return sizes


def _small(a):
    import numpy as np
    a = np.asarray(a)
    return a.tolist() if a.size <= 64 else dict(shape=list(a.shape), head=a.ravel()[:16].tolist())


# ------------------------------------------------------------------------------------------------
# tasks
# ------------------------------------------------------------------------------------------------

def _call_kernel(int_c, D, k, phi, grids, nu, mlist, gamma, h, beta, dt, delj):
    fn = getattr(int_c, 'implicit_' + kname(D, k))
    if D == 1:
        return fn(phi, grids[0], nu, gamma, h, beta, dt, delj)
    return fn(phi, *grids, nu, *mlist, gamma, h, dt, delj)


def _kernel_case(rng, nprng, D, k, overflow=False):
    """Draw one kernel input.  Returns dict."""
    eq = EQ.get(kname(D, k))
    sizes = draw_sizes(rng, D, eq)
    kinds = [rng.choice(GRID_KINDS) if rng.random() < 0.9 else 'interior' for _ in range(D)]
    grids = [make_grid(rng, sizes[i], kinds[i]) for i in range(D)]
    others = [o for o in range(D) if o != k]
    ms = {o: draw_m(rng) for o in others}
    c = dict(D=D, k=k, sizes=sizes, kinds=kinds, grids=grids, nu=draw_nu(rng), ms=ms, gamma=draw_gamma(rng), h=draw_h(rng),
             beta=(10.0 ** rng.uniform(math.log10(0.2), math.log10(5.0)) if D == 1 and rng.random() < 0.7 else 1.0),
             dt=draw_dt(rng), delj=rng.choice([0, 1]))
    c['phi'] = make_phi(rng, nprng, tuple(sizes))
    return c


def _info(c, **extra):
    i = dict(kernel=kname(c['D'], c['k']), sizes=c['sizes'], kinds=c['kinds'], grids=[g.tolist() for g in c['grids']], nu=c['nu'],
             ms={AXN[o]: v for o, v in c['ms'].items()}, gamma=c['gamma'], h=c['h'], beta=c['beta'], dt=c['dt'], delj=c['delj'],
             phi=_small(c['phi']))
    i.update(extra)
    return i


def _run_kernel_case(int_c, c):
    import numpy as np
    D, k = c['D'], c['k']
    A, zi = ref_matrix(c['grids'], k, c['nu'], c['ms'], c['gamma'], c['h'], c['dt'], c['delj'], beta=c['beta'])
    want = solve_lines(A, c['phi'], k, c['dt'])
    work = c['phi'].copy()
    gcopy = [g.copy() for g in c['grids']]
    mlist = [c['ms'][o] for o in range(D) if o != k]
    delj_arg = bool(c['delj']) if c.get('boolflag') else int(c['delj'])
    ret = _call_kernel(int_c, D, k, work, c['grids'], c['nu'], mlist, c['gamma'], c['h'], c['beta'], c['dt'], delj_arg)
    resid, serr = compare(A, c['phi'], work, want, k, c['dt'])
    frame = (ret is work) and all(np.array_equal(a, b) for a, b in zip(gcopy, c['grids']))
    return resid, serr, frame, zi


def drv_kernel(D, k, n, tier):
    import numpy as np
    import dadi
    import dadi.integration_c as int_c
    nm = kname(D, k)
    d = Driver('C02', 'kernel_%s' % nm,
               bound='%d random inputs for dadi.integration_c.implicit_%s: per-axis sizes 2..%d drawn independently (unequal wherever '
                     'the .pyx wrapper allows: %s), per-axis grids independently uniform/exponential/quadratic/random monotone on [0,1] '
                     '(min dx 1e-3) or strictly interior (no 0/1 endpoint), densities >=0 (dense/sparse/point/smooth, scale 1e-3..1e3), '
                     'nu 1e-2..1e2, distinct m per pair in [0,20], gamma in [-40,40], h in [0,1] incl. 0,1/2,1, beta 0.2..5 (1-D), '
                     'dt 1e-6..1e-1, use_delj_trick 0/1 (for 1: every z = 2 M dx/V is 0 or has %g <= |z| <= %g; smaller in task delj_smallz, '
                     'larger in task delj_overflow); componentwise row residual |A u - phi/dt|_j <= %g (|A||u|+|phi|/dt)_j and per-line '
                     'solution error <= 1e-9 vs dense numpy reference; returned object is the array passed in; grids unmodified' % (
                         n, nm, {1: 9, 2: 9, 3: 9, 4: 8, 5: 7}[D],
                         ('shape[%d]==shape[%d] required' % EQ[nm]) if nm in EQ else 'all axes free', ZMIN, ZMAX, TOL))
    rng, nprng = d.rng, d.nprng()
    for ci in range(n):
        while True:
            c = _kernel_case(rng, nprng, D, k)
            c['boolflag'] = rng.random() < 0.5
            if not c['delj']:
                break
            _, zi = ref_matrix(c['grids'], k, c['nu'], c['ms'], c['gamma'], c['h'], c['dt'], 1, beta=c['beta'])
            if zi[0] <= ZMAX and zi[1] >= ZMIN:
                break
        try:
            resid, serr, frame, zi = _run_kernel_case(int_c, c)
        except Exception as e:
            d.case(key=(nm, ci), ok=False, info=_info(c, error=repr(e)), fail_key='kernel-%s-exception' % nm)
            continue
        ok = resid <= TOL and serr <= TOL
        fk = 'kernel-%s-mismatch' % nm
        d.case(key=(nm, ci), ok=ok, info=_info(c, resid=resid, solerr=serr, zmax=zi[0], zmin=zi[1]), fail_key=fk)
        if not frame:
            d.case(key=(nm, ci, 'frame'), ok=False, info=_info(c), fail_key='kernel-%s-frame' % nm)
    return d.results()


def _bands_to_dense(a, b, c, k, dt):
    import numpy as np
    am, bm, cm = (np.moveaxis(t, k, -1) for t in (a, b, c))
    n = am.shape[-1]
    A = np.zeros(am.shape + (n,))
    j = np.arange(n)
    A[..., j, j] = bm + 1.0 / dt
    A[..., j[1:], j[:-1]] = am[..., 1:]
    A[..., j[:-1], j[1:]] = cm[..., :-1]
    return A


def drv_precalc(n, tier):
    import numpy as np
    import dadi
    import dadi.integration_c as int_c
    d = Driver('C02', 'precalc',
               bound='%d random inputs for each of implicit_precalc_{2Dx,2Dy,3Dx,3Dy,3Dz}: sizes 2..9 (the unconstrained axis of the 3-D '
                     'kernels drawn independently), coefficient arrays either random strictly diagonally dominant (random signs, a[0] and '
                     'c[n-1] per line filled with junk that must be ignored) or the bands of the dense reference scheme for random '
                     'parameters, dt 1e-6..1e-1; solves (a, b+1/dt, c) u = phi/dt per line to %g vs dense numpy' % (n, TOL))
    rng, nprng = d.rng, d.nprng()
    for D, k in PRECALC:
        nm = 'precalc_' + kname(D, k)
        fn = getattr(int_c, 'implicit_' + nm)
        for ci in range(n):
            sizes = draw_sizes(rng, D, EQ[nm])
            shape = tuple(sizes)
            dt = draw_dt(rng)
            phi = make_phi(rng, nprng, shape)
            mode = rng.choice(['random', 'scheme'])
            if mode == 'random':
                a = nprng.uniform(-1, 1, size=shape) * 10.0 ** rng.uniform(-2, 3)
                c = nprng.uniform(-1, 1, size=shape) * 10.0 ** rng.uniform(-2, 3)
                sgn = 1.0 if rng.random() < 0.8 else -1.0
                b = sgn * (np.abs(a) + np.abs(c) + nprng.uniform(0.01, 2.0, size=shape) * (1 + np.abs(a) + np.abs(c)))
                if sgn < 0:
                    b = b - 2.0 / dt    # keep b + 1/dt dominant
                extra = dict(sgn=sgn)
            else:
                grids = [make_grid(rng, s, rng.choice(GRID_KINDS[:4]) if s > 2 else 'uniform') for s in sizes]
                ms = {o: draw_m(rng) for o in range(D) if o != k}
                nu, gamma, h = draw_nu(rng), draw_gamma(rng), draw_h(rng)
                A0, _ = ref_matrix(grids, k, nu, ms, gamma, h, dt, 0)
                nn = shape[k]
                j = np.arange(nn)
                am = np.zeros(A0.shape[:-1])
                cm = np.zeros(A0.shape[:-1])
                bm = A0[..., j, j] - 1.0 / dt
                am[..., 1:] = A0[..., j[1:], j[:-1]]
                cm[..., :-1] = A0[..., j[:-1], j[1:]]
                a, b, c = (np.moveaxis(t, -1, k) for t in (am, bm, cm))
                extra = dict(nu=nu, gamma=gamma, h=h, ms={AXN[o]: v for o, v in ms.items()}, grids=[g.tolist() for g in grids])
            a, b, c = (np.ascontiguousarray(t, dtype=float).copy() for t in (a, b, c))
            # junk in the entries outside the matrix
            ja = np.moveaxis(a, k, -1)
            jc = np.moveaxis(c, k, -1)
            ja[..., 0] = nprng.uniform(-1e3, 1e3, size=ja[..., 0].shape)
            jc[..., -1] = nprng.uniform(-1e3, 1e3, size=jc[..., -1].shape)
            A = _bands_to_dense(a, b, c, k, dt)
            want = solve_lines(A, phi, k, dt)
            work = phi.copy()
            keep = [t.copy() for t in (a, b, c)]
            info = dict(kernel=nm, sizes=sizes, dt=dt, mode=mode, phi=_small(phi), a=_small(a), b=_small(b), c=_small(c), **extra)
            try:
                ret = fn(work, a, b, c, dt)
            except Exception as e:
                d.case(key=(nm, ci), ok=False, info=dict(info, error=repr(e)), fail_key='%s-exception' % nm)
                continue
            resid, serr = compare(A, phi, work, want, k, dt)
            frame = ret is work and all(np.array_equal(p, q) for p, q in zip(keep, (a, b, c)))
            d.case(key=(nm, ci), ok=(resid <= TOL and serr <= TOL and frame), info=dict(info, resid=resid, solerr=serr, frame=frame),
                   fail_key='%s-mismatch' % nm)
    return d.results()


def drv_tridiag(n, tier):
    import numpy as np
    import dadi
    import dadi.tridiag_cython as tc
    d = Driver('C02', 'tridiag',
               bound='%d random systems for dadi.tridiag_cython.tridiag: n=1..64, strictly row- or column-diagonally-dominant bands with '
                     'random signs and magnitudes 1e-3..1e3, plus the bands of the dense reference scheme (1-D, random parameters in '
                     'the property ranges, delj off/on); a[0], c[n-1] junk; relative row residual and solution error vs numpy.linalg.solve '
                     '<= %g; inputs not modified' % (n, TOL))
    rng, nprng = d.rng, d.nprng()
    for ci in range(n):
        mode = rng.choice(['rowdom', 'coldom', 'scheme'])
        if mode == 'scheme':
            nn = rng.randint(2, 40)
            x = make_grid(rng, nn, rng.choice(GRID_KINDS[:4]) if nn > 2 else 'uniform')
            dt = draw_dt(rng)
            while True:
                nu, gamma, h, dj = draw_nu(rng), draw_gamma(rng), draw_h(rng), rng.choice([0, 1])
                A, zi = ref_matrix([x], 0, nu, {}, gamma, h, dt, dj)
                if not dj or (zi[0] <= ZMAX and zi[1] >= ZMIN):
                    break
            extra = dict(x=x.tolist(), nu=nu, gamma=gamma, h=h, dt=dt, delj=dj)
        else:
            nn = rng.choice([1, 2, 3, rng.randint(4, 64), rng.randint(4, 64)])
            sc = 10.0 ** rng.uniform(-3, 3)
            lo = nprng.uniform(-1, 1, size=nn) * sc
            up = nprng.uniform(-1, 1, size=nn) * sc
            lo[0] = 0.0
            up[-1] = 0.0
            if mode == 'rowdom':
                dom = np.abs(lo) + np.abs(up)
            else:
                dom = np.zeros(nn)
                dom[:-1] += np.abs(lo[1:])     # column j holds lo[j+1] and up[j-1]
                dom[1:] += np.abs(up[:-1])
            diag = (dom * nprng.uniform(1.05, 3.0, size=nn) + nprng.uniform(1e-3, 1.0, size=nn) * sc) * nprng.choice([-1.0, 1.0], size=nn)
            A = np.diag(diag)
            j = np.arange(nn)
            A[j[1:], j[:-1]] = lo[1:]
            A[j[:-1], j[1:]] = up[:-1]
            extra = {}
        j = np.arange(nn)
        a = np.zeros(nn)
        c = np.zeros(nn)
        b = A[j, j].copy()
        a[1:] = A[j[1:], j[:-1]]
        c[:-1] = A[j[:-1], j[1:]]
        a[0] = rng.uniform(-1e3, 1e3)
        c[-1] = rng.uniform(-1e3, 1e3)
        r = nprng.uniform(-1, 1, size=nn) * 10.0 ** rng.uniform(-3, 3)
        if rng.random() < 0.1:
            r = np.abs(r) * (nprng.uniform(size=nn) < 0.3)
        keep = [t.copy() for t in (a, b, c, r)]
        info = dict(mode=mode, n=nn, a=_small(a), b=_small(b), c=_small(c), r=_small(r), **extra)
        try:
            u = tc.tridiag(a, b, c, r)
        except Exception as e:
            d.case(key=ci, ok=False, info=dict(info, error=repr(e)), fail_key='tridiag-exception')
            continue
        want = np.linalg.solve(A, r)
        ok_shape = isinstance(u, np.ndarray) and u.shape == (nn,) and u.dtype == np.float64
        if ok_shape and np.all(np.isfinite(u)):
            res = A @ u - r
            scale = np.abs(A) @ np.abs(u) + np.abs(r)
            scale = np.where(scale == 0, 1.0, scale)
            resid = float(np.max(np.abs(res) / scale))
            mw = float(np.max(np.abs(want))) or 1.0
            serr = float(np.max(np.abs(u - want)) / mw)
        else:
            resid = serr = float('inf')
        frame = all(np.array_equal(p, q) for p, q in zip(keep, (a, b, c, r)))
        d.case(key=ci, ok=(ok_shape and resid <= TOL and serr <= TOL and frame), info=dict(info, resid=resid, solerr=serr, frame=frame),
               fail_key='tridiag-mismatch', nontrivial=True)
    return d.results()


# -------------------------------- drivers (Integration.one_pop .. five_pops) ------------------------------------------

PAIR_NAMES = {D: [(i, j) for i in range(D) for j in range(D) if i != j] for D in (2, 3, 4, 5)}
FUNCS = {1: 'one_pop', 2: 'two_pops', 3: 'three_pops', 4: 'four_pops', 5: 'five_pops'}


def own_dt(P, D, tsf):
    """Time step rule as documented: timescale_factor / max(1/(4 nu), sum of incoming m, selection bound), min over axes."""
    best = float('inf')
    for k in range(D):
        g, h = P['gamma'][k], P['h'][k]
        sel = abs(g) * 2 * max(abs(h + (1 - 2 * h) * 0.5) * 0.25, abs(h + (1 - 2 * h) * 0.25) * 0.1875)
        mx = max(0.25 / P['nu'][k], sum(P['m'][k][o] for o in range(D) if o != k), sel)
        best = min(best, tsf / mx if mx > 0 else float('inf'))
    return best


def draw_params(rng, D, allow_flags=True):
    frozen = [False] * D
    nomut = [False] * D
    if allow_flags and D >= 2 and rng.random() < 0.4:
        for k in range(D):
            frozen[k] = rng.random() < 0.35
    if allow_flags and D == 2 and rng.random() < 0.4:
        nomut = [rng.random() < 0.5, rng.random() < 0.5]
    m = [[0.0] * D for _ in range(D)]
    for i in range(D):
        for j in range(D):
            if i != j and not frozen[i] and not frozen[j]:
                m[i][j] = draw_m(rng)
    return dict(nu=[draw_nu(rng) for _ in range(D)], gamma=[draw_gamma(rng) for _ in range(D)], h=[draw_h(rng) for _ in range(D)],
                m=m, theta0=rng.choice([0.0, 1.0, 10.0 ** rng.uniform(-2, 3)]), frozen=frozen, nomut=nomut, beta=1.0)


def driver_kwargs(P, D, wrap):
    """Keyword arguments for Integration.<FUNCS[D]>; wrap(name, value) turns a constant into what is passed."""
    kw = {}
    if D == 1:
        kw.update(nu=wrap('nu', P['nu'][0]), gamma=wrap('gamma', P['gamma'][0]), h=wrap('h', P['h'][0]), beta=wrap('beta', P['beta']))
    else:
        for k in range(D):
            kw['nu%d' % (k + 1)] = wrap('nu%d' % (k + 1), P['nu'][k])
            kw['gamma%d' % (k + 1)] = wrap('gamma%d' % (k + 1), P['gamma'][k])
            kw['h%d' % (k + 1)] = wrap('h%d' % (k + 1), P['h'][k])
            kw['frozen%d' % (k + 1)] = P['frozen'][k]
        for i, j in PAIR_NAMES[D]:
            nm = 'm%d%d' % (i + 1, j + 1)
            # frozen populations need a literal zero (a function object compares != 0 and is rejected)
            kw[nm] = P['m'][i][j] if (P['frozen'][i] or P['frozen'][j]) else wrap(nm, P['m'][i][j])
        if D == 2:
            kw['nomut1'], kw['nomut2'] = P['nomut']
    kw['theta0'] = wrap('theta0', P['theta0'])
    return kw


def _pinfo(P, D, **extra):
    i = dict(D=D, nu=P['nu'], gamma=P['gamma'], h=P['h'], m=P['m'], theta0=P['theta0'], frozen=P['frozen'], nomut=P['nomut'], beta=P['beta'])
    i.update(extra)
    return i


def _relmax(a, b):
    import numpy as np
    if not (np.all(np.isfinite(a)) and np.all(np.isfinite(b))):
        return float('inf')
    s = float(np.max(np.abs(b)))
    return float(np.max(np.abs(a - b)) / (s if s > 0 else 1.0))


def _line_err(got, want):
    """max over entries of |got-want| relative to the largest |want| on any axis-parallel line through the entry."""
    import numpy as np
    if not np.all(np.isfinite(got)):
        return float('inf')
    aw = np.abs(want)
    sc = None
    for ax in range(want.ndim):
        m = np.max(aw, axis=ax, keepdims=True) * np.ones_like(aw)
        sc = m if sc is None else np.maximum(sc, m)
    sc = np.where(sc == 0, 1.0, sc)
    return float(np.max(np.abs(got - want) / sc))


def _draw_driver_case(rng, nprng, D, hi, delj, regime='regular'):
    """One driver input with T <= one time step.  regime 'regular': ZMIN <= |z| <= ZMAX or z = 0 when delj; 'overflow': delj and max z > 710."""
    for _ in range(2000):
        pts = rng.randint(3, hi)
        xx = make_grid(rng, pts, rng.choice(GRID_KINDS[:4]))
        P = draw_params(rng, D, allow_flags=(regime == 'regular'))
        if regime == 'overflow':
            P['nu'] = [10.0 ** rng.uniform(1.3, 2) for _ in range(D)]
            P['gamma'] = [rng.uniform(20, 40) for _ in range(D)]
            P['h'] = [rng.uniform(0.2, 1.0) for _ in range(D)]
            P['m'] = [[(rng.uniform(0, 1) if i != j else 0.0) for j in range(D)] for i in range(D)]
        if D == 1 and rng.random() < 0.6:
            P['beta'] = 10.0 ** rng.uniform(math.log10(0.2), math.log10(5.0))
        tsf = 10.0 ** rng.uniform(-5, 0)
        dt = own_dt(P, D, tsf)
        if not (1e-7 <= dt <= 0.1):
            continue
        f = 1.0 if rng.random() < 0.3 else rng.uniform(0.05, 1.0)
        step = dt * f
        phi0 = make_phi(rng, nprng, (pts,) * D)
        _, zi = ref_step(phi0, xx, P, step, delj)
        if regime == 'overflow':
            if zi[0] > 710:
                break
        elif not delj or (zi[0] <= ZMAX and zi[1] >= ZMIN):
            break
    else:
        return None
    t0 = rng.choice([0.0, 0.0, rng.uniform(0, 2)])
    T = t0 + step
    if T - t0 > dt:      # rounding of t0+step must not push the duration over one step
        T = t0 + step * (1 - 1e-12)
    return dict(xx=xx, P=P, tsf=tsf, dt=dt, phi0=phi0, t0=t0, T=T, delj=delj)


def drv_driver(D, n, tier):
    import numpy as np
    import dadi
    from dadi import Integration
    fn = getattr(Integration, FUNCS[D])
    hi = {1: 12, 2: 10, 3: 9, 4: 7, 5: 6}[D]
    d = Driver('C02', 'driver_%dpop' % D,
               bound='%d random calls of Integration.%s on a copy of the input (C-ordered, Fortran-ordered or a transposed view, by turns, for 2-5 populations) with T <= one time step (T = dt*f, f in {1} U (0.05,1), '
                     'initial_t 0 or random, timescale_factor drawn so that dt spans 1e-7..1e-1): common grid of 3..%d points '
                     '(uniform/exponential/quadratic/random monotone, endpoints exactly 0 and 1), parameters in the property ranges with '
                     'distinct m per ordered pair, theta0 in {0,1,1e-2..1e3}, frozen/nomut flag subsets (m=0 on frozen), beta 0.2..5 (1-D), '
                     'use_delj_trick off/on (on: z = 2 M dx/V is 0 or %g <= |z| <= %g; for 1-3 populations the all-constant style with the switch on is '
                     'covered by task driver_delj_const); (i) all-constant vs all-lambda vs mixed constant/lambda arguments agree to %g '
                     'of max|phi|, (ii) each agrees with inject+sweeps of the dense reference to %g entrywise, relative to the largest |phi| on '
                     'any axis-parallel line through the entry, (iii) for 1-3 '
                     'populations the array passed in is unchanged (four/five_pops in-place: C20)' % (n, FUNCS[D], hi, ZMIN, ZMAX, TOL_PATH, TOL))
    rng, nprng = d.rng, d.nprng()
    saved = (Integration.timescale_factor, Integration.use_delj_trick)
    try:
        for ci in range(n):
            delj = rng.random() < 0.4
            c = _draw_driver_case(rng, nprng, D, hi, delj)
            xx, P, phi0, t0, T = c['xx'], c['P'], c['phi0'], c['t0'], c['T']
            Integration.timescale_factor = c['tsf']
            Integration.use_delj_trick = delj
            want, zi = ref_step(phi0, xx, P, T - t0, delj)
            info = _pinfo(P, D, xx=xx.tolist(), T=T, initial_t=t0, dt_rule=c['dt'], timescale_factor=c['tsf'], delj=delj, phi0=_small(phi0),
                          zmax=zi[0], zmin=zi[1])
            pick = {}
            force_func = delj and D <= 3

            def mixed(nm, v, _p=pick, _ff=force_func):
                if nm not in _p:
                    _p[nm] = (rng.random() < 0.5) or (_ff and not _p)
                return (lambda t, _v=v: _v) if _p[nm] else v
            styles = {'const': lambda nm, v: v, 'func': lambda nm, v: (lambda t, _v=v: _v), 'mixed': mixed}
            if force_func:
                del styles['const']
            out = {}
            fail = None
            modified = False
            layout = ('C', 'F', 'reversed-axes-view')[ci % 3] if D >= 2 else 'C'
            info['input_layout'] = layout
            for st, wrap in styles.items():
                arg = phi0.copy()
                if layout == 'F':
                    arg = np.asfortranarray(arg)                                   # same values, column-major memory
                elif layout == 'reversed-axes-view':
                    arg = np.ascontiguousarray(arg.transpose()).transpose()        # same values, a transposed view of a C array
                try:
                    res = fn(arg, xx, T, initial_t=t0, **driver_kwargs(P, D, wrap))
                except Exception as e:
                    fail = (st, repr(e))
                    break
                out[st] = np.array(res, dtype=float, copy=True)
                if D <= 3 and not np.array_equal(arg, phi0):
                    modified = True
            if fail:
                d.case(key=(D, ci), ok=False, info=dict(info, style=fail[0], error=fail[1]), fail_key='driver%d-exception' % D)
                continue
            base = 'const' if 'const' in out else 'func'
            errs = {s: _relmax(out[s], out[base]) for s in out if s != base}
            nontriv = not all(P['frozen'])
            e_ref, tol_ref = max(_line_err(out[s], want) for s in out), TOL
            d.case(key=(D, ci, 'path'), ok=all(e <= TOL_PATH for e in errs.values()), info=dict(info, base=base, err_vs_base=errs,
                   mixed_funcs=sorted(k for k, v in pick.items() if v)), nontrivial=nontriv, fail_key='driver%d-const-vs-func' % D)
            d.case(key=(D, ci, 'ref'), ok=e_ref <= tol_ref, info=dict(info, err_ref=e_ref, tol=tol_ref), nontrivial=nontriv,
                   fail_key='driver%d-vs-reference' % D)
            if modified:
                d.case(key=(D, ci, 'frame'), ok=False, info=info, fail_key='driver%d-input-modified' % D)
    finally:
        Integration.timescale_factor, Integration.use_delj_trick = saved
    return d.results()


def drv_driver_delj_const(n, tier):
    """Constant-parameter drivers (numpy coefficient assembly + tridiag / implicit_precalc_*) with use_delj_trick on."""
    import numpy as np
    import dadi
    from dadi import Integration
    d = Driver('C02', 'driver_delj_const',
               bound='use_delj_trick=True with all-constant arguments (the precomputed-coefficient path) for one_pop, two_pops, three_pops: '
                     '%d calls each with T <= one time step, inputs as in driver_<k>pop, half of them in the regime %g <= |2 M dx/V| <= %g '
                     '(or 0) and half with max (2 M dx/V) > 710 (exp overflow, no flags); result vs dense reference <= %g (metric of '
                     'driver_<k>pop) and vs the all-lambda call <= %g (regular regime)' % (n, ZMIN, ZMAX, TOL, TOL_PATH))
    rng, nprng = d.rng, d.nprng()
    saved = (Integration.timescale_factor, Integration.use_delj_trick)
    try:
        for D in (1, 2, 3):
            fn = getattr(Integration, FUNCS[D])
            hi = {1: 12, 2: 10, 3: 9}[D]
            for ci in range(n):
                regime = 'regular' if ci % 2 == 0 else 'overflow'
                c = _draw_driver_case(rng, nprng, D, hi, True, regime)
                if c is None:
                    continue
                xx, P, phi0, t0, T = c['xx'], c['P'], c['phi0'], c['t0'], c['T']
                Integration.timescale_factor = c['tsf']
                Integration.use_delj_trick = True
                want, zi = ref_step(phi0, xx, P, T - t0, True)
                info = _pinfo(P, D, xx=xx.tolist(), T=T, initial_t=t0, timescale_factor=c['tsf'], delj=True, phi0=_small(phi0),
                              zmax=zi[0], zmin=zi[1], regime=regime)
                try:
                    with np.errstate(all='ignore'):
                        got = np.array(fn(phi0.copy(), xx, T, initial_t=t0, **driver_kwargs(P, D, lambda nm, v: v)), dtype=float)
                except IndexError as e:
                    d.case(key=(D, ci), ok=False, info=dict(info, error=repr(e)), fail_key='delj-const-driver-indexerror')
                    continue
                except Exception as e:
                    d.case(key=(D, ci), ok=False, info=dict(info, error=repr(e)), fail_key='delj-const-driver-exception')
                    continue
                err = _line_err(got, want)
                if regime == 'overflow':
                    d.case(key=(D, ci), ok=err <= TOL, info=dict(info, err_ref=err), fail_key='delj-exp-overflow-const-driver')
                    continue
                d.case(key=(D, ci, 'ref'), ok=err <= TOL, info=dict(info, err_ref=err),
                       fail_key='delj-const-driver-vs-reference')
                fun = np.array(fn(phi0.copy(), xx, T, initial_t=t0, **driver_kwargs(P, D, lambda nm, v: (lambda t, _v=v: _v))), dtype=float)
                e2 = _relmax(fun, got)
                d.case(key=(D, ci, 'path'), ok=e2 <= TOL_PATH, info=dict(info, err_const_func=e2),
                       fail_key='delj-const-driver-vs-func')
    finally:
        Integration.timescale_factor, Integration.use_delj_trick = saved
    return d.results()


def drv_delj_overflow(n, tier):
    """use_delj_trick=1 with 2 M dx / V > 709: exp() overflows in compute_delj (integration_shared.c)."""
    import numpy as np
    import dadi
    import dadi.integration_c as int_c
    d = Driver('C02', 'delj_overflow',
               bound='use_delj_trick=1 in the regime max (2 M dx/V) > 710 (reachable inside the property ranges, e.g. nu=100, gamma=40 on '
                     '<=9-point grids): %d inputs per kernel for all 15 per-axis kernels (nu 20..100, gamma 20..40, h 0.2..1, m 0..1, other '
                     'inputs as in kernel_*); result must be the finite solution of the scheme with the Chang-Cooper weight '
                     '(limit 1-1/z), tolerance %g' % (n, TOL))
    rng, nprng = d.rng, d.nprng()
    for D, k in KERNELS:
        for ci in range(n):
            for _ in range(200):
                c = _kernel_case(rng, nprng, D, k)
                c['delj'] = 1
                c['nu'] = 10.0 ** rng.uniform(1.3, 2)
                c['gamma'] = rng.uniform(20, 40)
                c['h'] = rng.uniform(0.2, 1.0)
                c['ms'] = {o: rng.uniform(0, 1) for o in c['ms']}
                _, zi = ref_matrix(c['grids'], k, c['nu'], c['ms'], c['gamma'], c['h'], c['dt'], 1, beta=c['beta'])
                if zi[0] > 710:
                    break
            else:
                continue
            try:
                resid, serr, frame, zi = _run_kernel_case(int_c, c)
            except Exception as e:
                d.case(key=(kname(D, k), ci), ok=False, info=_info(c, error=repr(e)), fail_key='delj-overflow-exception')
                continue
            d.case(key=(kname(D, k), ci), ok=(resid <= TOL and serr <= TOL), info=_info(c, resid=resid, solerr=serr, zmax=zi[0]),
                   fail_key='delj-exp-overflow-kernel-nan')
    return d.results()


def drv_delj_smallz(n, tier):
    """use_delj_trick=1 with 0 < |2 M dx / V| < 1e-3: compute_delj evaluates (-e w + e V - V)/(w - e w), e = exp(w/V), which
    cancels catastrophically (error ~ eps/z^2 in delta_j, ~ eps/z relative in the flux coefficient)."""
    import numpy as np
    import dadi
    import dadi.integration_c as int_c
    d = Driver('C02', 'delj_smallz',
               bound='use_delj_trick=1 with weak advection, 0 < min|2 M dx/V| < %g: %d inputs per kernel for all 15 per-axis kernels; inputs as '
                     'in kernel_* except gamma = +-10^U(-16,-3) and every m either 0 or 10^U(-16,-3); same checks and tolerance %g '
                     '(delta_j -> 1/2 + z/12)' % (ZMIN, n, TOL))
    rng, nprng = d.rng, d.nprng()
    for D, k in KERNELS:
        for ci in range(n):
            for _ in range(200):
                c = _kernel_case(rng, nprng, D, k)
                c['delj'] = 1
                c['gamma'] = rng.choice([-1, 1]) * 10.0 ** rng.uniform(-16, -3)
                c['ms'] = {o: rng.choice([0.0, 10.0 ** rng.uniform(-16, -3)]) for o in c['ms']}
                _, zi = ref_matrix(c['grids'], k, c['nu'], c['ms'], c['gamma'], c['h'], c['dt'], 1, beta=c['beta'])
                if zi[1] < ZMIN and zi[0] <= ZMAX:
                    break
            else:
                continue
            try:
                resid, serr, frame, zi = _run_kernel_case(int_c, c)
            except Exception as e:
                d.case(key=(kname(D, k), ci), ok=False, info=_info(c, error=repr(e)), fail_key='delj-smallz-exception')
                continue
            d.case(key=(kname(D, k), ci), ok=(resid <= TOL and serr <= TOL), info=_info(c, resid=resid, solerr=serr, zmin=zi[1], zmax=zi[0]),
                   fail_key='delj-cancellation')
    return d.results()
