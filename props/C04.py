"""C04 - mass leaves only via fixation/loss; frozen and isolated marginals exact.

Contracts / lemmas (sidecar):
  integration_shared.c  compute_dfactor contract: Delta_k w_k = 1 for the trapezoid weights w_k incl. both ends      (lemma.trapezoid-weights)
                        compute_abc_nobc contract: weighted column sums of the assembled operator vanish              (lemma.column-sums)
                        => one sweep changes the trapezoid mass of a line only through the absorbing terms, which C02 proves are
                           added only on the all-zero / all-one corner lines
  integration{1..5}D.c  15 per-axis kernels: absorbing terms added exactly on the all-zero / all-one corner lines (clauses system.b.* and frame of the
                        C02 kernel contract, re-discharged here)
  Integration.py        _inject_mutations_{1..5}D: writes exactly at the unit vectors of populations that are neither frozen nor nomut, with
                        w(e_k) x_k[1] dphi = dt theta0/2; nothing else changes; returns phi
                        two_pops..five_pops: (exists k: frozen_k and some migration rate into or out of k != 0) <=> ValueError, before any integration
Frozen / isolated marginals over whole integrations, mass balance per sweep, trapz/remove_pop: bounded driver.
"""
from vf.core import Task
from vf.helpers import bounded_tasks

META = dict(
    level='other',
    explanation='Conservation of one sweep is proved as two lemmas over the verified contracts of compute_dfactor and compute_abc_nobc; the influx '
                'and the frozen-migration guard are proved on the real Python source for every flag pattern. The finite-sum exchange that turns the '
                'column-sum lemma into a statement about total mass, and the marginal identities over whole integrations, are checked by the '
                'bounded driver at 1e-11.',
    trusted_base=['double = real', 'contracts of integration_shared.c as verified in C02', 'grids start at 0 (weight of index 0 is x[1]/2)', 'vf/polyring.py'],
)


def tasks(tier):
    ts = [Task('props.C04:t_lemmas', name='C04/conservation-lemmas', timeout=600)]
    # the conservation lemmas are stated over the CONTRACTS of the grid helpers (trapezoid factors Delta_k, spacings, midpoints, coefficients):
    # the code of those helpers is checked against the contracts here too, so a change to them fails under this property as well as under C02
    for f in ('compute_dx', 'compute_xInt', 'compute_dfactor'):
        ts.append(Task('props.C04:t_shared', name='C04/shared.' + f, fname=f, timeout=300))
    ts.append(Task('props.C04:t_shared', name='C04/shared.compute_abc_nobc', fname='abc', timeout=600))
    for K in (1, 2, 3, 4, 5):
        ts.append(Task('props.wire:run', name='C04/wire.inject.%d' % K, fname='c04_inject', kwargs=dict(K=K), timeout=600))
    for name, K in (('two_pops', 2), ('three_pops', 3), ('four_pops', 4), ('five_pops', 5)):
        ts.append(Task('props.wire:run', name='C04/wire.frozen-migration.' + name, fname='c04_frozen_migration', kwargs=dict(name=name, K=K), timeout=300))
    from contracts.c_kernels import kernel_list
    for relpath, fname in kernel_list():
        if 'precalc' not in fname:
            ts.append(Task('props.C04:t_kernel_abs', name='C04/kernel-abs.' + fname, relpath=relpath, fname=fname, timeout=900))
    for nm, kw in (('remove_pop.2D.1', dict(K=2, popnum=1)), ('remove_pop.3D.2', dict(K=3, popnum=2)), ('filter_pops.4D.2', dict(K=4, tokeep=[2]))):
        ts.append(Task('props.C04:t_marginal', name='C04/wire.' + nm, kw=kw, timeout=600))
    return ts + bounded_tasks('C04', tier)


def t_marginal(kw):
    """marginalisation is the trapezoid rule along the removed axes and keeps the trapezoid mass (same contract as C06 remove/filter)"""
    from contracts import py_wiring as W
    rs = W.c06_remove_filter(**kw)
    for r in rs:
        r['id'] = r['id'].replace('C06/', 'C04/', 1)
    return rs


def t_kernel_abs(relpath, fname):
    """the absorbing-term placement and frame obligations of the kernel contract (same contract as C02, only these clauses are sent to the solver)"""
    from contracts.c_kernels import verify_kernel
    return verify_kernel(relpath, fname, pid='C04', only=['/system.b', '/frame', '/line-digits', '/structure'])


def t_lemmas():
    from contracts import c_verify as V
    return V.conservation_lemma() + V.dfactor_weights_lemma()


def t_shared(fname):
    from contracts import c_verify as V
    from contracts import c_shared as CS
    rs = V.verify_abc() if fname == 'abc' else V.verify_simple(fname, CS.SHARED)
    for r in rs:
        r['id'] = r['id'].replace('C02/', 'C04/', 1)
        if r.get('finding_key'):
            r['finding_key'] = r['finding_key'].replace('C02/', 'C04/', 1)
    return rs

MANIFEST_ENTRY = dict(
    category='other',
    engine='cvc',
    technique='lemmas over the verified C contracts (trapezoid weights, vanishing weighted column sums), E2 obligations on the real influx and '
              'guard code for every flag pattern; bounded marginal / mass-balance checks over whole integrations',
    text='Proved for all inputs: Delta_k w_k = 1 at every node, and the weighted column sums of the assembled tridiagonal operator vanish, so a '
         'sweep changes trapezoid mass only through the absorbing terms (placed on the corner lines only, C02); the influx functions write exactly '
         'at the unit vectors of the mutating populations with w x dphi = dt theta0/2 and nothing else; a frozen population with any migration '
         'in or out is rejected before integration, in 2-5 populations. Frozen and isolated marginals over whole integrations and the total mass '
         'balance are bounded run-time checks at 1e-11.',
    note='the exchange of finite sums (telescoping) and whole-integration identities are not proved; floats as reals',
)
