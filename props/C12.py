"""C12 - optimisers honour bounds and fixed parameters and report the point they found.

Contracts (sidecar; the scipy / nlopt optimisers are opaque: x* = OPT(objective, x0, bounds)):
  Inference._project_params_down(pin, fixed) / _project_params_up(pin, fixed)          (lengths 1..4, every fixed mask)
      ensures  up(down(p)) agrees with p on the free slots and with `fixed` on the fixed slots; down(up(q)) == q
  Inference._object_func(params, data, model_func, pts, lower_bound, upper_bound, ..., fixed_params, ...)
      ensures  on every path that calls model_func: every given bound holds for the expanded parameters (path condition);
               model_func receives up(params, fixed) (fixed slots at their fixed values), data.sample_sizes, func_args, pts by keyword;
               the caller's func_kwargs is not mutated; out-of-bounds returns the penalty without calling the model
  Inference.optimize / optimize_log / optimize_lbfgsb / optimize_log_lbfgsb / optimize_log_fmin / optimize_log_powell / optimize_cons
      ensures  objective is _object_func (natural) or _object_func_log (log variants); start handed over = tau(down(p0)) with tau = log exactly
               for the log variants; `args` binds to _object_func's parameters so that bounds, fixed_params, model, data arrive in
               their own slots (lbfgsb/cons: bounds go to the optimiser instead, transformed by tau); returned vector = up(tau^-1(x*))
  NLopt_mod.opt(p0, ..., log_opt)
      ensures  start = tau(down(p0)); bounds handed to nlopt = tau(down(bounds)); objective(x) = -_object_func(tau^-1(x), ...);
               returned vector = up(tau^-1(x*)) of the optimiser's own x*
  Misc.perturb_params
      ensures  1.01*lb <= result <= 0.99*ub elementwise whenever 1.01*lb <= 0.99*ub  (hence within bounds for 0 <= lb, 0 < ub);
               caller's lists unchanged
"""
import itertools, ast
import z3
from vf.core import Task, R
from vf.helpers import prove, prove_eq, discharge, struct, guarded, reals, bounded_tasks
from vf.pyvc import (Executor, Tm, VList, VDict, PyFn, PyRaise, FuncRef, Closure, vrepr, term_eq, Unsupported, to_real,
                     Fraction, is_scalar)

INF = 'dadi/Inference.py'

META = dict(
    level='other',
    explanation='dadi\'s side of every optimiser call is decided by symbolic execution of the real wrappers: what is handed to the opaque '
                'optimiser (objective, start, bounds, args) and what is done with its result. The objective\'s bound guard and the '
                'fixed-parameter expansion are proved for all values (lengths 1-4, every fixed mask). The optimisers themselves are '
                'opaque; evaluations actually made, first-evaluation-is-start and "no worse than start" are bounded run-time checks.',
    trusted_base=['scipy.optimize.* and nlopt are opaque (x* is an arbitrary vector)', 'E2 executor semantics (DESIGN 4)', 'floats as reals',
                  'numpy.log/exp uninterpreted (only their placement is checked)'],
)

WRAPPERS = {
    # name: (optimiser attribute, objective, log?, where bounds go: 'args' | 'optimizer')
    'optimize': ('fmin_bfgs', '_object_func', False, 'args'),
    'optimize_log': ('fmin_bfgs', '_object_func_log', True, 'args'),
    'optimize_lbfgsb': ('fmin_l_bfgs_b', '_object_func', False, 'optimizer'),
    'optimize_log_lbfgsb': ('fmin_l_bfgs_b', '_object_func_log', True, 'optimizer'),
    'optimize_log_fmin': ('fmin', '_object_func_log', True, 'args'),
    'optimize_log_powell': ('fmin_powell', '_object_func_log', True, 'args'),
    'optimize_cons': ('fmin_slsqp', '_object_func', False, 'optimizer'),
}


def tasks(tier):
    ts = []
    for n in (1, 2, 3, 4):
        ts.append(Task('props.C12:ob_project', name='C12/project.%d' % n, n=n, timeout=200))
    for mask in ((None, None), (None, 'f'), ('f', None)):
        ts.append(Task('props.C12:ob_object_func', name='C12/object_func.%s' % ''.join('F' if m else '-' for m in mask), mask=mask, timeout=200))
    ts.append(Task('props.C12:ob_object_func_log', name='C12/object_func_log', timeout=60))
    for w in WRAPPERS:
        for fixed in (False, True):
            ts.append(Task('props.C12:ob_wrapper', name='C12/wrapper.%s.%s' % (w, 'fixed' if fixed else 'free'), wname=w, fixed=fixed, timeout=200))
    for log in (False, True):
        for fixed in (False, True):
            ts.append(Task('props.C12:ob_nlopt', name='C12/nlopt.%s.%s' % ('log' if log else 'lin', 'fixed' if fixed else 'free'), log=log, fixed=fixed, timeout=200))
    ts.append(Task('props.C12:ob_perturb', name='C12/perturb_params', timeout=120))
    ts += bounded_tasks('C12', tier)
    return ts


def inf_policy(inline):
    def pol(fr):
        return 'inline' if fr.qualname in inline else 'abstract'
    return pol


# ---------------------------------------------------------------- projection of parameters
def ob_project(n):
    oid = 'C12/Inference.py:_project_params/n%d' % n
    fn = 'dadi/Inference.py::_project_params_up'

    @guarded(oid, fn)
    def go():
        out = []
        ex = Executor(policy=lambda fr: 'inline')
        up, down = ex.func(INF, '_project_params_up'), ex.func(INF, '_project_params_down')
        for mask in itertools.product([False, True], repeat=n):
            tag = ''.join('F' if m else '-' for m in mask)
            ps = reals('p', n)
            fx = [z3.Real('fix%d' % i) if m else None for i, m in enumerate(mask)]
            nfree = mask.count(False)

            def thunk(ex):
                p = VList(ps, 'ndarray'); p.owner = 'pin'
                fixed = VList(fx); fixed.owner = 'fixed'
                d = ex.apply(down.node, None, down.mod, [p, fixed], {}, 'down')
                u = ex.apply(up.node, None, up.mod, [d, fixed], {}, 'up')
                q = VList(reals('q', nfree), 'ndarray')
                u2 = ex.apply(up.node, None, up.mod, [q, fixed], {}, 'up')
                d2 = ex.apply(down.node, None, down.mod, [u2, fixed], {}, 'down')
                bad = [e for e in ex.ctx.log if e[0] == 'mutate' and e[3] in ('pin', 'fixed')]
                return d, u, q, d2, bad
            paths = ex.explore(thunk)
            if len(paths) != 1 or paths[0].outcome != 'return':
                out.append(struct('%s.%s' % (oid, tag), False, 'expected one returning path: %r' % paths, fn))
                continue
            d, u, q, d2, bad = paths[0].value
            ok = isinstance(d, VList) and len(d.items) == nfree and isinstance(u, VList) and len(u.items) == n and len(d2.items) == nfree
            goals = []
            if ok:
                for i in range(n):
                    goals.append((to_real(u.items[i]) == (fx[i] if mask[i] else ps[i]), 'up(down(p))[%d]' % i))
                for j in range(nfree):
                    goals.append((to_real(d2.items[j]) == to_real(q.items[j]), 'down(up(q))[%d]' % j))
            mm = discharge(goals, []) if ok else 'wrong lengths'
            out.append(struct('%s.%s' % (oid, tag), ok and mm is None, mm or 'up(down(p)) = p on free / fixed on fixed slots; down(up(q)) = q; lengths %d/%d' % (nfree, n), fn))
            out.append(struct('%s.%s.frame' % (oid, tag), not bad, 'inputs not mutated: %r' % (bad,), fn))
        # length mismatch is rejected
        paths = ex.explore(lambda ex: ex.apply(down.node, None, down.mod, [VList(reals('p', n)), VList([None] * (n + 1))], {}, 'down'))
        out.append(struct(oid + '.length-mismatch', all(p.outcome == 'raise' and p.exc.kind == 'ValueError' for p in paths), 'down() with a fixed list of another length raises ValueError', fn))
        return out
    return go()


# ---------------------------------------------------------------- objective
def ob_object_func(mask):
    tag = ''.join('F' if m else '-' for m in mask)
    oid = 'C12/Inference.py:_object_func/%s' % tag
    fn = 'dadi/Inference.py::_object_func'

    @guarded(oid, fn)
    def go():
        n = len(mask)
        ex = Executor(policy=inf_policy({'_project_params_up'}), max_paths=2000)
        f = ex.func(INF, '_object_func')
        fx = [z3.Real('fix%d' % i) if m else None for i, m in enumerate(mask)]
        nfree = list(mask).count(None)
        ps = reals('p', nfree)
        lbs = [z3.Real('lb0'), None][:n] if n == 2 else [z3.Real('lb0')]
        ubs = [None, z3.Real('ub1')][:n]
        data = Tm('data')
        data.attrs['sample_sizes'] = Tm('ns')
        rec = {}

        def model(*a, **k):
            rec['args'], rec['kw'] = a, dict(k)
            return Tm('sfs')
        out = []

        def thunk(ex):
            rec.clear()
            kw = VDict({'extra': Tm('kwval')}); kw.owner = 'func_kwargs'
            fa = VList([Tm('farg')]); fa.owner = 'func_args'
            params = VList(ps, 'ndarray'); params.owner = 'params'
            r = ex.apply(f.node, None, f.mod, [params, data, PyFn(model, 'model_func'), Tm('pts')],
                         dict(lower_bound=VList(lbs), upper_bound=VList(ubs), multinom=True, func_args=fa, func_kwargs=kw,
                              fixed_params=VList(fx), ll_scale=z3.Real('ll_scale')), '_object_func')
            bad = [e for e in ex.ctx.log if e[0] == 'mutate' and e[3] in ('func_kwargs', 'func_args', 'params')]
            return r, dict(rec), bad, dict(kw.d)
        paths = ex.explore(thunk)
        called = 0
        full = []          # expanded parameter vector
        it = iter(ps)
        for i in range(n):
            full.append(fx[i] if mask[i] else next(it))
        for k, p in enumerate(paths):
            if p.outcome != 'return':
                out.append(struct('%s.path%d' % (oid, k), False, 'raises %s' % p.exc, fn))
                continue
            r, rc, bad, kwd = p.value
            out.append(struct('%s.path%d.frame' % (oid, k), not bad and set(kwd) == {'extra'}, "caller's func_kwargs/func_args/params untouched: %r" % (bad,), fn))
            inb = z3.And(*([to_real(full[i]) >= lbs[i] for i in range(n) if lbs[i] is not None] + [to_real(full[i]) <= ubs[i] for i in range(n) if ubs[i] is not None]))
            if rc:
                called += 1
                out.append(prove('%s.path%d.bounds' % (oid, k), p.pc, inb, func=fn))
                a = rc['args']
                goals = []
                mm = None
                if not (len(a) == 3 and isinstance(a[0], VList) and len(a[0].items) == n):
                    mm = 'model_func called with %s' % vrepr(a)
                else:
                    for i in range(n):
                        goals.append((to_real(a[0].items[i]) == to_real(full[i]), 'params_up[%d]' % i))
                    mm = discharge(goals, p.pc)
                    if a[1] is not data.attrs['sample_sizes'] or not (isinstance(a[2], Tm) and a[2].op == 'farg'):
                        mm = 'ns / func_args not forwarded'
                    if set(rc['kw']) != {'extra', 'pts'} or not (isinstance(rc['kw']['pts'], Tm) and rc['kw']['pts'].op == 'pts'):
                        mm = 'pts not passed by keyword next to the caller\'s kwargs: %s' % sorted(rc['kw'])
                out.append(struct('%s.path%d.model-args' % (oid, k), mm is None, mm or 'model_func(up(params), ns, *func_args, pts=pts, **func_kwargs)', fn))
            else:
                # no model call: must be out of bounds, penalty returned
                out.append(prove('%s.path%d.penalty-only-out-of-bounds' % (oid, k), p.pc, z3.Not(inb), func=fn))
                out.append(prove_eq('%s.path%d.penalty' % (oid, k), p.pc + [z3.Real('ll_scale') != 0], r, z3.RealVal(10 ** 8) / z3.Real('ll_scale'), func=fn))
        out.append(struct(oid + '.paths', called >= 1 and len(paths) > called, '%d paths, %d evaluate the model' % (len(paths), called), fn))
        return out
    return go()


def ob_object_func_log():
    oid = 'C12/Inference.py:_object_func_log'
    fn = 'dadi/Inference.py::_object_func_log'

    @guarded(oid, fn)
    def go():
        ex = Executor()
        f = ex.func(INF, '_object_func_log')
        x = VList(reals('x', 2), 'ndarray')
        a1, k1 = Tm('a1'), Tm('k1')
        paths = ex.run(f, [x, a1, Tm('model'), Tm('pts')], dict(verbose=k1))
        ok = len(paths) == 1 and paths[0].outcome == 'return'
        if ok:
            t = paths[0].value
            ok = isinstance(t, Tm) and t.op == 'call:dadi.Inference._object_func'
            if ok:
                d = dict(zip(t.attrs['__argnames__'], t.args))
                pv = d['params']
                from vf.pyvc import uf
                ok = isinstance(pv, VList) and all(z3.simplify(to_real(pv.items[i])).eq(uf('exp')(z3.Real('x%d' % i))) for i in range(2)) \
                    and d['data'] is a1 and d['verbose'] is k1
        return [struct(oid, bool(ok), '_object_func_log(x, *a, **k) = _object_func(exp(x), *a, **k): %r' % paths, fn)]
    return go()



def _check_result(res, n, fixed, fx, log):
    """returned vector == up(tau^-1(x*), fixed)"""
    whole = 'call:numpy.exp(xstar)' if log else 'xstar'
    if not fixed:
        return None if vrepr(res) == whole else 'result is %s (expected %s)' % (vrepr(res), whole)
    if not (isinstance(res, VList) and len(res.items) == n):
        return 'result is %s' % vrepr(res)
    j = 0
    for i in range(n):
        it = res.items[i]
        if i == 1:
            if not (isinstance(it, z3.ExprRef) and it.eq(fx[1])):
                return 'fixed slot returns %s' % vrepr(it)
        else:
            want_s = 'getitem(%s, %d)' % (whole, j)
            if vrepr(it) != want_s:
                return 'free slot %d returns %s (expected %s)' % (i, vrepr(it), want_s)
            j += 1
    return None


# ---------------------------------------------------------------- scipy wrappers
def ob_wrapper(wname, fixed):
    optname, objective, log, bounds_to = WRAPPERS[wname]
    oid = 'C12/Inference.py:%s/%s' % (wname, 'fixed' if fixed else 'free')
    fn = 'dadi/Inference.py::' + wname

    @guarded(oid, fn)
    def go():
        ex = Executor(policy=inf_policy({'_project_params_up', '_project_params_down'}))
        f = ex.func(INF, wname)
        n = 3
        ps = reals('p', n)
        fx = [None, z3.Real('fix1'), None] if fixed else None
        free = [0, 2] if fixed else [0, 1, 2]
        lbs, ubs = reals('lb', n), reals('ub', n)
        data, model, pts = Tm('data'), Tm('model_func'), Tm('pts')
        captured = {}

        def hook(ex_, fref, a, kw, ctx):
            if isinstance(fref, Tm) and fref.op == 'attr:' + optname:
                captured['a'], captured['kw'] = list(a), dict(kw)
                t = Tm('OPT')
                t.attrs['__items__'] = [Tm('xstar')] + [Tm('out%d' % i) for i in range(1, 8)]
                if optname == 'brute':
                    return Tm('xstar')
                return t
            return NotImplemented
        ex.abstract_hook = hook
        assumed = []

        def setitem_hook(ex_, obj, k, v):
            # bounds[numpy.isnan(bounds)] = None : no-op under the stated assumption that log(bound) is defined (bounds > 0)
            if isinstance(obj, VList) and isinstance(k, Tm) and 'isnan' in k.op and v is None:
                assumed.append('log(bound) is not NaN (bounds > 0)')
                return True
            return False
        ex.setitem_hook = setitem_hook

        def thunk(ex):
            p0 = VList(ps, 'ndarray'); p0.owner = 'p0'
            lb = VList(lbs, 'ndarray'); lb.owner = 'lower_bound'
            ub = VList(ubs, 'ndarray'); ub.owner = 'upper_bound'
            kw = dict(lower_bound=lb, upper_bound=ub, fixed_params=VList(fx) if fx else None)
            r = ex.apply(f.node, None, f.mod, [p0, data, model, pts], kw, wname)
            bad = [e for e in ex.ctx.log if e[0] == 'mutate' and e[3] in ('p0', 'lower_bound', 'upper_bound')]
            return r, bad, lb, ub
        paths = ex.explore(thunk)
        out = []
        rets = [p for p in paths if p.outcome == 'return']
        if not rets or 'a' not in captured:
            return [struct(oid, False, 'no returning path reaches scipy.optimize.%s: %r' % (optname, paths), fn, undecided=not paths)]
        for k, p in enumerate(rets):
            r, bad, lb, ub = p.value
            a, kw = captured['a'], captured['kw']
            # objective
            obj = a[0] if a else kw.get('func')
            out.append(struct('%s.path%d.objective' % (oid, k), isinstance(obj, FuncRef) and obj.qualname == objective,
                              'objective handed to %s is %s (expected %s)' % (optname, getattr(obj, 'qualname', obj), objective), fn))
            # start
            x0 = a[1] if len(a) > 1 else kw.get('x0')
            want = [ps[i] for i in free]
            goals = []
            mm = None
            if not (isinstance(x0, VList) and len(x0.items) == len(want)):
                mm = 'start vector is %s' % vrepr(x0)
            else:
                from vf.pyvc import uf
                for xi, wi in zip(x0.items, want):
                    goals.append((to_real(xi) == (uf('log')(wi) if log else wi), 'x0'))
                mm = discharge(goals, p.pc)
            out.append(struct('%s.path%d.start' % (oid, k), mm is None, mm or 'start = %s(down(p0))' % ('log' if log else 'identity'), fn,
                              finding_key='C12/%s/start' % wname))
            # args bind to _object_func's parameters
            of = ex.func(INF, '_object_func')
            args = kw.get('args')
            try:
                b = ex.bind(of.node, of.mod, [Tm('params')] + list(args), {}, None)
            except Exception as e:
                b = None
            okb = b is not None and b['data'] is data and b['model_func'] is model and b['pts'] is pts
            if okb:
                fp = b['fixed_params']
                okb = (fp is None and not fixed) or (isinstance(fp, VList) and fixed and all((x is None and y is None) or (x is not None and y is not None and x.eq(y)) for x, y in zip(fp.items, fx)))
            if okb:
                if bounds_to == 'args':
                    okb = b['lower_bound'] is lb and b['upper_bound'] is ub
                else:
                    okb = b['lower_bound'] is None and b['upper_bound'] is None
            out.append(struct('%s.path%d.args' % (oid, k), bool(okb), 'args bind data/model/pts/bounds/fixed_params into their own slots of _object_func', fn))
            if bounds_to == 'optimizer':
                bd = kw.get('bounds')
                from vf.pyvc import uf
                items = list(bd.items) if isinstance(bd, VList) else (list(bd) if isinstance(bd, tuple) else None)
                mm = None
                if items is None or len(items) != len(free):
                    mm = 'bounds handed to the optimiser: %s' % vrepr(bd)
                else:
                    goals = []
                    for (l, u), i in zip(items, free):
                        goals.append((to_real(l) == (uf('log')(lbs[i]) if log else lbs[i]), 'lower[%d]' % i))
                        goals.append((to_real(u) == (uf('log')(ubs[i]) if log else ubs[i]), 'upper[%d]' % i))
                    try:
                        mm = discharge(goals, p.pc)
                    except Exception as e:
                        mm = 'bounds not comparable: %r' % e
                out.append(struct('%s.path%d.bounds' % (oid, k), mm is None, mm or 'optimiser bounds = %s(down(bounds)) pairwise' % ('log' if log else 'identity'), fn))
            # result
            res = r[0] if isinstance(r, tuple) else r
            mm = _check_result(res, n, fixed, fx, log)
            out.append(struct('%s.path%d.result' % (oid, k), mm is None, mm or 'returns up(%s(x*), fixed)' % ('exp' if log else 'identity'), fn,
                              finding_key='C12/%s/result' % wname))
            out.append(struct('%s.path%d.frame' % (oid, k), not bad, "caller's p0 / bounds not mutated: %r" % (bad,), fn))
        return out
    return go()


# ---------------------------------------------------------------- nlopt driver
def ob_nlopt(log, fixed):
    oid = 'C12/NLopt_mod.py:opt/%s.%s' % ('log' if log else 'lin', 'fixed' if fixed else 'free')
    fn = 'dadi/NLopt_mod.py::opt'

    @guarded(oid, fn)
    def go():
        from vf.pyvc import uf, ModInfo
        ex = Executor(policy=inf_policy({'_project_params_up', '_project_params_down'}))
        f = ex.func('dadi/NLopt_mod.py', 'opt')
        n = 3
        ps = reals('p', n)
        fx = [None, z3.Real('fix1'), None] if fixed else None
        free = [0, 2] if fixed else [0, 1, 2]
        lbs, ubs = reals('lb', n), reals('ub', n)
        data, model, pts = Tm('data'), Tm('model_func'), Tm('pts')
        st = {}

        class Opt:
            pass

        def getattr_hook(ex_, obj, name, ctx):
            if isinstance(obj, Tm) and obj.op == 'nlopt.opt':
                def meth(*a, **k):
                    st.setdefault(obj.uid, {}).setdefault(name, []).append(a)
                    if name == 'optimize':
                        return Tm('xstar')
                    if name == 'last_optimum_value':
                        return Tm('optval')
                    return None
                return PyFn(meth, 'nlopt.opt.' + name)
            return NotImplemented

        def hook(ex_, fref, a, kw, ctx):
            if isinstance(fref, Tm) and fref.op == 'lib:nlopt.opt':
                t = Tm('nlopt.opt')
                st[t.uid] = {'__order__': len(st)}
                return t
            return NotImplemented
        ex.abstract_hook, ex.getattr_hook = hook, getattr_hook

        def thunk(ex):
            st.clear()
            p0 = VList(ps, 'ndarray'); p0.owner = 'p0'
            lb = VList(lbs); lb.owner = 'lower_bound'
            ub = VList(ubs); ub.owner = 'upper_bound'
            kw = dict(lower_bound=lb, upper_bound=ub, fixed_params=VList(fx) if fx else None, log_opt=log)
            r = ex.apply(f.node, None, f.mod, [p0, data, model, pts], kw, 'opt')
            bad = [e for e in ex.ctx.log if e[0] == 'mutate' and e[3] in ('p0', 'lower_bound', 'upper_bound')]
            return r, bad, {k: dict(v) for k, v in st.items()}
        paths = ex.explore(thunk)
        rets = [p for p in paths if p.outcome == 'return']
        out = []
        if not rets:
            return [struct(oid, False, 'no returning path: %r' % paths, fn, undecided=True)]
        tau = (lambda v: uf('log')(v)) if log else (lambda v: v)
        for k, p in enumerate(rets):
            r, bad, calls = p.value
            main = [v for v in calls.values() if 'optimize' in v]
            if len(main) != 1:
                out.append(struct('%s.path%d' % (oid, k), False, 'expected one nlopt.opt object being optimised', fn, undecided=True))
                continue
            m = main[0]
            # start
            x0 = m['optimize'][0][0]
            goals = [(to_real(xi) == tau(ps[i]), 'x0[%d]' % i) for xi, i in zip(x0.items, free)] if isinstance(x0, VList) and len(x0.items) == len(free) else None
            mm = 'start is %s' % vrepr(x0) if goals is None else discharge(goals, p.pc)
            out.append(struct('%s.path%d.start' % (oid, k), mm is None, mm or 'start = tau(down(p0))', fn))
            for nm, src in (('set_lower_bounds', lbs), ('set_upper_bounds', ubs)):
                b = m.get(nm, [[None]])[0][0]
                items = b.items if isinstance(b, VList) else None
                goals = [(to_real(bi) == tau(src[i]), '%s[%d]' % (nm, i)) for bi, i in zip(items, free)] if items is not None and len(items) == len(free) else None
                mm = '%s got %s' % (nm, vrepr(b)) if goals is None else discharge(goals, p.pc)
                out.append(struct('%s.path%d.%s' % (oid, k, nm), mm is None, mm or '%s(tau(down(bound)))' % nm, fn))
            # objective closure: f(x, grad) = -_object_func(tau^-1 x, data, model, pts, ..., fixed_params)
            objf = m.get('set_max_objective', [[None]])[0][0]
            ok = isinstance(objf, Closure)
            if ok:
                x = VList(reals('x', len(free)), 'ndarray')
                grad = Tm('grad')
                grad.attrs['size'] = 0
                ps2 = ex.explore(lambda ex: ex.call(objf, [x, grad], {}))
                ok = len(ps2) == 1 and ps2[0].outcome == 'return' and isinstance(ps2[0].value, Tm) and ps2[0].value.op == 'neg'
                if ok:
                    t = ps2[0].value.args[0]
                    ok = isinstance(t, Tm) and t.op == 'call:dadi.Inference._object_func'
                if ok:
                    d = dict(zip(t.attrs['__argnames__'], t.args))
                    pv = d['params']
                    want = ['exp(x%d)' % i if log else 'x%d' % i for i in range(len(free))]
                    ok = isinstance(pv, VList) and [str(z3.simplify(to_real(v))) for v in pv.items] == want and d['data'] is data and d['model_func'] is model and d['pts'] is pts
                    fp = d['fixed_params']
                    ok = ok and ((fp is None and not fixed) or (isinstance(fp, VList) and fixed))
            out.append(struct('%s.path%d.objective' % (oid, k), bool(ok), 'objective(x) = -_object_func(tau^-1(x), data, model_func, pts, ..., fixed_params)', fn))
            # result
            res = r[0] if isinstance(r, tuple) else r
            mm = _check_result(res, n, fixed, fx, log)
            out.append(struct('%s.path%d.result' % (oid, k), mm is None, mm or 'returns up(tau^-1(x*)) of the optimiser\'s own x*', fn,
                              witness=None if mm is None else _replay_nlopt(log), finding_key='C12/nlopt.opt/result-%s' % ('log' if log else 'lin')))
            out.append(struct('%s.path%d.frame' % (oid, k), not bad, "caller's p0 / bounds not mutated: %r" % (bad,), fn))
        return out
    return go()


def _replay_nlopt(log):
    try:
        import numpy, dadi
        from dadi import Inference

        def model(params, ns, pts):
            a, b = params
            x = numpy.arange(ns[0] + 1, dtype=float)
            return dadi.Spectrum(a * numpy.exp(-b * x) + 0.1)
        data = model([3.0, 0.5], [12], None) * 10
        p0 = [1.0, 1.5]
        popt, ll = Inference.opt(p0, data, model, None, lower_bound=[0.1, 0.1], upper_bound=[10, 10], log_opt=log, multinom=False, maxeval=200)
        ll_at = Inference.ll(model(popt, [12], None), data)
        ok = abs(ll_at - ll) <= 1e-6 * max(1, abs(ll))
        return dict(replayed=True, inputs=dict(p0=p0, log_opt=log), returned=[float(x) for x in popt], reported_ll=float(ll), ll_at_returned=float(ll_at),
                    postcondition_holds_natively=bool(ok))
    except Exception as e:
        return dict(replayed=False, error=repr(e)[:300])


# ---------------------------------------------------------------- perturb_params
def ob_perturb():
    oid = 'C12/Misc.py:perturb_params'
    fn = 'dadi/Misc.py::perturb_params'

    @guarded(oid, fn)
    def go():
        ex = Executor()
        f = ex.func('dadi/Misc.py', 'perturb_params')
        n = 2
        ps, lbs, ubs = reals('p', n), reals('lb', n), reals('ub', n)

        def thunk(ex):
            p = VList(ps, 'ndarray'); p.owner = 'params'
            lb = VList(lbs); lb.owner = 'lower_bound'
            ub = VList(ubs); ub.owner = 'upper_bound'
            r = ex.apply(f.node, None, f.mod, [p], dict(fold=z3.Real('fold'), lower_bound=lb, upper_bound=ub), 'perturb_params')
            bad = [e for e in ex.ctx.log if e[0] == 'mutate' and e[3] in ('params', 'lower_bound', 'upper_bound')]
            return r, bad
        paths = ex.explore(thunk)
        out = []
        for k, p in enumerate(paths):
            if p.outcome != 'return':
                out.append(struct('%s.path%d' % (oid, k), False, 'raises %s' % p.exc, fn))
                continue
            r, bad = p.value
            out.append(struct('%s.path%d.frame' % (oid, k), not bad, "caller's lists not mutated: %r" % (bad,), fn, finding_key='C12/perturb_params/frame'))
            if not (isinstance(r, VList) and len(r.items) == n):
                out.append(struct('%s.path%d.shape' % (oid, k), False, 'result %s' % vrepr(r), fn, undecided=True))
                continue
            for i in range(n):
                ri = to_real(r.items[i])
                lo, hi = Fraction(101, 100) * lbs[i], Fraction(99, 100) * ubs[i]
                out.append(prove('%s.path%d.upper.%d' % (oid, k, i), p.pc, ri <= hi, func=fn))
                out.append(prove('%s.path%d.lower.%d' % (oid, k, i), p.pc + [lo <= hi], ri >= lo, func=fn))
                out.append(prove('%s.path%d.within.%d' % (oid, k, i), p.pc + [lbs[i] >= 0, ubs[i] > 0, lo <= hi], z3.And(ri >= lbs[i], ri <= ubs[i]), func=fn))
        out.append(struct(oid + '.paths', len(paths) >= 1, '%d paths' % len(paths), fn))
        return out
    return go()


def replay(rec):
    import json
    print(json.dumps(rec, indent=1)[:3000])
    if 'nlopt' in rec.get('obligation', '').lower() or 'NLopt' in rec.get('obligation', ''):
        print(_replay_nlopt('log' in rec['obligation']))
    return 0


MANIFEST_ENTRY = dict(
    category='other',
    technique='contracts on the real optimiser wrappers with the optimiser as an uninterpreted x* = OPT(f, x0, bounds): program-algebra and '
              'path-condition obligations from the AST (z3); bounded instrumented optimiser runs as complement',
    text='Proved on every path of the real source: parameter expansion/contraction are mutually inverse (lengths 1-4, every fixed mask); the '
         'objective evaluates the model only inside the given bounds, at the fixed values, without mutating the caller\'s kwargs; each scipy '
         'wrapper and NLopt_mod.opt hands the optimiser the right objective, tau(down(p0)) as start and tau(down(bounds)) where bounds go to '
         'the optimiser, binds args into the objective\'s own slots and returns up(tau^-1(x*)) with tau = log exactly for the log variants; '
         'perturb_params stays in [1.01 lb, 0.99 ub] and leaves its arguments alone. What the opaque optimisers actually evaluate (first '
         'point, in-bounds, reported optimum = likelihood at the returned point, not worse than the start) is a bounded run-time check.',
    note='scipy.optimize / nlopt opaque; floats as reals; wrappers verified with 3 parameters and one fixed mask; optimize_grid only through the bounded driver',
)
