"""C20 - Results are independent of call history; inputs are never modified in place

Contracts: the obligations listed in tasks() (contracts/py_wiring.py, contracts/py_memo.py, contracts/c_*.py) are generated from the real source on every run and
discharged by z3 / the ring normaliser; clauses outside their reach are run-time contracts over stated bounded domains (props/bounded_C20.py).
"""
from vf.helpers import bounded_tasks

META = dict(
    level='other',
    explanation='Wiring / closed-form / memo-key contracts generated from the real source and discharged by z3 and the ring normaliser for the functions within reach (see coverage.obligations); the remaining clauses are run-time contracts over the bounded domain stated per driver (bounded stand-in, never counted as proved).',
    trusted_base=['oracles of props/bounded_C20.py (independent of dadi: exact rationals, mpmath, dense linear algebra, explicit index loops)'],
    rule='cases enumerated or sampled as stated in each driver\'s bound; a case is non-trivial unless the driver marks it degenerate; distinct by its key',
)


def tasks(tier):
    from vf.core import Task
    return [Task('props.C20:ob_memo', name='C20/memo-keys', timeout=120), Task('props.wire:run', name='C20/wire.c20_cov_dist_order', fname='c20_cov_dist_order', timeout=300)] + [Task('props.wire:run', name='C20/wire.c20_integrator_frame', fname='c20_integrator_frame_semantic', timeout=600), Task('props.wire:run', name='C20/wire.c20_frame_small', fname='c20_frame_small', timeout=300),
            Task('props.C20:t_S_frame', name='C20/wire.S_frame', timeout=120)] + _kernel_frames() + bounded_tasks('C20', tier)


def _kernel_frames():
    from vf.core import Task
    from contracts.c_kernels import kernel_list
    return [Task('props.C20:t_kernel_frame', name='C20/kernel-frame.' + fname, relpath=relpath, fname=fname, timeout=900) for relpath, fname in kernel_list()]


def t_kernel_frame(relpath, fname):
    """the compiled kernels write only the density they are handed (and their own scratch): frame clauses of the kernel contract (same contract as C02)"""
    from contracts.c_kernels import verify_kernel
    return verify_kernel(relpath, fname, pid='C20', only=['/frame', '/structure'])


def t_S_frame():
    """Spectrum.S() re-masks the corners temporarily and puts the caller's mask back (same contract as C13)"""
    from contracts import py_wiring as W
    rs = W.c13_S_frame()
    for r in rs:
        r['id'] = r['id'].replace('C13/', 'C20/', 1)
    return rs


def ob_memo():
    from contracts.py_memo import all_memo_obligations
    return all_memo_obligations('C20', only=None)


MANIFEST_ENTRY = dict(
    category='other',
    engine='bounded',
    technique='sidecar contracts on the real functions: wiring / closed-form obligations from the AST discharged by z3 and the ring normaliser where the functions are within reach; bounded run-time contracts with independent oracles for the rest (never counted as proved)',
    text='Discharged from the real source on every run (all values, stated small shapes): integrators work on a fresh C-contiguous copy and a contiguous grid (syntactic dataflow), memo keys of 6 caches injective, perturb_params frame, compute_cov_dist order (no set iteration), frame clauses of all 20 compiled kernels, S() mask frame. Bounded run-time contracts (never counted as proved): Frame (inputs hashed before/after), aliasing, memory layouts, call-history and hash-seed independence over a table of 87 API calls.',
    note='bounded: see coverage.bounded.drivers[].bound in the evidence file for the exact domain of every driver',
)
