"""C14 - Spectra survive file and pickle round trips with data, mask, folding and labels

Contracts: the obligations listed in tasks() (contracts/py_wiring.py, contracts/py_memo.py, contracts/c_*.py) are generated from the real source on every run and
discharged by z3 / the ring normaliser; clauses outside their reach are run-time contracts over stated bounded domains (props/bounded_C14.py).
"""
from vf.helpers import bounded_tasks

META = dict(
    level='other',
    explanation='Wiring / closed-form / memo-key contracts generated from the real source and discharged by z3 and the ring normaliser for the functions within reach (see coverage.obligations); the remaining clauses are run-time contracts over the bounded domain stated per driver (bounded stand-in, never counted as proved).',
    trusted_base=['oracles of props/bounded_C14.py (independent of dadi: exact rationals, mpmath, dense linear algebra, explicit index loops)'],
    rule='cases enumerated or sampled as stated in each driver\'s bound; a case is non-trivial unless the driver marks it degenerate; distinct by its key',
)


def tasks(tier):
    from vf.core import Task
    return [Task('props.wire:run', name='C14/wire.c14_pickle_wiring', fname='c14_pickle_wiring', timeout=300), Task('props.wire:run', name='C14/wire.to_file', fname='c14_to_file_wiring', timeout=300), Task('props.wire:run', name='C14/wire.from_file', fname='c14_from_file_wiring', timeout=300), Task('props.wire:run', name='C14/wire.array_file', fname='c14_array_file_wiring', timeout=300)] + bounded_tasks('C14', tier)


MANIFEST_ENTRY = dict(
    category='other',
    engine='bounded',
    technique='sidecar contracts on the real functions: wiring / closed-form obligations from the AST discharged by z3 and the ring normaliser where the functions are within reach; bounded run-time contracts with independent oracles for the rest (never counted as proved)',
    text='Discharged from the real source on every run (all values, stated small shapes): pickle wiring; to_file: header text, logical (C-order) data and mask lines, format strings, gzip/plain open mode, close; from_file on the same header text (new, label-free, labels with outer blanks, and pre-1.3 formats): metadata round trip; generic array_to_file / array_from_file. Bounded run-time contracts (never counted as proved): File, gzip, pickle and generic array round trips over random spectra with exact printed-precision oracle.',
    note='bounded: see coverage.bounded.drivers[].bound in the evidence file for the exact domain of every driver',
)
