"""E4 bounded driver for C19: Godambe.py stencils, closed-form information for linear Poisson models,
bootstrap-order independence, the mixture chi-square tail, and the module-level spectrum cache.

Oracles: the quadratic's own coefficients (exact; function values in Fraction arithmetic on dyadic inputs so the
stencil arithmetic itself is exact), analytic derivatives of the Poisson log-likelihood of a model linear in its
parameters assembled with dense numpy linear algebra, mpmath regularised incomplete gamma for the chi-square cdf.
"""
from vf.core import Task
from vf.bounded import Driver


def tasks(tier):
    q = tier == 'quick'
    return [
        Task('props.bounded_C19:drv_stencils_exact', name='C19/bounded/stencils.exact', tier=tier, nfun=200 if q else 3000, timeout=900),
        Task('props.bounded_C19:drv_stencils_float', name='C19/bounded/stencils.float', tier=tier, nfun=200 if q else 3000, timeout=900),
        Task('props.bounded_C19:drv_chi2', name='C19/bounded/sum_chi2_ppf', tier=tier, ncases=150 if q else 2000, timeout=900),
        Task('props.bounded_C19:drv_uncert', name='C19/bounded/FIM_GIM.natural', tier=tier, nmodels=30 if q else 150, log=False, timeout=900),
        Task('props.bounded_C19:drv_uncert', name='C19/bounded/FIM_GIM.log', tier=tier, nmodels=30 if q else 150, log=True, timeout=900),
        Task('props.bounded_C19:drv_tests', name='C19/bounded/LRT_Wald_score', tier=tier, nmodels=40 if q else 400, timeout=900),
        Task('props.bounded_C19:drv_cache', name='C19/bounded/cache-history', tier=tier, nseq=12 if q else 120, timeout=900),
    ]



def _det(d_):
    """Driver seeds its rng with hash(name), which is salted per process: re-seed deterministically from VERIF_SEED and the
    task name so that a failing case can be replayed by re-running the task."""
    import random, zlib
    from vf import common
    d_.rng = random.Random(common.seed() * 7919 + zlib.crc32(d_.name.encode()))
    return d_

# ------------------------------------------------------------------------------------------ stencils
def _dyadic(rng, bits, lo, hi):
    """k/2^bits in [lo,hi]."""
    return rng.randint(int(lo * 2 ** bits), int(hi * 2 ** bits)) / float(2 ** bits)


def drv_stencils_exact(tier, nfun):
    d_ = _det(Driver('C19', 'stencils.exact', bound='%d random quadratics c+g.p+p^T H p/2 in 1-5 parameters with dyadic coefficients, eps in {2^-4..2^-13} (subset of '
                '[1e-4,1e-1]), p0 entries dyadic incl. 0, negatives and |p|<1e-6/eps (one-sided branch), every sixth case integer-valued and passed as ints / an int array; the function returns exact Fractions so the only '
                'round-off is the final division: get_hess == H (rel 4e-15), symmetric, central get_grad == g+Hp, one-sided get_grad == g for linear '
                'functions, p0 untouched, evaluation points = the documented stencil' % nfun))
    import numpy as np
    from fractions import Fraction as Fr
    from dadi import Godambe as G
    rng = d_.rng
    for t in range(nfun):
        k = 1 + t % 5
        e = rng.randint(4, 13)
        eps = 2.0 ** -e
        H = np.zeros((k, k))
        for a in range(k):
            for b in range(a, k):
                H[a, b] = H[b, a] = _dyadic(rng, 4, -8, 8) if rng.random() < 0.85 else 0.0
        g = [_dyadic(rng, 4, -8, 8) for _ in range(k)]
        c = _dyadic(rng, 4, -100, 100)
        p0 = []
        for a in range(k):
            u = rng.random()
            if u < 0.2:
                p0.append(0.0)
            elif u < 0.4:
                p0.append(2.0 ** -rng.randint(21, 40) * rng.choice([1, 3, 5]))          # tiny: p*eps < 1e-6
            elif u < 0.55:
                p0.append(-_dyadic(rng, 6, 0.02, 30))                                    # negative
            else:
                p0.append(_dyadic(rng, 6, 0.02, 30))
        linear = t % 4 == 3
        if linear:
            H[:] = 0.0
        ints = t % 6 == 5        # integer-valued parameters handed over as Python ints / an int array (the result must not depend on the element type)
        if ints:
            p0 = [float(rng.randint(-4, 6)) for _ in range(k)]
        calls = []

        def f(p, *args):
            calls.append([float(x) for x in p])
            pf = [Fr(float(x)) for x in p]
            val = Fr(c) + sum(Fr(gi) * pi for gi, pi in zip(g, pf))
            val += sum(Fr(H[a, b]) * pf[a] * pf[b] for a in range(k) for b in range(k)) / 2
            return val
        info = dict(k=k, eps=eps, p0=p0, H=H.tolist(), g=g, c=c)
        cont = rng.choice(['list', 'array', 'tuple'])
        pin = list(p0) if cont == 'list' else np.array(p0) if cont == 'array' else tuple(p0)
        if ints:
            pin = [int(v) for v in p0] if cont == 'list' else np.array([int(v) for v in p0]) if cont == 'array' else tuple(int(v) for v in p0)
            info['p0_element_type'] = 'int (%s)' % cont
        branch = tuple('zero' if v == 0 else 'one-sided' if v * eps < 1e-6 else 'central' for v in p0)
        key = (t, k, e, branch)

        def run():
            got = G.get_hess(f, pin, eps)
            ok = got.shape == (k, k) and np.array_equal(got, got.T) and bool(np.all(np.abs(got - H) <= 4e-15 * np.abs(H)))
            d_.case(key + ('hess',), ok, dict(info, got=np.asarray(got).tolist(), branch=branch), True, 'get_hess-not-exact-on-quadratic')
            d_.case(key + ('frame',), list(pin) == p0, info, True, 'get_hess-mutates-p0')
            # evaluation points stay within 2 steps of p0 in the two moved coordinates only
            # candidate (step, one_sided) per coordinate: the documented rule; for NEGATIVE values the code's signed test pval*eps<1e-6
            # always selects the absolute one-sided step, an abs() test would select the relative central one - both are accepted here
            # (the accuracy consequence is measured in FIM_GIM.log)
            cands = []
            for v in p0:
                if v == 0 or abs(v * eps) < 1e-6:
                    cands.append([(eps, True)])
                elif v < 0:
                    cands.append([(eps, True), (eps * v, False)])
                else:
                    cands.append([(eps * v, False)])
            ok = all(sum(1 for a in range(k) if q[a] != p0[a]) <= 2 and all(abs(q[a] - p0[a]) <= 2 * max(abs(c[0]) for c in cands[a]) for a in range(k))
                     for q in calls)
            d_.case(key + ('stencil-points',), ok, info, True, 'get_hess-stencil-points')
            del calls[:]
            gg = G.get_grad(f, pin, eps)
            want = [g[a] + sum(H[a, b] * p0[b] for b in range(k)) for a in range(k)]
            # central: exact on quadratics; one-sided: exact on linear functions, error exactly H_aa*step/2 on a quadratic
            ok = gg.shape == (k, 1)
            for a in range(k):
                ws = [want[a] + (H[a, a] * st / 2 if one else 0.0) for st, one in cands[a]]
                if not any(abs(float(gg[a, 0]) - w) <= 4e-15 * max(abs(w), abs(want[a])) for w in ws):
                    ok = False
            allc = all(len(c) == 1 and not c[0][1] for c in cands)
            d_.case(key + ('grad',), ok, dict(info, got=gg.ravel().tolist(), want=want, branch=branch), True,
                    'get_grad-not-exact-on-linear' if linear else 'get_grad-central-not-exact-on-quadratic' if allc else 'get_grad-one-sided-stencil')
            d_.case(key + ('frame-grad',), list(pin) == p0, info, True, 'get_grad-mutates-p0')
            return True, None
        d_.check(key, run, info, 'stencil-exception', nontrivial=False)
    return d_.results()


def drv_stencils_float(tier, nfun):
    d_ = _det(Driver('C19', 'stencils.float', bound='%d random float quadratics in 1-5 parameters, eps log-uniform in [1e-4,1e-1] and both end points, p0 in +-[1e-3,1e2] '
                'incl. exact 0 and |p|<1e-6/eps, float64 function values; |get_hess-H| <= 64*u*F/(h_i*h_j) with F the bound of |f| on the stencil box and h the '
                'documented steps (round-off bound of an exact stencil); get_grad: <= 16*u*F/h_i on central/linear cases' % nfun))
    import numpy as np
    from dadi import Godambe as G
    rng = d_.rng
    u = 2.0 ** -53
    for t in range(nfun):
        k = 1 + t % 5
        eps = [1e-4, 1e-1][t % 2] if t % 10 < 2 else 10 ** rng.uniform(-4, -1)
        A = np.array([[rng.uniform(-3, 3) for _ in range(k)] for _ in range(k)])
        H = (A + A.T) / 2
        g = np.array([rng.uniform(-5, 5) for _ in range(k)])
        c = rng.uniform(-50, 50)
        p0 = []
        for a in range(k):
            r = rng.random()
            if r < 0.15:
                p0.append(0.0)
            elif r < 0.3:
                p0.append(rng.uniform(0, 1e-6 / eps) * rng.random())
            else:
                p0.append(rng.choice([-1, 1, 1, 1]) * 10 ** rng.uniform(-3, 2))
        linear = t % 4 == 3
        if linear:
            H = H * 0

        def f(p, *args):
            p = np.asarray(p, dtype=float)
            return c + float(np.dot(g, p)) + 0.5 * float(np.dot(p, np.dot(H, p)))
        steps = np.array([eps if (v == 0 or abs(v * eps) < 1e-6) else min(eps, abs(eps * v)) if v < 0 else eps * v for v in p0])   # smallest admissible step
        big = np.array([eps if (v == 0 or abs(v * eps) < 1e-6) else max(eps, abs(eps * v)) for v in p0])
        box = np.abs(p0) + 2 * big
        F = abs(c) + float(np.dot(np.abs(g), box)) + 0.5 * float(np.dot(box, np.dot(np.abs(H), box)))
        branch = tuple('zero' if v == 0 else 'one-sided' if v * eps < 1e-6 else 'central' for v in p0)
        info = dict(k=k, eps=eps, p0=p0, H=H.tolist(), g=g.tolist(), c=c, branch=branch)
        key = (t, k, branch)

        def run():
            got = G.get_hess(f, list(p0), eps)
            tol = 64 * u * F / np.abs(np.outer(steps, steps)) + 1e-13 * np.abs(H)
            ok = bool(np.all(np.abs(got - H) <= tol)) and np.array_equal(got, got.T)
            d_.case(key + ('hess',), ok, dict(info, got=got.tolist(), max_err=float(np.max(np.abs(got - H))), tol=float(np.min(tol))), True, 'get_hess-float-quadratic')
            if linear or all(v > 0 and v * eps >= 1e-6 for v in p0):
                gg = G.get_grad(f, list(p0), eps).ravel()
                want = g + np.dot(H, p0)
                tolg = 16 * u * F / np.abs(steps) + 1e-13 * np.abs(want)
                d_.case(key + ('grad',), bool(np.all(np.abs(gg - want) <= tolg)), dict(info, got=gg.tolist(), want=want.tolist()), True, 'get_grad-float')
            return True, None
        d_.check(key, run, info, 'stencil-exception', nontrivial=False)
    return d_.results()


# ------------------------------------------------------------------------------------------ mixture chi-square
def drv_chi2(tier, ncases):
    d_ = _det(Driver('C19', 'sum_chi2_ppf', bound='%d cases: weights of length 1-5 summing to 1 (incl. (0,1), (.5,.5), zero weights), x scalar (python float/int, '
                'numpy.float64) or array-like (list, tuple, 1-D and 2-D ndarray), x in {0} U [1e-6,60]; value 1-(w0*[x>0]+sum_d w_d*P(d/2,x/2)) with mpmath '
                'regularised incomplete gamma, abs tol 1e-12; scalar in -> scalar out, array in -> array of the same shape; weights not summing to 1 -> ValueError'
                % ncases))
    import numpy as np
    import mpmath
    from dadi import Godambe as G
    mpmath.mp.dps = 30
    rng = d_.rng

    def oracle(x, w):
        tot = mpmath.mpf(w[0]) if x > 0 else mpmath.mpf(0)
        for dof, wd in enumerate(w[1:], start=1):
            if wd:
                tot += mpmath.mpf(wd) * mpmath.gammainc(mpmath.mpf(dof) / 2, 0, mpmath.mpf(x) / 2, regularized=True)
        return float(1 - tot)

    for t in range(ncases):
        L = rng.randint(1, 5)
        if t % 7 == 0:
            w = (0, 1)
        elif t % 7 == 1:
            w = (0.5, 0.5)
        else:
            raw = [rng.random() if rng.random() < 0.8 else 0.0 for _ in range(L)]
            if sum(raw) == 0:
                raw[-1] = 1.0
            w = tuple(r / sum(raw) for r in raw)
        kind = ['pyfloat', 'npfloat', 'pyint', 'list', 'ndarray', 'tuple', 'ndarray2d', 'len1-array'][t % 8]

        def rx():
            r = rng.random()
            return 0.0 if r < 0.1 else 10 ** rng.uniform(-6, 0) if r < 0.3 else rng.uniform(0, 60)
        if kind == 'pyfloat':
            x = rx()
        elif kind == 'npfloat':
            x = np.float64(rx())
        elif kind == 'pyint':
            x = rng.randint(0, 30)
        elif kind == 'list':
            x = [rx() for _ in range(rng.randint(1, 6))]
        elif kind == 'tuple':
            x = tuple(rx() for _ in range(rng.randint(1, 6)))
        elif kind == 'ndarray':
            x = np.array([rx() for _ in range(rng.randint(2, 6))])
        elif kind == 'len1-array':
            x = np.array([rx()])
        else:
            x = np.array([[rx() for _ in range(3)] for _ in range(2)])
        scalar = kind in ('pyfloat', 'npfloat', 'pyint')
        info = dict(x=np.asarray(x).tolist(), weights=list(w), kind=kind)
        key = (t, kind, len(w))

        def run():
            snap = np.array(x, copy=True)
            got = G.sum_chi2_ppf(x, weights=w)
            want = np.vectorize(lambda v: oracle(float(v), w))(np.asarray(x, dtype=float))
            if scalar:
                ok = np.ndim(got) == 0 and abs(float(got) - float(want)) <= 1e-12
            else:
                ok = np.shape(got) == np.shape(x) and bool(np.all(np.abs(np.asarray(got) - want) <= 1e-12))
            return bool(ok) and np.array_equal(np.asarray(x), snap), dict(got=np.asarray(got).tolist(), want=np.asarray(want).tolist())
        d_.check(key, run, info, 'sum_chi2_ppf-weights-of-length-1-indexerror' if len(w) == 1 else 'sum_chi2_ppf-scalar' if scalar else
                 'sum_chi2_ppf-array-input')
        if t % 10 == 0:
            wbad = tuple(v * 1.01 for v in w)
            try:
                G.sum_chi2_ppf(1.0, weights=wbad)
                ok = False
            except ValueError:
                ok = True
            d_.case(key + ('bad-weights',), ok, dict(weights=list(wbad)), True, 'sum_chi2_ppf-accepts-unnormalised-weights')
    return d_.results()


# ------------------------------------------------------------------------------------------ linear Poisson models
class Lin:
    """Model m(p) = B0 + sum_j p_j B_j (B0 a fixed positive offset, so that the multinomial theta is identifiable) on the
    n-1 interior entries of a 1-D spectrum; analytic ll derivatives."""

    def __init__(self, dadi, np, rng, k, n, dyadic=False):
        self.dadi, self.np, self.k, self.n = dadi, np, k, n
        if dyadic:
            self.B = np.array([[rng.randint(8, 64) / 8.0 for _ in range(n - 1)] for _ in range(k)]) * 16
        else:
            self.B = np.array([[rng.uniform(0.2, 2.0) * (1 + j * i / float(n)) for i in range(n - 1)] for j in range(k)]) * rng.choice([5, 50, 500])
        self.B0 = (np.array([rng.uniform(0.2, 2.0) for _ in range(n - 1)]) * self.B.mean() if not dyadic else
                   np.array([float(rng.randint(8, 64)) for _ in range(n - 1)]))
        self.ncalls = 0

    def base(self, p):
        return self.B0 + self.np.dot(self.np.asarray(p, dtype=float), self.B)

    def spectrum(self, vals):
        a = self.np.zeros(self.n + 1)
        a[1:self.n] = vals
        return self.dadi.Spectrum(a)

    def func(self, p, ns, pts):
        self.ncalls += 1
        return self.spectrum(self.base(p))

    # analytic pieces; q = p (multinom False) or (p, theta) (multinom True: model theta*sum p_j B_j)
    def _m(self, q, multinom):
        np = self.np
        q = np.asarray(q, dtype=float)
        if not multinom:
            return self.base(q), self.B.T.copy(), None
        p, th = q[:-1], q[-1]
        base = self.base(p)
        Jm = np.concatenate([th * self.B.T, base[:, None]], axis=1)
        K = self.k + 1
        Hm = np.zeros((self.n - 1, K, K))
        for j in range(self.k):
            Hm[:, j, K - 1] = Hm[:, K - 1, j] = self.B[j]
        return th * base, Jm, Hm

    def grad(self, q, d, multinom, ta=1.0, log=False):
        m, Jm, _ = self._m(q, multinom)
        g = (Jm * (d / m - ta)[:, None]).sum(axis=0)
        return self.np.asarray(q) * g if log else g

    def hess(self, q, d, multinom, log=False):
        """minus the Hessian of ll (the observed information H)."""
        np = self.np
        m, Jm, Hm = self._m(q, multinom)
        Hll = -np.einsum('i,ij,ik->jk', d / m ** 2, Jm, Jm)
        if Hm is not None:
            Hll = Hll + np.einsum('i,ijk->jk', d / m - 1, Hm)
        if log:
            q = np.asarray(q, dtype=float)
            Hll = np.outer(q, q) * Hll + np.diag(q * self.grad(q, d, multinom))
        return -Hll


def _problem(dadi, np, rng, k, n, p_lo=0.3, p_hi=3.0, nboot=20, dyadic=False):
    lin = Lin(dadi, np, rng, k, n, dyadic)
    ptrue = np.array([rng.uniform(p_lo, p_hi) for _ in range(k)])
    d = lin.base(ptrue) * np.array([1 + 0.15 * rng.uniform(-1, 1) for _ in range(n - 1)])
    boots = [d * rng.uniform(1.02, 1.4) * np.array([1 + 0.3 * rng.uniform(-1, 1) for _ in range(n - 1)]) for _ in range(nboot)]
    p0 = ptrue * np.array([1 + 0.12 * rng.uniform(-1, 1) for _ in range(k)])
    return lin, d, boots, p0


def _relerr(np, got, want):
    got, want = np.asarray(got, dtype=float), np.asarray(want, dtype=float)
    both_nan = np.isnan(got) & np.isnan(want)
    with np.errstate(invalid='ignore'):
        e = np.where(both_nan, 0.0, np.abs(got - want) / np.maximum(np.abs(want), 1e-300))
    return float(np.max(e)) if not np.any(np.isnan(e)) else float('inf')


def _order2(d_, key, errs, amp, info, fail_key, eps_pair=(1e-2, 2.5e-3), ro=0.0):
    """errs = relative errors against the closed form at eps_pair.  O(eps^2): e(eps1) <= 4*amp*eps1^2 and the error drops by
    >= 8 (ideal 16) when eps is divided by 4, down to a round-off floor of amp*(1e-7+ro), ro = 256*u*|ll|/(h_min^2*max|H|) being the
    relative round-off of a second difference of ll with the smallest step in use."""
    e1, e2 = errs
    floor = (1e-7 + ro) * amp
    # the ratio criterion is asymptotic: applied when the coarse error is already small (ill-conditioned problems with a
    # large amp can sit outside that regime; they are still held to the cap)
    ok = e1 <= 4 * amp * eps_pair[0] ** 2 + floor and (e2 <= e1 / 8 + floor or (e1 > 0.05 and e2 <= e1 / 3))
    return d_.case(key, bool(ok), dict(info, err_eps1=e1, err_eps2=e2, amp=amp, eps=list(eps_pair)), True, fail_key)


NEG_FK = 'negative-parameter-uses-one-sided-O(eps)-stencil'


def drv_uncert(tier, nmodels, log):
    d_ = _det(Driver('C19', 'FIM_GIM.%s' % ('log' if log else 'natural'), bound='%d random linear Poisson models m=B0+sum p_j B_j, k=1-4 parameters, 1-D spectra n=8..20, p0 in '
                '[0.26,3.4]^k (within 12%% of the generating point), 20 bootstraps, multinom off/on (theta appended), log=%s, boot_theta_adjusts (multinom off), '
                'eps in {1e-2,2.5e-3}: FIM_uncert, GIM_uncert (+returned H, GIM) against analytic derivatives assembled with numpy.linalg: rel err <= '
                '4*amp*eps^2 and shrinking >=8x for eps/4 (>=3x when the coarse error exceeds 5%%) down to the round-off floor (amp=max(1,cond(H)/10,cond(J)/30)); 10 permutations of the bootstraps: rel 1e-10; cache cleared '
                'before every call; J and cU of get_godambe unchanged when one more bin of the data is masked (multinom off); parameters on the documented one-sided branch (0<=x*eps<1e-6) are held to 6*amp*eps only' % (nmodels, log)))
    import numpy as np
    import dadi
    from dadi import Godambe as G
    import logging
    logging.getLogger('Inference').setLevel(logging.ERROR)
    rng = d_.rng
    EPS = (1e-2, 2.5e-3)
    for t in range(nmodels):
        k = 1 + t % 4
        n = rng.randint(8, 20)
        lin, d, boots, p0 = _problem(dadi, np, rng, k, n)
        data = lin.spectrum(d)
        sboots = [lin.spectrum(b) for b in boots]
        for multinom in (False, True):
            if multinom:
                theta = d.sum() / lin.base(p0).sum()
                q = np.concatenate([p0, [theta]])
            else:
                q = p0.copy()
            # (before fix 2840e27 a negative log-parameter took the one-sided branch because the step rule lacked abs(); the rule is now
            #  |x*eps| < 1e-6, which `doc_one_sided` below covers, so there is no separate class for negative parameters any more)
            neg = False
            H = lin.hess(q, d, multinom, log)
            with np.errstate(invalid='ignore'):
                wantF = np.sqrt(np.diag(np.linalg.inv(H)))
            adj = [rng.uniform(0.7, 1.4) for _ in boots] if (not multinom and t % 2) else None
            gs = [lin.grad(q, b, multinom, ta=(adj[i] if adj else 1.0), log=log) for i, b in enumerate(boots)]
            J = sum(np.outer(g, g) for g in gs) / len(gs)
            GIM = np.dot(np.dot(H, np.linalg.inv(J)), H)
            with np.errstate(invalid='ignore'):
                wantG = np.sqrt(np.diag(np.linalg.inv(GIM)))
            amp = max(1.0, np.linalg.cond(H) / 10, np.linalg.cond(J) / 30)
            from scipy.special import gammaln
            m_q = lin._m(q, multinom)[0]
            ll_mag = float(np.sum(m_q + np.abs(d * np.log(m_q)) + np.abs(gammaln(d + 1))))
            x = np.log(q) if log else q
            hmin = min(e if abs(xv * e) < 1e-6 else e * abs(xv) for xv in x for e in EPS)      # the step actually taken: eps*|x| (or eps when that is < 1e-6)
            # documented branch: 0 <= x*eps < 1e-6 -> absolute step eps, one-sided stencil, first-order accurate by design
            doc_one_sided = any(abs(xv * e) < 1e-6 for xv in x for e in EPS)
            ro = 4096 * 2.0 ** -53 * ll_mag / (hmin ** 2 * float(np.max(np.abs(H))))
            info = dict(k=k, n=n, p0=p0.tolist(), B=lin.B.tolist(), B0=lin.B0.tolist(), data=d.tolist(), multinom=multinom, log=log, theta_adjusts=adj,
                        negative_logparam=neg, roundoff_floor=ro)
            key = (t, k, multinom, log, adj is not None)

            def fk(name):
                return NEG_FK if neg else name

            def run():
                eF, eH, eG, eGH, eGIM = [], [], [], [], []
                for eps in EPS:
                    G.cache.clear()
                    u, Hd = G.FIM_uncert(lin.func, [n], list(p0), data, log=log, multinom=multinom, eps=eps, return_FIM=True)
                    eF.append(_relerr(np, u, wantF))
                    eH.append(float(np.max(np.abs(Hd - H)) / np.max(np.abs(H))))
                    G.cache.clear()
                    ug, GIMd, Hd2 = G.GIM_uncert(lin.func, [n], sboots, list(p0), data, log=log, multinom=multinom, eps=eps, return_GIM=True,
                                                 boot_theta_adjusts=adj)
                    eG.append(_relerr(np, ug, wantG))
                    eGIM.append(float(np.max(np.abs(GIMd - GIM)) / np.max(np.abs(GIM))))
                    eGH.append(float(np.max(np.abs(Hd2 - Hd))))
                    if eps == EPS[0]:
                        u_plain = G.FIM_uncert(lin.func, [n], list(p0), data, log=log, multinom=multinom, eps=eps)
                        d_.case(key + ('return-shapes',), np.shape(u) == (len(q),) and np.array_equal(u_plain, u, equal_nan=True) and np.shape(ug) == (len(q),), info, True,
                                'FIM-return-shape')
                if doc_one_sided:
                    for nm, ee in (('FIM', eF), ('H', eH), ('GIM_uncert', eG), ('GIM', eGIM)):
                        ok = all(np.isnan(e) or e <= 6 * amp * eps + (1e-7 + ro) * amp for e, eps in zip(ee, EPS))
                        d_.case(key + (nm, 'one-sided'), bool(ok), dict(info, errs=ee, amp=amp), True, 'closed-form-first-order-on-documented-one-sided-branch')
                else:
                    if np.all(np.isfinite(wantF)):     # (p0 is not the MLE: the observed information may be indefinite; then only matrices are compared)
                        _order2(d_, key + ('FIM',), eF, amp, info, fk('FIM_uncert-vs-closed-form'), ro=ro)
                    _order2(d_, key + ('H',), eH, amp, info, fk('hessian-vs-closed-form'), ro=ro)
                    if np.all(np.isfinite(wantG)):
                        _order2(d_, key + ('GIM_uncert',), eG, amp, info, fk('GIM_uncert-vs-closed-form'), ro=ro)
                    _order2(d_, key + ('GIM',), eGIM, amp, info, fk('GIM-matrix-vs-closed-form'), ro=ro)
                d_.case(key + ('H-same-in-FIM-and-GIM',), max(eGH) == 0.0, dict(info, diff=eGH), True, 'H-differs-between-FIM-and-GIM')
                # bootstrap-order independence
                G.cache.clear()
                ref = G.GIM_uncert(lin.func, [n], sboots, list(p0), data, log=log, multinom=multinom, eps=0.01, boot_theta_adjusts=adj)
                worst = 0.0
                for _ in range(10):
                    perm = list(range(len(sboots)))
                    rng.shuffle(perm)
                    G.cache.clear()
                    got = G.GIM_uncert(lin.func, [n], [sboots[i] for i in perm], list(p0), data, log=log, multinom=multinom, eps=0.01,
                                       boot_theta_adjusts=[adj[i] for i in perm] if adj else None)
                    worst = max(worst, _relerr(np, got, ref))
                d_.case(key + ('boot-order',), worst <= 1e-10 * amp, dict(info, worst=worst), True, 'GIM_uncert-depends-on-bootstrap-order')
                if not multinom:
                    # the bootstrap scores (J, cU) are a property of the bootstraps, the model and p0: masking a bin of the *data* must not change them
                    G.cache.clear()
                    _, _, J0, cU0 = G.get_godambe(lin.func, [n], sboots, list(p0), data, 0.01, log=log, boot_theta_adjusts=adj or [])
                    dm = data.copy()
                    dm.mask[1 + (7 * t + 3) % (n - 2)] = True          # (chosen without drawing from the driver's generator: the sequence of random models stays as it was)
                    G.cache.clear()
                    _, _, J1, cU1 = G.get_godambe(lin.func, [n], sboots, list(p0), dm, 0.01, log=log, boot_theta_adjusts=adj or [])
                    same = bool(np.allclose(J0, J1, rtol=1e-12, atol=0) and np.allclose(cU0, cU1, rtol=1e-12, atol=0))
                    d_.case(key + ('scores-independent-of-data-mask',), same, dict(info, masked_bin=int(np.flatnonzero(np.asarray(dm.mask) & ~np.asarray(data.mask))[0]),
                                                                                  J_rel_diff=float(np.max(np.abs(J0 - J1)) / np.max(np.abs(J0)))), True,
                            'bootstrap-scores-depend-on-the-data-mask')
                return True, None
            d_.check(key, run, info, 'uncert-exception', nontrivial=False)
    return d_.results()


def drv_tests(tier, nmodels):
    d_ = _det(Driver('C19', 'LRT_Wald_score', bound='%d random linear Poisson models, k=2-4 parameters, every non-empty proper subset of nested indices up to size 2, nested '
                'values nonzero (central stencils, O(eps^2)) or exactly 0 (one-sided stencils, O(eps): tolerance 6*amp*eps and shrinking >=3x for eps/4), multinom '
                'off/on, 20 bootstraps: LRT_adjust=k/tr(J H^-1), Wald (adjusted d^T G d, original d^T H d, full_params of full or nested length), score '
                '(cU^T J^-1 cU, cU^T H^-1 cU) on the nested blocks of the analytic derivatives; permuted bootstraps: rel 1e-9; cache cleared before every call' % nmodels))
    import numpy as np
    import itertools
    import dadi
    from dadi import Godambe as G
    import logging
    logging.getLogger('Inference').setLevel(logging.ERROR)
    rng = d_.rng
    EPS = (1e-2, 2.5e-3)
    for t in range(nmodels):
        k = 2 + t % 3
        n = rng.randint(8, 20)
        lin, d, boots, p0 = _problem(dadi, np, rng, k, n)
        subsets = [s for r in (1, 2) for s in itertools.combinations(range(k), r) if r < k]
        nested = list(rng.choice(subsets))
        zero_nested = t % 3 == 2
        if zero_nested:
            for j in nested:
                p0[j] = 0.0
        data = lin.spectrum(d)
        sboots = [lin.spectrum(b) for b in boots]
        multinom = bool(t % 2)
        if multinom:
            theta = d.sum() / lin.base(p0).sum()
            q = np.concatenate([p0, [theta]])
        else:
            q = p0.copy()
        ix = np.ix_(nested, nested)
        H = lin.hess(q, d, multinom)[ix]
        gs = [lin.grad(q, b, multinom)[nested] for b in boots]
        J = sum(np.outer(g, g) for g in gs) / len(gs)
        cU = sum(gs) / len(gs)
        Gm = np.dot(np.dot(H, np.linalg.inv(J)), H)
        full = p0 * np.array([1 + 0.2 * rng.uniform(-1, 1) for _ in range(k)]) + 0.05
        diff = full[nested] - p0[nested]
        want = dict(lrt=len(nested) / np.trace(np.dot(J, np.linalg.inv(H))),
                    wald_adj=float(np.dot(diff, np.dot(Gm, diff))), wald_org=float(np.dot(diff, np.dot(H, diff))),
                    score_adj=float(np.dot(cU, np.dot(np.linalg.inv(J), cU))), score_org=float(np.dot(cU, np.dot(np.linalg.inv(H), cU))))
        amp = max(1.0, np.linalg.cond(H) / 10, np.linalg.cond(J) / 30)
        # the mean score cU is a difference of two positive sums: its relative finite-difference error is amplified by their ratio to the net value
        m_q, Jm_q, _ = lin._m(q, multinom)
        gpos = np.array([np.mean([(np.abs(Jm_q[:, j]) * (b / m_q + 1)).sum() for b in boots]) for j in nested])
        kappa = max(1.0, float(np.max(gpos / np.abs(cU))) / 20)
        info = dict(k=k, n=n, p0=p0.tolist(), nested=nested, B=lin.B.tolist(), B0=lin.B0.tolist(), data=d.tolist(), multinom=multinom, full_params=full.tolist(), zero_nested=zero_nested)
        key = (t, k, tuple(nested), multinom, zero_nested)

        def run():
            errs = dict((nm, []) for nm in want)
            for eps in EPS:
                G.cache.clear()
                lrt = G.LRT_adjust(lin.func, [n], sboots, list(p0), data, nested, multinom=multinom, eps=eps)
                G.cache.clear()
                wa, wo = G.Wald_stat(lin.func, [n], sboots, list(p0), data, nested, full.copy(), multinom=multinom, eps=eps, adj_and_org=True)
                G.cache.clear()
                sa, so = G.score_stat(lin.func, [n], sboots, list(p0), data, nested, multinom=multinom, eps=eps, adj_and_org=True)
                for nm, v in (('lrt', lrt), ('wald_adj', wa), ('wald_org', wo), ('score_adj', sa), ('score_org', so)):
                    errs[nm].append(abs(float(v) - want[nm]) / abs(want[nm]))
                if eps == EPS[0]:
                    G.cache.clear()
                    wa2 = G.Wald_stat(lin.func, [n], sboots, list(p0), data, nested, full[nested].copy(), multinom=multinom, eps=eps)
                    G.cache.clear()
                    sa2 = G.score_stat(lin.func, [n], sboots, list(p0), data, nested, multinom=multinom, eps=eps)
                    d_.case(key + ('variants',), abs(wa2 - wa) <= 1e-12 * abs(wa) and abs(sa2 - sa) <= 1e-12 * abs(sa), dict(info, wa=float(wa), wa2=float(wa2)), True,
                            'Wald-or-score-variant-disagrees')
                    perm = list(range(len(sboots)))
                    rng.shuffle(perm)
                    pb = [sboots[i] for i in perm]
                    G.cache.clear()
                    lrt_p = G.LRT_adjust(lin.func, [n], pb, list(p0), data, nested, multinom=multinom, eps=eps)
                    G.cache.clear()
                    sa_p = G.score_stat(lin.func, [n], pb, list(p0), data, nested, multinom=multinom, eps=eps)
                    G.cache.clear()
                    wa_p = G.Wald_stat(lin.func, [n], pb, list(p0), data, nested, full.copy(), multinom=multinom, eps=eps)
                    worst = max(abs(lrt_p / lrt - 1), abs(sa_p / sa - 1), abs(wa_p / wa - 1))
                    d_.case(key + ('boot-order',), worst <= 1e-9 * amp, dict(info, worst=float(worst)), True, 'statistic-depends-on-bootstrap-order')
            for nm in want:
                amp_nm = amp * (kappa if nm.startswith('score') else 1.0)
                if zero_nested:
                    e1, e2 = errs[nm]
                    floor = 1e-7 * amp_nm
                    ok = e1 <= 6 * amp_nm * EPS[0] + floor and (e2 <= e1 / 3 + floor or (e1 > 0.1 and e2 <= e1 / 1.5))
                    d_.case(key + (nm,), bool(ok), dict(info, stat=nm, err_eps1=e1, err_eps2=e2, want=want[nm], amp=amp_nm), True, nm + '-vs-closed-form-one-sided')
                else:
                    _order2(d_, key + (nm,), errs[nm], amp_nm, dict(info, stat=nm, want=want[nm]), nm + '-vs-closed-form')
            return True, None
        d_.check(key, run, info, 'tests-exception', nontrivial=False)
    return d_.results()


def drv_cache(tier, nseq):
    d_ = _det(Driver('C19', 'cache-history', bound='%d call sequences (6-14 calls) of FIM_uncert/GIM_uncert/LRT_adjust/Wald_stat/score_stat sharing Godambe.cache, over 2-3 '
                'different linear Poisson models (dyadic bases) and 2 parameter sets that agree on the nested parameters / give the same theta-hat, same ns and pts; '
                'each result compared (rel 1e-9) with the same call made right after Godambe.cache.clear()' % nseq))
    import numpy as np
    import gc
    import dadi
    from dadi import Godambe as G
    import logging
    logging.getLogger('Inference').setLevel(logging.ERROR)
    rng = d_.rng
    for s in range(nseq):
        k = 2 + s % 2
        n = 10
        lin, d, boots, p0 = _problem(dadi, np, rng, k, n, nboot=6, dyadic=True)
        d = np.round(d)
        p0 = np.round(p0 * 8) / 8 + 0.125
        data = lin.spectrum(d)
        sboots = [lin.spectrum(np.round(b)) for b in boots]
        # model variants with identical sum over entries (so theta-hat, hence the augmented parameter tuple, is identical)
        lins = [lin]
        for _ in range(2):
            other = Lin(dadi, np, rng, k, n, dyadic=True)
            perm = np.array(rng.sample(range(n - 1), n - 1))
            other.B, other.B0 = lin.B[:, perm].copy(), lin.B0[perm].copy()
            lins.append(other)
        nested = [rng.randrange(k)]
        p_alt = p0.copy()
        for j in range(k):
            if j not in nested:
                p_alt[j] = p0[j] * 2          # differs only outside the nested block
        calls = []
        for c in range(rng.randint(6, 14)):
            which = rng.choice(['FIM', 'GIM', 'LRT', 'Wald', 'score'])
            calls.append((which, rng.randrange(len(lins)), rng.random() < 0.5, rng.random() < 0.5))
        info = dict(k=k, p0=p0.tolist(), p_alt=p_alt.tolist(), nested=nested, calls=[list(map(str, c)) for c in calls], data=d.tolist(),
                    B=[l.B.tolist() for l in lins], B0=[l.B0.tolist() for l in lins])

        def do(which, li, alt, multinom):
            L = lins[li]
            pp = list(p_alt if alt else p0)
            if which == 'FIM':
                return G.FIM_uncert(L.func, [n], pp, data, multinom=multinom)
            if which == 'GIM':
                return G.GIM_uncert(L.func, [n], sboots, pp, data, multinom=multinom)
            if which == 'LRT':
                return G.LRT_adjust(L.func, [n], sboots, pp, data, nested, multinom=multinom)
            if which == 'Wald':
                return G.Wald_stat(L.func, [n], sboots, pp, data, nested, [pp[nested[0]] * 1.5], multinom=multinom)
            return G.score_stat(L.func, [n], sboots, pp, data, nested, multinom=multinom)

        def run():
            G.cache.clear()
            hist = []
            for c in calls:
                hist.append(np.atleast_1d(np.asarray(do(*c), dtype=float)))
                gc.collect()
            bad = []
            for i, c in enumerate(calls):
                G.cache.clear()
                fresh = np.atleast_1d(np.asarray(do(*c), dtype=float))
                e = _relerr(np, hist[i], fresh)
                if not e <= 1e-9:
                    bad.append(dict(call_index=i, call=list(map(str, c)), in_sequence=hist[i].tolist(), fresh=fresh.tolist()))
            # state that survives Godambe.cache.clear(): the default-argument objects of the functions called (a default list extended in
            # place would carry the number of bootstraps of one call into the next - and into the "fresh" calls above alike)
            for fobj in (G.get_godambe, G.GIM_uncert, G.FIM_uncert, G.LRT_adjust, G.Wald_stat, G.score_stat, G.get_grad, G.get_hess):
                for dv in (fobj.__defaults__ or ()):
                    if isinstance(dv, (list, dict, set)) and len(dv) != 0:
                        bad.append(dict(default_argument_modified=fobj.__name__, now=repr(dv)[:80]))
            return not bad, dict(bad=bad[:3])
        d_.check((s, k, tuple(nested)), run, info, 'result-depends-on-call-history-via-Godambe.cache-key')
    return d_.results()
