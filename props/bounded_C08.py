"""E4 bounded driver for C08: projection = hypergeometric subsampling.

Oracles (independent of dadi): exact `fractions.Fraction` hypergeometric weights
    W[n,m][h,k] = C(m,k) C(n-m,h-k) / C(n,h)
dense-matrix contraction with numpy for the axis plumbing, boolean support contraction for the masks, and an
explicit re-indexing fold/unfold for folded spectra.
"""
import itertools
from fractions import Fraction
from math import comb

from vf.core import Task
from vf.bounded import Driver

RTOL40 = 5e-13     # log-space gammaln weights, n <= 40 (observed worst 6.5e-14)
RTOL200 = 5e-12    # n <= 200 (observed worst 3.9e-13)
RTOL_FS = 2e-12    # entries of projected spectra (sums of positive terms)


def tasks(tier):
    T = []
    for s in range(4):
        T.append(Task('props.bounded_C08:drv_weights', name='C08/bounded/weights.%d' % s, tier=tier, shard=s, nshard=4, timeout=900))
    for s in range(4):
        T.append(Task('props.bounded_C08:drv_weights200', name='C08/bounded/weights200.%d' % s, tier=tier, shard=s, nshard=4, timeout=900))
    for s in range(4):
        T.append(Task('props.bounded_C08:drv_axis1d', name='C08/bounded/axis1d.%d' % s, tier=tier, shard=s, nshard=4, timeout=900))
    for s in range(4):
        T.append(Task('props.bounded_C08:drv_nd', name='C08/bounded/nd.%d' % s, tier=tier, shard=s, nshard=4, timeout=900))
    T.append(Task('props.bounded_C08:drv_singlemask_nd', name='C08/bounded/singlemask_nd', tier=tier, timeout=900))
    T.append(Task('props.bounded_C08:drv_refuse', name='C08/bounded/refuse', tier=tier, timeout=600))
    T.append(Task('props.bounded_C08:drv_lowpass', name='C08/bounded/lowpass', tier=tier, timeout=900))
    return T


# ----------------------------------------------------------------------------------------------- oracles
def w_exact(n, m, h, k):
    if 0 <= k <= m and 0 <= h - k <= n - m:
        return Fraction(comb(m, k) * comb(n - m, h - k), comb(n, h))
    return Fraction(0)


_W = {}


def W(n, m):
    """(n+1) x (m+1) float matrix of exact hypergeometric weights (correctly rounded)."""
    import numpy
    key = (int(n), int(m))
    if key not in _W:
        n, m = key
        a = numpy.zeros((n + 1, m + 1))
        for h in range(n + 1):
            den = comb(n, h)
            for k in range(max(0, m - (n - h)), min(h, m) + 1):
                a[h, k] = comb(m, k) * comb(n - m, h - k) / den          # exact integers, correctly rounded quotient
        _W[key] = a
    return _W[key]


def o_project(x, mask, to):
    """Dense contraction along every axis; mask = exactly the entries reachable from a masked source."""
    import numpy
    x = numpy.array(x, dtype=float)
    mk = numpy.array(mask, dtype=float)
    for ax, m in enumerate(to):
        n = x.shape[ax] - 1
        w = W(n, m)
        x = numpy.moveaxis(numpy.tensordot(x, w, axes=([ax], [0])), -1, ax)
        mk = numpy.moveaxis(numpy.tensordot(mk, (w > 0).astype(float), axes=([ax], [0])), -1, ax)
    return x, mk > 0.5


def o_mirror(a):
    import numpy
    idx = numpy.indices(a.shape)
    return a[tuple((s - 1) - ix for s, ix in zip(a.shape, idx))]


def o_tot(shape):
    import numpy
    return numpy.indices(shape).sum(axis=0), sum(s - 1 for s in shape)


def _corners(mask):
    # dadi convention: fold()/unfold() build their result with the constructor default mask_corners=True, so the
    # absent-everywhere and fixed-everywhere entries of the result are always masked ("corners are unobservable").
    mask = mask.copy()
    mask.flat[0] = mask.flat[-1] = True
    return mask


def o_fold(x, mask):
    import numpy
    t, T = o_tot(x.shape)
    out, amb = 2 * t > T, 2 * t == T
    s = x + o_mirror(x)
    data = numpy.where(out, 0.0, numpy.where(amb, s / 2.0, s))
    return data, _corners(mask | o_mirror(mask) | out)


def o_unfold(x, mask):
    t, T = o_tot(x.shape)
    out = 2 * t > T
    a = mask ^ out
    return (x + o_mirror(x)) / 2.0, _corners(a | o_mirror(a))


def close(got, want, mask, rtol):
    """max relative deviation on entries with mask False (all data positive => no cancellation)."""
    import numpy
    got, want = numpy.asarray(got, dtype=float), numpy.asarray(want, dtype=float)
    sel = ~numpy.asarray(mask, dtype=bool)
    if not sel.any():
        return True, 0.0
    err = numpy.abs(got[sel] - want[sel]) / (numpy.abs(want[sel]) + 1e-300)
    e = float(err.max())
    return bool(e <= rtol), e


# ------------------------------------------------------------------------------------------ weights n<=40
def drv_weights(tier, shard, nshard):
    import numpy
    from dadi import Numerics
    d = Driver('C08', 'weights.%d' % shard,
               bound='EXHAUSTIVE (both tiers): Numerics._cached_projection(m,n,hits) for all 1<=m<=n<=40 with n%%%d==%d, all 0<=hits<=n, all '
                     '0<=k<=m, against exact Fraction C(m,k)C(n-m,hits-k)/C(n,hits): relative error <= %g inside the support, exactly 0 '
                     'outside, length m+1, row sum 1 (1e-12), second (memoised) call and numpy-integer arguments give identical values; '
                     'from<to short-circuit returns zeros(to+1)' % (nshard, shard, RTOL40))
    for n in range(1, 41):
        if n % nshard != shard:
            continue
        for m in range(1, n + 1):
            for h in range(n + 1):
                got = numpy.array(Numerics._cached_projection(m, n, h), dtype=float)
                ok, why, worst = True, '', 0.0
                if got.shape != (m + 1,):
                    ok, why = False, 'shape %s' % (got.shape,)
                else:
                    for k in range(m + 1):
                        w = w_exact(n, m, h, k)
                        if w == 0:
                            if got[k] != 0:
                                ok, why = False, 'nonzero outside support k=%d: %r' % (k, got[k])
                        else:
                            e = float(abs(Fraction(float(got[k])) / w - 1))
                            worst = max(worst, e)
                            if not e <= RTOL40:
                                ok, why = False, 'k=%d got %r want %r rel %g' % (k, got[k], float(w), e)
                    if ok and abs(float(got.sum()) - 1) > 1e-12:
                        ok, why = False, 'row sum %r' % float(got.sum())
                d.case((n, m, h), ok, dict(n=n, m=m, hits=h, worst_rel=worst, why=why, got=got.tolist() if not ok else None),
                       fail_key='weights-value')
                again = numpy.array(Numerics._cached_projection(numpy.int64(m), numpy.int64(n), numpy.int64(h)), dtype=float)
                d.case(('memo', n, m, h), bool(again.shape == got.shape and numpy.array_equal(again, got)),
                       dict(n=n, m=m, hits=h, first=got.tolist(), second=again.tolist()), fail_key='weights-memo-differs')
        # upward short-circuit (from < to): zeros of length to+1
        for to in (n + 1, n + 3):
            for h in (0, n // 2, n):
                got = numpy.asarray(Numerics._cached_projection(to, n, h))
                d.case(('up', n, to, h), bool(got.shape == (to + 1,) and not got.any()), dict(proj_to=to, proj_from=n, hits=h, got=got.tolist()),
                       fail_key='weights-upward-not-zero')
    return d.results()


def drv_weights200(tier, shard, nshard):
    import numpy
    from dadi import Numerics
    nn = 16 if tier == 'quick' else 160
    d = Driver('C08', 'weights200.%d' % shard,
               bound='shard %d/%d of: %s 41<=n<=200, m in {1,2,n//2,n-1,n} + %d random, all hits, all k: exact integer-ratio '
                     'weights C(m,k)C(n-m,h-k)/C(n,h) (correctly rounded), relative error <= %g inside the support, exactly 0 outside; 1-D neutral spectrum 1/i is a fixed point of '
                     'Spectrum.project for those n and ALL 1<=m<=n (rel %g), total conserved' % (shard, nshard, '16 seeded-random values (incl. 41,199,200) of' if tier == 'quick' else 'ALL', 3 if tier == 'quick' else 8, RTOL200, RTOL_FS))
    import dadi
    import random
    from vf.common import seed
    xr = random.Random(seed() * 17 + 5)                       # the list of n must be identical in every shard
    ns = sorted([41, 199, 200] + xr.sample(range(42, 199), nn - 3)) if tier == 'quick' else list(range(41, 201))
    for ni, n in enumerate(ns):
        if ni % nshard != shard:
            continue
        ms = sorted(set([1, 2, n // 2, n - 1, n] + [d.rng.randint(1, n) for _ in range(3 if tier == 'quick' else 8)]))
        for m in ms:
            for h in range(n + 1):
                got = numpy.array(Numerics._cached_projection(m, n, h), dtype=float)
                ok, why, worst = got.shape == (m + 1,), '', 0.0
                lo, hi = max(0, m - (n - h)), min(h, m)
                if ok:
                    den = comb(n, h)
                    for k in range(m + 1):
                        if lo <= k <= hi:
                            w = comb(m, k) * comb(n - m, h - k) / den      # int/int: correctly rounded exact quotient
                            e = abs(float(got[k]) / w - 1)
                            worst = max(worst, e)
                            if not e <= RTOL200:
                                ok, why = False, 'k=%d got %r want %r rel %g' % (k, got[k], w, e)
                        elif got[k] != 0:
                            ok, why = False, 'nonzero outside support k=%d: %r' % (k, got[k])
                d.case((n, m, h), bool(ok), dict(n=n, m=m, hits=h, worst_rel=worst, why=why), fail_key='weights-value')
        # neutral fixed point and conservation through the real Spectrum.project, all m
        x = numpy.zeros(n + 1)
        x[1:n] = 1.0 / numpy.arange(1, n)
        fs = dadi.Spectrum(x)
        for m in range(1, n + 1):
            p = fs.project([m])
            want = numpy.zeros(m + 1)
            want[1:m] = 1.0 / numpy.arange(1, m)
            wm = numpy.zeros(m + 1, bool)
            wm[0] = wm[m] = True
            gm = numpy.ma.getmaskarray(p)
            ok, e = close(p.data, want, wm, RTOL_FS)
            ok = ok and numpy.array_equal(gm, wm)
            d.case(('neutral', n, m), bool(ok), dict(n=n, m=m, rel=e, mask=gm.astype(int).tolist() if m < 12 else None),
                   nontrivial=m > 1, fail_key='neutral-fixed-point')
    return d.results()


# ---------------------------------------------------------------------------------------- 1-D exhaustive
def drv_axis1d(tier, shard, nshard):
    import numpy, dadi
    d = Driver('C08', 'axis1d.%d' % shard,
               bound='EXHAUSTIVE (both tiers): 1-D Spectrum.project for all 1<=m<=n<=40 with n%%%d==%d: random positive data, (a) no mask, '
                     '(b) default corner mask, (c) every single-entry mask h=0..n: entries = x.W(n,m) (exact-Fraction matrix, rel %g) on '
                     'unmasked entries, mask == exactly [max(0,m-(n-h)), min(h,m)], total conserved (no mask), two-stage n->j->m == one-stage '
                     'for every intermediate j (n<=20) or 3 sampled j, 1/i fixed point, input not modified, labels/extrap_x kept'
                     % (nshard, shard, RTOL_FS))
    r = d.nprng()
    for n in range(1, 41):
        if n % nshard != shard:
            continue
        x = r.uniform(0.1, 10.0, size=n + 1)
        for m in range(1, n + 1):
            w = W(n, m)
            want = x.dot(w)
            # (a) unmasked
            fs = dadi.Spectrum(x, mask_corners=False, pop_ids=['A'], extrap_x=0.125)
            p = fs.project([m])
            gm = numpy.ma.getmaskarray(p)
            ok, e = close(p.data, want, numpy.zeros(m + 1, bool), RTOL_FS)
            tot = abs(float(p.data.sum()) - float(x.sum())) <= 1e-12 * float(x.sum())
            meta = p.pop_ids == ['A'] and p.extrap_x == 0.125 and p.folded is False and p.shape == (m + 1,)
            same = numpy.array_equal(fs.data, x) and not numpy.ma.getmaskarray(fs).any()
            d.case(('nomask', n, m), bool(ok and not gm.any() and tot and meta and same),
                   dict(n=n, m=m, rel=e, total_ok=bool(tot), meta_ok=bool(meta), input_untouched=bool(same), mask=gm.astype(int).tolist(),
                        x=x.tolist() if n <= 8 else None, got=p.data.tolist() if n <= 8 else None), fail_key='project1d-value')
            # (b) default corners
            fs = dadi.Spectrum(x)
            p = fs.project([m])
            wm = numpy.zeros(m + 1, bool)
            wm[0] = wm[m] = True
            ok, e = close(p.data, x.dot(w), wm, RTOL_FS)
            gm = numpy.ma.getmaskarray(p)
            d.case(('corners', n, m), bool(ok and numpy.array_equal(gm, wm)), dict(n=n, m=m, rel=e, mask=gm.astype(int).tolist()),
                   nontrivial=m > 1, fail_key='project1d-corner-mask')
            # (c) every single-entry mask
            for h in range(n + 1):
                mk = numpy.zeros(n + 1, bool)
                mk[h] = True
                fs = dadi.Spectrum(x, mask=mk, mask_corners=False)
                p = fs.project([m])
                lo, hi = max(0, m - (n - h)), min(h, m)
                wm = numpy.zeros(m + 1, bool)
                wm[lo:hi + 1] = True
                gm = numpy.ma.getmaskarray(p)
                ok, e = close(p.data, want, wm, RTOL_FS)
                d.case(('single', n, m, h), bool(ok and numpy.array_equal(gm, wm)),
                       dict(n=n, m=m, masked_hit=h, want_masked=[lo, hi], got_mask=gm.astype(int).tolist(), rel=e),
                       nontrivial=not wm.all(), fail_key='project1d-mask-reach')
            # two-stage
            fs = dadi.Spectrum(x, mask_corners=False)
            js = range(m, n + 1) if n <= 20 else sorted(set(d.rng.randint(m, n) for _ in range(3)))
            for j in js:
                p2 = fs.project([j]).project([m])
                ok, e = close(p2.data, want, numpy.zeros(m + 1, bool), RTOL_FS)
                d.case(('two', n, j, m), bool(ok and not numpy.ma.getmaskarray(p2).any()), dict(n=n, via=j, m=m, rel=e),
                       nontrivial=m < j < n, fail_key='project-two-stage')
    return d.results()


# -------------------------------------------------------------------------------------------- n-D plumbing
def _rand_shape(rng, nd, maxn):
    return [rng.randint(1, maxn) for _ in range(nd)]


def _rand_mask(r, rng, shape, kind):
    import numpy
    mk = numpy.zeros(shape, bool)
    if kind == 'none':
        return mk
    if kind == 'corners':
        mk.flat[0] = mk.flat[-1] = True
        return mk
    if kind == 'single':
        mk.flat[rng.randrange(mk.size)] = True
        return mk
    if kind == 'row':                           # a whole hyperplane
        ax = rng.randrange(len(shape))
        sl = [slice(None)] * len(shape)
        sl[ax] = rng.randrange(shape[ax])
        mk[tuple(sl)] = True
        return mk
    dens = {'sparse': 0.05, 'mid': 0.3, 'dense': 0.8}[kind]
    return r.uniform(size=shape) < dens


def drv_nd(tier, shard, nshard):
    import numpy, dadi
    ncase = (100 if tier == 'quick' else 800)
    maxn = {1: 40, 2: 14, 3: 8, 4: 5}
    d = Driver('C08', 'nd.%d' % shard,
               bound='%d random cases per dimension 1..4 (shard %d/%d; sample sizes per axis 1..%s, targets 1<=m<=n incl. m=n and m=1, C-, '
                     'F-ordered and transposed inputs) x 7 mask kinds (none, corners, single, hyperplane, 5%%/30%%/80%% random): entries = '
                     'dense contraction with exact-Fraction weight matrices (rel %g on unmasked), mask == boolean support contraction '
                     '(exactly the reachable entries), total conserved, two-stage == one-stage, axis-by-axis in a random order == at once, '
                     'folded: fold().project == o_fold(o_project(o_unfold)) with explicit re-indexing oracles incl. masks (fold/unfold results carry the constructor-default masked corners), labels/extrap_x '
                     'kept, input not modified' % (ncase, shard, nshard, maxn, RTOL_FS))
    r = d.nprng()
    kinds = ['none', 'corners', 'single', 'row', 'sparse', 'mid', 'dense']
    for nd in (1, 2, 3, 4):
        for ci in range(ncase):
            if ci % nshard != shard:
                continue
            ns = _rand_shape(d.rng, nd, maxn[nd])
            shape = [n + 1 for n in ns]
            to = []
            for n in ns:
                c = d.rng.random()
                to.append(n if c < 0.2 else 1 if c < 0.3 else d.rng.randint(1, n))
            x = r.uniform(0.1, 10.0, size=shape)
            layout = d.rng.choice(['C', 'F', 'T'])
            ids = ['p%d' % i for i in range(nd)] if d.rng.random() < 0.7 else None
            for kind in kinds:
                mk = _rand_mask(r, d.rng, shape, kind)
                if layout == 'F':
                    xin, mkin = numpy.asfortranarray(x), numpy.asfortranarray(mk)
                elif layout == 'T':
                    xin, mkin = numpy.ascontiguousarray(x.T).T, numpy.ascontiguousarray(mk.T).T
                else:
                    xin, mkin = x, mk
                fs = dadi.Spectrum(xin, mask=mkin, mask_corners=False, pop_ids=ids, extrap_x=0.25)
                info = dict(ns=ns, to=to, mask_kind=kind, layout=layout, seed_case=[nd, ci],
                            x=x.tolist() if x.size <= 12 else None, mask=mk.astype(int).tolist() if x.size <= 12 else None)
                want, wmask = o_project(x, mk, to)

                def one():
                    p = fs.project(to)
                    gm = numpy.ma.getmaskarray(p)
                    ok, e = close(p.data, want, wmask, RTOL_FS)
                    mok = numpy.array_equal(gm, wmask)
                    meta = p.pop_ids == ids and p.extrap_x == 0.25 and p.folded is False and list(p.shape) == [m + 1 for m in to]
                    same = numpy.array_equal(fs.data, x) and numpy.array_equal(numpy.ma.getmaskarray(fs), mk)
                    tot = True
                    if kind == 'none':
                        tot = abs(float(p.data.sum()) - float(x.sum())) <= 1e-12 * float(x.sum())
                    return bool(ok and mok and meta and same and tot), dict(rel=e, mask_ok=bool(mok), meta_ok=bool(meta),
                                                                             input_untouched=bool(same), total_ok=bool(tot),
                                                                             got_mask=gm.astype(int).tolist() if gm.size <= 12 else None)
                d.check(('proj', nd, ci, kind), one, info, fail_key='project-nd-value-or-mask', nontrivial=not wmask.all())

                def two():
                    mid = [d.rng.randint(m, n) for m, n in zip(to, ns)]
                    p = fs.project(mid).project(to)
                    gm = numpy.ma.getmaskarray(p)
                    # two-stage masks: reachable through the intermediate size - same support (Vandermonde) => same mask
                    ok, e = close(p.data, want, wmask, RTOL_FS)
                    return bool(ok and numpy.array_equal(gm, wmask)), dict(via=mid, rel=e)
                d.check(('two', nd, ci, kind), two, info, fail_key='project-two-stage', nontrivial=not wmask.all())

                def order():
                    perm = list(range(nd))
                    d.rng.shuffle(perm)
                    p = fs
                    cur = list(ns)
                    for ax in perm:
                        cur[ax] = to[ax]
                        p = p.project(list(cur))
                    gm = numpy.ma.getmaskarray(p)
                    ok, e = close(p.data, want, wmask, RTOL_FS)
                    return bool(ok and numpy.array_equal(gm, wmask)), dict(order=perm, rel=e)
                if nd > 1:
                    d.check(('order', nd, ci, kind), order, info, fail_key='project-axis-order', nontrivial=not wmask.all())

                def folded():
                    fd, fm = o_fold(x, mk)
                    f = dadi.Spectrum(fd, mask=fm, mask_corners=False, data_folded=True, pop_ids=ids, extrap_x=0.25)
                    p = f.project(to)
                    ud, um = o_unfold(fd, fm)
                    pd_, pm = o_project(ud, um, to)
                    wd, wm = o_fold(pd_, pm)
                    gm = numpy.ma.getmaskarray(p)
                    ok, e = close(p.data, wd, wm, RTOL_FS)
                    mok = numpy.array_equal(gm, wm)
                    meta = p.folded is True and p.pop_ids == ids and p.extrap_x == 0.25
                    # path agreement with dadi's own fold of the unfolded projection
                    q = fs.project(to).fold()
                    return bool(ok and mok and meta), dict(rel=e, mask_ok=bool(mok), meta_ok=bool(meta),
                                                           path_masks_equal=bool(numpy.array_equal(numpy.ma.getmaskarray(q), gm)),
                                                           nontriv=bool(not wm.all()))
                d.check(('folded', nd, ci, kind), folded, info, fail_key='project-folded')
    return d.results()


def drv_singlemask_nd(tier):
    import numpy, dadi
    shapes2 = [(a, b) for a in range(1, 6) for b in range(1, 6)] if tier == 'thorough' else [(a, b) for a in range(1, 5) for b in range(1, 5)]
    shapes3 = [(2, 3, 4), (1, 1, 1), (3, 1, 2), (4, 4, 2)] + ([(a, b, c) for a in (1, 3, 5) for b in (2, 4) for c in (1, 2, 3)] if tier == 'thorough' else [])
    shapes4 = [(1, 2, 1, 3), (2, 2, 2, 2)] + ([(3, 2, 1, 2), (2, 3, 3, 2)] if tier == 'thorough' else [])
    d = Driver('C08', 'singlemask_nd',
               bound='ALL single-entry masks and ALL target sizes (every 1<=m_i<=n_i) for 2-D sample sizes %s..%s per axis, 3-D %s, 4-D %s: '
                     'result mask == exactly the entries the masked source can contribute to (product of per-axis windows), unmasked entries '
                     '= exact dense contraction (rel %g)' % (shapes2[0], shapes2[-1], shapes3, shapes4, RTOL_FS))
    r = d.nprng()
    for ns in shapes2 + shapes3 + shapes4:
        shape = [n + 1 for n in ns]
        x = r.uniform(0.1, 10.0, size=shape)
        for to in itertools.product(*[range(1, n + 1) for n in ns]):
            if to == tuple(ns):
                continue
            want, _ = o_project(x, numpy.zeros(shape, bool), to)
            for src in numpy.ndindex(*shape):
                mk = numpy.zeros(shape, bool)
                mk[src] = True
                p = dadi.Spectrum(x, mask=mk, mask_corners=False).project(list(to))
                wm = numpy.zeros([m + 1 for m in to], bool)
                wm[tuple(slice(max(0, m - (n - h)), min(h, m) + 1) for n, m, h in zip(ns, to, src))] = True
                gm = numpy.ma.getmaskarray(p)
                ok, e = close(p.data, want, wm, RTOL_FS)
                d.case((tuple(ns), to, src), bool(ok and numpy.array_equal(gm, wm)),
                       dict(ns=list(ns), to=list(to), masked_source=list(src), rel=e, got_mask=gm.astype(int).tolist() if gm.size <= 16 else None,
                            want_mask=wm.astype(int).tolist() if gm.size <= 16 else None), nontrivial=not wm.all(), fail_key='project-nd-mask-reach')
    return d.results()


def drv_refuse(tier):
    import numpy, dadi
    d = Driver('C08', 'refuse',
               bound='1-4-D spectra, sample sizes 1..40 (1-D) / 1..8: every request with at least one m_i > n_i (m_i = n_i+1, n_i+7, 10*n_i) '
                     'raises ValueError in project and _project_one_axis, folded and unfolded; wrong-length ns raises ValueError; m == n is '
                     'the identity (values, mask, labels)')
    r = d.nprng()
    shapes = [[n] for n in range(1, 41)]
    for nd in (2, 3, 4):
        shapes += [_rand_shape(d.rng, nd, 8) for _ in range(20 if tier == 'quick' else 200)]
    for ns in shapes:
        x = r.uniform(0.1, 1.0, size=[n + 1 for n in ns])
        fs = dadi.Spectrum(x, pop_ids=['q%d' % i for i in range(len(ns))])
        for fsx, tag in ((fs, 'unfolded'), (fs.fold(), 'folded')):
            for ax in range(len(ns)):
                for up in (ns[ax] + 1, ns[ax] + 7, 10 * ns[ax]):
                    to = list(ns)
                    to[ax] = up
                    for oth in range(len(ns)):
                        if oth != ax and d.rng.random() < 0.5:
                            to[oth] = d.rng.randint(1, ns[oth])
                    try:
                        res = fsx.project(to)
                        ok, why = False, 'returned shape %s' % (res.shape,)
                    except ValueError:
                        ok, why = True, ''
                    except Exception as e:
                        ok, why = False, 'raised %r instead of ValueError' % (e,)
                    d.case((tag, tuple(ns), tuple(to)), ok, dict(ns=ns, to=to, folded=tag, why=why), fail_key='upward-not-refused')
                    if tag == 'unfolded':
                        try:
                            res = fsx._project_one_axis(up, ax)
                            ok, why = False, 'returned shape %s' % (res.shape,)
                        except ValueError:
                            ok, why = True, ''
                        except Exception as e:
                            ok, why = False, 'raised %r instead of ValueError' % (e,)
                        d.case(('one_axis', tuple(ns), ax, up), ok, dict(ns=ns, axis=ax, n=up, why=why), fail_key='upward-not-refused-one-axis')
            for bad in (list(ns) + [1], list(ns)[:-1]):
                try:
                    fsx.project(bad)
                    ok = False
                except ValueError:
                    ok = True
                except Exception:
                    ok = False
                d.case((tag, 'len', tuple(ns), len(bad)), ok, dict(ns=ns, to=bad, folded=tag), fail_key='wrong-length-not-refused')
            p = fsx.project(list(ns))
            ok = numpy.array_equal(numpy.ma.getmaskarray(p), numpy.ma.getmaskarray(fsx)) and p.pop_ids == fsx.pop_ids and p.folded == fsx.folded
            sel = ~numpy.ma.getmaskarray(fsx)
            ok = ok and numpy.allclose(p.data[sel], fsx.data[sel], rtol=1e-14, atol=0)
            d.case((tag, 'identity', tuple(ns)), bool(ok), dict(ns=ns, folded=tag), fail_key='identity-projection')
    return d.results()


def drv_lowpass(tier):
    import numpy
    d = Driver('C08', 'lowpass',
               bound='EXHAUSTIVE (both tiers): LowPass.projection_matrix(n, m, F=0) for all 1<=m<=n<=40: shape (n+1, m+1), every row == exact '
                     'Fraction hypergeometric weights (rel %g in the support, exactly 0 outside), rows sum to 1' % RTOL40)
    from dadi.LowPass import LowPass
    for n in range(1, 41):
        for m in range(1, n + 1):
            got = numpy.asarray(LowPass.projection_matrix(n, m, 0), dtype=float)
            w = W(n, m)
            ok, why = got.shape == w.shape, ''
            e = 0.0
            if ok:
                z = (w == 0)
                if got[z].any():
                    ok, why = False, 'nonzero outside support'
                else:
                    e = float((numpy.abs(got[~z] - w[~z]) / w[~z]).max())
                    ok = e <= RTOL40 and bool(numpy.all(numpy.abs(got.sum(axis=1) - 1) <= 1e-12))
            d.case((n, m), bool(ok), dict(n=n, m=m, rel=e, why=why, shape=list(got.shape)), fail_key='lowpass-projection-matrix')
    return d.results()
