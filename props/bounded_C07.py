"""Example layout of a bounded-driver module (C07's own driver lives in props/C07.py)."""
from vf.core import Task


def tasks(tier):
    return [Task('props.C07:bounded', name='C07/bounded', ncoef=40 if tier == 'quick' else 400, tier=tier, timeout=1500)]
