"""C14 bounded driver (E4): Spectrum file / pickle round trips and the generic array reader/writer.

Oracles are independent of dadi: the expected value of every entry after a text round trip is
float('%.<p>g' % x) computed by Python (correctly rounded both ways) plus an exact Fraction bound
|got-x| <= (0.5*10^(1-p) + 2^-53)|x|; files produced by to_file are additionally parsed by a pure-Python
parser of the documented format, and from_file is additionally fed files written by hand (not by
to_file), so a writer bug and a reader bug cannot cancel.  All temp files live in one
tempfile.mkdtemp() directory per task, removed in a finally block.
"""
import os, gzip, math, shutil, tempfile, itertools
from fractions import Fraction
from vf.core import Task
from vf.bounded import Driver

N = dict(quick=dict(plain=320, gz=40, reader=300, pickle=300, array=300),
         thorough=dict(plain=5000, gz=300, reader=5000, pickle=5000, array=5000))


def tasks(tier):
    names = ['plain_a', 'plain_b', 'gz', 'reader', 'pickle', 'array']
    return [Task('props.bounded_C14:drv_%s' % n, name='C14/bounded/%s' % n, tier=tier, timeout=900) for n in names]


# ------------------------------------------------------------------------------------------ generators
LABELS = ['pop1', 'pop 1', 'a  b', ' lead', 'trail ', 'YRI', 'folded', 'un folded x', 'x#y', "it's", '1 2 3', 'unfolded']
COMMENTS = ['plain comment', '  padded  ', 'with # hash', '', 'tab\tinside', 'folded 3 3', '# double', '"quoted" text']
SHAPES_EDGE = [(1,), (2,), (1, 1), (1, 4), (4, 1), (1, 1, 1), (2, 1, 3), (1, 2, 1, 2), (1, 1, 1, 1, 1), (2, 1, 2, 1, 2),
               (3, 3), (5, 4, 3), (3, 2, 3, 2), (2, 3, 2, 3, 2), (21,), (5, 5, 5, 5, 5)]


def rand_shape(rng, i):
    if i < len(SHAPES_EDGE):
        return SHAPES_EDGE[i]
    nd = rng.choice([1, 1, 2, 2, 3, 3, 4, 5])
    hi = {1: 30, 2: 9, 3: 6, 4: 5, 5: 4}[nd]
    return tuple(rng.choice([1, 2, 3, rng.randint(1, hi)]) for _ in range(nd))


def rand_value(rng, finite_only=False):
    r = rng.random()
    if r < 0.45:
        v = 10.0 ** rng.uniform(-300, 300)
    elif r < 0.65:
        v = rng.uniform(0, 100)
    elif r < 0.72:
        v = float(rng.randint(0, 10 ** rng.randint(0, 17)))
    elif r < 0.76:
        v = rng.choice([1e-300, 1e300, -1e300, 0.1, 1 / 3.0, 9.999999999999999e299, 1.0000000000000001e-300,
                        9007199254740993.0, 0.30000000000000004, 123456789.12345679])
    elif r < 0.82:
        v = 0.0
    elif r < 0.90 or finite_only:
        v = -(10.0 ** rng.uniform(-300, 300))
    else:
        v = rng.choice([float('nan'), float('inf'), float('-inf')])
    return v


def folded_out(shape):
    """Boolean list (C order) of entries that are nonsensical in a folded spectrum: sum(idx) > floor(total/2)."""
    tot = sum(s - 1 for s in shape)
    return [sum(idx) > tot // 2 for idx in itertools.product(*[range(s) for s in shape])]


def rand_spectrum(dadi, numpy, rng, i, allow_nonfinite=True):
    shape = rand_shape(rng, i)
    n = 1
    for s in shape:
        n *= s
    vals = [rand_value(rng, finite_only=not allow_nonfinite) for _ in range(n)]
    mode = rng.choice(['none', 'random', 'random', 'all', 'corners'])
    if mode == 'none':
        mask = [False] * n
    elif mode == 'all':
        mask = [True] * n
    elif mode == 'corners':
        mask = [False] * n
        mask[0] = mask[-1] = True
    else:
        p = rng.random()
        mask = [rng.random() < p for _ in range(n)]
    folded = rng.random() < 0.35
    if folded:
        fo = folded_out(shape)
        vals = [0.0 if f else v for v, f in zip(vals, fo)]
        mask = [m or f for m, f in zip(mask, fo)]
    labels = None
    if rng.random() < 0.75:
        labels = [rng.choice(LABELS) for _ in shape]
    data = numpy.array(vals, dtype=float).reshape(shape)
    marr = numpy.array(mask, dtype=bool).reshape(shape)
    fs = dadi.Spectrum(data, mask=marr, mask_corners=False, data_folded=folded, pop_ids=labels)
    return fs, shape, vals, mask, folded, labels


def bits_equal(a, b):
    """exact equality of two floats, nan == nan"""
    return a == b or (a != a and b != b)


def within_precision(got, x, p):
    if not math.isfinite(x):
        return bits_equal(got, x)
    if not math.isfinite(got):
        return False
    fx, fg = Fraction(x), Fraction(got)
    return abs(fg - fx) <= (Fraction(1, 2) * Fraction(10) ** (1 - p) + Fraction(1, 2 ** 53)) * abs(fx)


def parse_new_format(text):
    """Pure-Python parser of the documented file format -> (comments, shape, folded, labels, values, mask)."""
    lines = text.split('\n')
    assert lines[-1] == '', 'file must end with a newline'
    lines = lines[:-1]
    comments = []
    while lines and lines[0].startswith('#'):
        comments.append(lines.pop(0)[1:].strip())
    header = lines.pop(0)
    q = header.find('"')
    head, rest = (header, '') if q < 0 else (header[:q], header[q:])
    toks = head.split()
    folded = None
    if toks and toks[-1] in ('folded', 'unfolded'):
        folded = toks.pop() == 'folded'
    shape = tuple(int(t) for t in toks)
    labels = None
    if rest:
        labels = []
        rest = rest.rstrip('\n')
        while rest:
            assert rest[0] == '"', rest
            j = rest.index('"', 1)
            labels.append(rest[1:j])
            rest = rest[j + 1:]
            if rest:
                assert rest[0] == ' ', repr(rest)
                rest = rest[1:]
    values = [float(t) for t in lines.pop(0).split(' ')]
    mask = None
    if lines:
        mask = [{'0': False, '1': True}[t] for t in lines.pop(0).split(' ')]
    assert not lines, 'unexpected extra lines'
    return comments, shape, folded, labels, values, mask


def short(vals, k=8):
    return [repr(v) for v in vals[:k]]


# ------------------------------------------------------------------------------------------ to_file/from_file
def _roundtrip(d, tmp, tier, ncase, suffix, lo, hi):
    import numpy, dadi, warnings
    from dadi import Spectrum
    rng = d.rng
    for i in range(lo, hi):
        fs, shape, vals, mask, folded, labels = rand_spectrum(dadi, numpy, rng, i)
        layout = 'C'
        if len(shape) >= 2 and rng.random() < 0.4:
            # same logical content in a non-C-contiguous memory layout (what transpose / swapaxes / reorder_pops hand back):
            # the file format is defined on the logical (row-major) order, whatever the strides are
            perm = list(range(len(shape)))
            while perm == sorted(perm):
                rng.shuffle(perm)
            inv = [perm.index(a) for a in range(len(shape))]
            dnc = numpy.ascontiguousarray(numpy.asarray(fs.data).transpose(perm)).transpose(inv)
            mnc = numpy.ascontiguousarray(numpy.ma.getmaskarray(fs).transpose(perm)).transpose(inv)
            fs = dadi.Spectrum(dnc, mask=mnc, mask_corners=False, data_folded=folded, pop_ids=labels)
            layout = 'strided, axes stored in order %s' % perm
        p = rng.choice([16, 16, 17, 18, 19, 20, rng.randint(16, 30)])
        comments = [rng.choice(COMMENTS) for _ in range(rng.randint(0, 5))]
        old = rng.random() < 0.2
        mc = rng.random() < 0.5
        fname = os.path.join(tmp, 'fs_%d%s' % (i, suffix))
        info = dict(shape=list(shape), precision=p, comments=comments, labels=labels, folded=folded, foldmaskinfo=not old,
                    mask_corners=mc, values=short(vals), mask=[int(m) for m in mask[:8]], file=os.path.basename(fname), memory_layout=layout,
                    c_contiguous=bool(numpy.asarray(fs.data).flags['C_CONTIGUOUS']))
        key = (i, shape, p, folded, old, mc, len(comments), tuple(labels or ()))
        nontriv = not all(mask)
        gzname = suffix.endswith('.gz')

        # --- write
        try:
            with warnings.catch_warnings():
                warnings.simplefilter('ignore')
                fs.to_file(fname, precision=p, comment_lines=comments, foldmaskinfo=not old)
            wrote = True
        except TypeError as e:
            d.case(key + ('write',), False, dict(info, error=repr(e)), nontriv,
                   fail_key='gz-write-typeerror' if gzname else 'write-exception')
            wrote = False
        except Exception as e:
            d.case(key + ('write',), False, dict(info, error=repr(e)), nontriv, fail_key='write-exception')
            wrote = False

        want_vals = [float(('%%.%dg' % p) % v) for v in vals]
        if wrote:
            # --- the file itself follows the documented format (independent parser)
            def chk_text():
                if gzname:
                    with gzip.open(fname, 'rt') as fh:
                        text = fh.read()
                else:
                    with open(fname) as fh:
                        text = fh.read()
                c, sh, fo, lb, vv, mm = parse_new_format(text)
                ok = (c == [x.strip() for x in comments] and sh == shape and len(vv) == len(vals)
                      and all(bits_equal(a, b) for a, b in zip(vv, want_vals)))
                if old:
                    ok = ok and fo is None and lb is None and mm is None
                else:
                    ok = ok and fo == folded and lb == labels and mm == mask
                return ok, dict(parsed=dict(comments=c, shape=list(sh), folded=fo, labels=lb, values=short(vv), mask=mm and mm[:8]))
            d.check(key + ('text',), chk_text, info, fail_key='file-format', nontrivial=nontriv)
        else:
            # keep testing the reader on an independently written file
            # (under a new name: the writer that failed half-way still owns the old one)
            fname = os.path.join(tmp, 'hand_%d%s' % (i, suffix))
            with (gzip.open(fname, 'wt') if gzname else open(fname, 'w')) as fh:
                fh.write(hand_text(comments, shape, None if old else folded, None if old else labels,
                                   [('%%.%dg' % p) % v for v in vals], None if old else mask))

        # --- read
        try:
            with warnings.catch_warnings():
                warnings.simplefilter('ignore')
                got, gcom = Spectrum.from_file(fname, mask_corners=mc, return_comments=True)
                got2 = Spectrum.from_file(fname, mask_corners=mc)
        except TypeError as e:
            d.case(key + ('read',), False, dict(info, error=repr(e)), nontriv,
                   fail_key='gz-read-typeerror' if gzname else 'read-exception')
            continue
        except Exception as e:
            d.case(key + ('read',), False, dict(info, error=repr(e)), nontriv, fail_key='read-exception')
            continue

        gv = [float(x) for x in numpy.asarray(got.data).ravel()]
        gm = [bool(x) for x in numpy.ma.getmaskarray(got).ravel()]
        wm = list(mask) if not old else [False] * len(mask)
        if mc:
            wm[0] = wm[-1] = True
        d.case(key + ('type',), isinstance(got, Spectrum) and isinstance(got2, Spectrum) and got.data.dtype == numpy.float64,
               dict(info, type=str(type(got))), nontriv, fail_key='roundtrip-type')
        d.case(key + ('shape',), tuple(got.shape) == shape, dict(info, got_shape=list(got.shape)), nontriv, fail_key='roundtrip-shape')
        okv = len(gv) == len(vals) and all(bits_equal(a, b) for a, b in zip(gv, want_vals))
        d.case(key + ('values',), okv, dict(info, got=short(gv), want=short(want_vals),
               first_bad=next(([j, repr(vals[j]), repr(gv[j]), repr(want_vals[j])] for j in range(min(len(gv), len(vals)))
                               if not bits_equal(gv[j], want_vals[j])), None)), nontriv, fail_key='roundtrip-values')
        js = range(len(vals)) if len(vals) <= 48 else [rng.randrange(len(vals)) for _ in range(48)]
        okp = len(gv) == len(vals) and all(within_precision(gv[j], vals[j], p) for j in js)
        d.case(key + ('precision',), okp, dict(info, got=short(gv)), nontriv, fail_key='roundtrip-precision-bound')
        if p >= 17:
            d.case(key + ('exact',), len(gv) == len(vals) and all(bits_equal(a, b) for a, b in zip(gv, vals)),
                   dict(info, got=short(gv)), nontriv, fail_key='roundtrip-exact-p17')
        d.case(key + ('mask',), gm == wm, dict(info, got_mask=[int(x) for x in gm[:16]], want_mask=[int(x) for x in wm[:16]]),
               nontriv, fail_key='roundtrip-mask')
        d.case(key + ('folded',), got.folded is (False if old else folded) or got.folded == (False if old else folded),
               dict(info, got_folded=repr(got.folded)), nontriv, fail_key='roundtrip-folded')
        wl = None if old else labels
        d.case(key + ('labels',), (got.pop_ids == wl) and (wl is None or list(got.pop_ids) == wl),
               dict(info, got_labels=got.pop_ids), nontriv, fail_key='roundtrip-labels')
        d.case(key + ('comments',), gcom == [c.strip() for c in comments], dict(info, got_comments=gcom), nontriv,
               fail_key='roundtrip-comments')
        same = (numpy.array_equal(numpy.asarray(got.data), numpy.asarray(got2.data), equal_nan=True)
                and numpy.array_equal(numpy.ma.getmaskarray(got), numpy.ma.getmaskarray(got2))
                and got.folded == got2.folded and got.pop_ids == got2.pop_ids)
        d.case(key + ('return_comments-agree',), same, info, nontriv, fail_key='roundtrip-return-comments-path')
        os.remove(fname)


def hand_text(comments, shape, folded, labels, value_tokens, mask, sep=' '):
    """A file in the documented format, written without any dadi/numpy code."""
    out = []
    for c in comments:
        out.append('# ' + c.strip())
    h = sep.join(str(s) for s in shape)
    if folded is not None:
        h += ' ' + ('folded' if folded else 'unfolded')
        if labels is not None:
            for l in labels:
                h += ' "%s"' % l
    out.append(h)
    out.append(' '.join(value_tokens))
    if mask is not None:
        out.append(' '.join('1' if m else '0' for m in mask))
    return '\n'.join(out) + '\n'


BOUND_RT = ('%d seeded spectra per tier-slice (40%% of those with >= 2 axes held in a non-C-contiguous, axis-permuted memory layout): 1-5 dims with singleton axes (16 fixed edge shapes first, then random, <=3125 entries), '
            'values 10^U(-300,300) both signs, 0, integers to 1e17, nan, +-inf; masks none/random/all/corners; '
            'folded 35%% (consistent folded-out mask); labels from a 12-item pool incl. spaces, leading/trailing/double spaces, quotes-free '
            'punctuation, the words folded/unfolded, or no labels; 0-5 comments (padding, #, tab, empty, quotes); precision 16..30; '
            'foldmaskinfo on/off; from_file mask_corners on/off; %s files. Oracle: values == float("%%.<p>g"%%x) exactly, '
            '|got-x| <= (0.5*10^(1-p)+2^-53)|x| in Fractions, exact for p>=17; independent parser of the written file')


def _run_rt(name, tier, which, suffix, part=None):
    d = Driver('C14', name, bound=BOUND_RT % (N[tier][which] if part is None else N[tier][which] // 2, suffix))
    tmp = tempfile.mkdtemp(prefix='verif_c14_')
    try:
        n = N[tier][which]
        if part is None:
            lo, hi = 0, n
        elif part == 0:
            lo, hi = 0, n // 2
        else:
            lo, hi = n // 2, n
        _roundtrip(d, tmp, tier, n, suffix, lo, hi)
    finally:
        shutil.rmtree(tmp, ignore_errors=True)
    return d.results()


def drv_plain_a(tier):
    return _run_rt('plain_a', tier, 'plain', '.fs', 0)


def drv_plain_b(tier):
    return _run_rt('plain_b', tier, 'plain', '.fs', 1)


def drv_gz(tier):
    return _run_rt('gz', tier, 'gz', '.fs.gz')


# ------------------------------------------------------------------------------------------ reader on hand-written files
def drv_reader(tier):
    """from_file on files written by hand (new and pre-1.3 format): no dadi writer involved."""
    import numpy, dadi, warnings
    from dadi import Spectrum
    n = N[tier]['reader']
    d = Driver('C14', 'reader', bound='%d hand-written files (no dadi writer): new format and pre-1.3 format (no folded token, no mask line), '
               'shapes 1-5 dims incl. singleton axes, value tokens repr(float)/integer/%%.17g/%%.3e incl. nan inf -inf, header integers '
               'separated by 1-3 spaces or tabs, labels with spaces, 0-5 comments, mask_corners on/off; expected = float(token)' % n)
    rng = d.rng
    tmp = tempfile.mkdtemp(prefix='verif_c14_')
    try:
        for i in range(n):
            _, shape, vals, mask, folded, labels = rand_spectrum(dadi, numpy, rng, i)
            style = rng.choice(['repr', 'repr', 'int', 'g17', 'e3'])
            if style == 'int':
                vals = [float(rng.randint(0, 1000)) for _ in vals]
                if folded:
                    vals = [0.0 if f else v for v, f in zip(vals, folded_out(shape))]
                toks = [str(int(v)) for v in vals]
            elif style == 'g17':
                toks = ['%.17g' % v for v in vals]
            elif style == 'e3':
                toks = ['%.3e' % v for v in vals]
            else:
                toks = [repr(v) for v in vals]
            want_vals = [float(t) for t in toks]
            comments = [rng.choice(COMMENTS) for _ in range(rng.randint(0, 5))]
            old = rng.random() < 0.35
            mc = rng.random() < 0.5
            sep = rng.choice([' ', ' ', '  ', '\t', '   '])
            text = hand_text(comments, shape, None if old else folded, None if old else labels, toks, None if old else mask, sep=sep)
            fname = os.path.join(tmp, 'hand_%d.fs' % i)
            with open(fname, 'w') as fh:
                fh.write(text)
            info = dict(text=text if len(text) < 400 else text[:400] + '...', mask_corners=mc, old_format=old)
            key = (i, shape, style, old, mc, sep, len(comments), tuple(labels or ()))
            nontriv = not all(mask)

            def chk():
                with warnings.catch_warnings():
                    warnings.simplefilter('ignore')
                    got, gcom = Spectrum.from_file(fname, mask_corners=mc, return_comments=True)
                gv = [float(x) for x in numpy.asarray(got.data).ravel()]
                gm = [bool(x) for x in numpy.ma.getmaskarray(got).ravel()]
                wm = [False] * len(mask) if old else list(mask)
                if mc:
                    wm[0] = wm[-1] = True
                res = dict(shape=tuple(got.shape) == shape,
                           values=len(gv) == len(want_vals) and all(bits_equal(a, b) for a, b in zip(gv, want_vals)),
                           mask=gm == wm, folded=got.folded == (False if old else folded),
                           labels=got.pop_ids == (None if old else labels),
                           comments=gcom == [c.strip() for c in comments])
                return all(res.values()), dict(checks=res, got=short(gv), got_labels=got.pop_ids, got_folded=repr(got.folded))
            d.check(key, chk, info, fail_key='reader-old-format' if old else 'reader-new-format', nontrivial=nontriv)
            os.remove(fname)
    finally:
        shutil.rmtree(tmp, ignore_errors=True)
    return d.results()


# ------------------------------------------------------------------------------------------ pickle
def drv_pickle(tier):
    import numpy, dadi, pickle, copy, warnings
    from dadi import Spectrum
    n = N[tier]['pickle']
    d = Driver('C14', 'pickle', bound='%d seeded spectra (same generator as the file round trip, incl. nan/inf under and outside the mask, '
               'folded, labels, extrap_x None/float) x pickle protocols 0..HIGHEST + copy.deepcopy; bit-exact data (also under the mask), '
               'mask (corners NOT re-masked), folded, pop_ids, extrap_x, type; result does not alias the original' % n)
    rng = d.rng
    for i in range(n):
        fs, shape, vals, mask, folded, labels = rand_spectrum(dadi, numpy, rng, i)
        ex = rng.choice([None, None, rng.random(), 0.0])
        fs.extrap_x = ex
        info = dict(shape=list(shape), values=short(vals), mask=[int(m) for m in mask[:8]], folded=folded, labels=labels, extrap_x=ex)
        for proto in list(range(pickle.HIGHEST_PROTOCOL + 1)) + ['deepcopy']:
            key = (i, shape, folded, tuple(labels or ()), proto)

            def chk():
                with warnings.catch_warnings():
                    warnings.simplefilter('ignore')
                    if proto == 'deepcopy':
                        got = copy.deepcopy(fs)
                    else:
                        got = pickle.loads(pickle.dumps(fs, protocol=proto))
                gv = [float(x) for x in numpy.asarray(got.data).ravel()]
                gm = [bool(x) for x in numpy.ma.getmaskarray(got).ravel()]
                res = dict(type=type(got) is Spectrum, shape=tuple(got.shape) == shape, dtype=got.data.dtype == numpy.float64,
                           values=len(gv) == len(vals) and all(bits_equal(a, b) for a, b in zip(gv, vals)),
                           mask=gm == list(mask), folded=got.folded == folded and isinstance(got.folded, (bool, numpy.bool_)),
                           labels=got.pop_ids == labels, extrap_x=got.extrap_x == ex and (ex is None) == (got.extrap_x is None))
                # no aliasing: changing the copy leaves the original alone
                if len(vals):
                    got.data.flat[0] = 12345.0
                    got.mask.flat[0] = not mask[0]
                    res['noalias'] = bits_equal(float(fs.data.flat[0]), vals[0]) and bool(numpy.ma.getmaskarray(fs).flat[0]) == mask[0]
                return all(res.values()), dict(checks=res, got=short(gv), got_labels=got.pop_ids, got_folded=repr(got.folded),
                                               got_extrap_x=repr(got.extrap_x))
            d.check(key, chk, dict(info, protocol=proto), fail_key='deepcopy' if proto == 'deepcopy' else 'pickle-roundtrip',
                    nontrivial=not all(mask))
    return d.results()


# ------------------------------------------------------------------------------------------ generic array writer/reader
def drv_array(tier):
    import numpy, dadi, warnings
    from dadi import Numerics
    n = N[tier]['array']
    d = Driver('C14', 'array', bound='%d seeded arrays: 1-5 dims incl. singleton axes, same value generator (nan/inf included), plain ndarray '
               '(C, Fortran-ordered, sliced views), masked array / Spectrum (masked entries must come back as nan); precision 16..30; 0-5 '
               'comments; by file name and by open text-mode file object (write and read); two arrays written back to back in one open file; '
               'hand-written file read. Oracle: float("%%.<p>g"%%x) exactly, shape, comments' % n)
    rng = d.rng
    tmp = tempfile.mkdtemp(prefix='verif_c14_')
    try:
        for i in range(n):
            fs, shape, vals, mask, folded, labels = rand_spectrum(dadi, numpy, rng, i)
            p = rng.choice([16, 16, 17, 18, 20, rng.randint(16, 30)])
            comments = [rng.choice(COMMENTS) for _ in range(rng.randint(0, 5))]
            kind = rng.choice(['ndarray', 'ndarray', 'fortran', 'view', 'masked', 'spectrum'])
            base = numpy.array(vals, dtype=float).reshape(shape)
            if kind == 'ndarray':
                arr = base
            elif kind == 'fortran':
                arr = numpy.asfortranarray(base)
            elif kind == 'view':
                big = numpy.zeros(tuple(2 * s for s in shape))
                sl = tuple(slice(rng.choice([0, 1]), None, 2) for s in shape)
                big[sl] = base
                arr = big[sl]
            elif kind == 'masked':
                arr = numpy.ma.masked_array(base, mask=numpy.array(mask, bool).reshape(shape), fill_value=numpy.nan)
            else:
                arr = fs
            use_mask = kind in ('masked', 'spectrum')
            want = [float('nan') if (use_mask and m) else float(('%%.%dg' % p) % v) for v, m in zip(vals, mask)]
            how_w = rng.choice(['name', 'fid'])
            how_r = rng.choice(['name', 'fid'])
            fname = os.path.join(tmp, 'arr_%d.txt' % i)
            info = dict(shape=list(shape), kind=kind, precision=p, comments=comments, write=how_w, read=how_r, values=short(vals),
                        mask=[int(m) for m in mask[:8]] if use_mask else None)
            key = (i, shape, kind, p, how_w, how_r, len(comments))

            def chk():
                with warnings.catch_warnings():
                    warnings.simplefilter('ignore')
                    if how_w == 'name':
                        Numerics.array_to_file(arr, fname, precision=p, comment_lines=comments)
                    else:
                        with open(fname, 'w') as fh:
                            Numerics.array_to_file(arr, fh, precision=p, comment_lines=comments)
                    # the text itself: comments, shape line, one data line
                    with open(fname) as fh:
                        text = fh.read()
                    c, sh, fo, lb, vv, mm = parse_new_format(text)
                    if how_r == 'name':
                        got, gcom = Numerics.array_from_file(fname, return_comments=True)
                        got2 = Numerics.array_from_file(fname)
                    else:
                        with open(fname) as fh:
                            got, gcom = Numerics.array_from_file(fh, return_comments=True)
                        with open(fname) as fh:
                            got2 = Numerics.array_from_file(fh)
                gv = [float(x) for x in numpy.asarray(got).ravel()]
                res = dict(text=(c == [x.strip() for x in comments] and sh == shape and fo is None and lb is None and mm is None
                                 and len(vv) == len(want) and all(bits_equal(a, b) for a, b in zip(vv, want))),
                           shape=tuple(got.shape) == shape,
                           values=len(gv) == len(want) and all(bits_equal(a, b) for a, b in zip(gv, want)),
                           comments=gcom == [x.strip() for x in comments],
                           paths=numpy.array_equal(numpy.asarray(got), numpy.asarray(got2), equal_nan=True))
                if p >= 17 and not use_mask:
                    res['exact'] = all(bits_equal(a, b) for a, b in zip(gv, vals))
                return all(res.values()), dict(checks=res, got=short(gv), want=short(want), got_comments=gcom)
            d.check(key, chk, info, fail_key='array-roundtrip')
            if os.path.exists(fname):
                os.remove(fname)

            # hand-written file -> array_from_file
            if i % 3 == 0:
                toks = [repr(v) for v in vals]
                text = hand_text(comments, shape, None, None, toks, None)
                with open(fname, 'w') as fh:
                    fh.write(text)

                def chk_hand():
                    got, gcom = Numerics.array_from_file(fname, return_comments=True)
                    gv = [float(x) for x in numpy.asarray(got).ravel()]
                    ok = (tuple(got.shape) == shape and len(gv) == len(vals) and all(bits_equal(a, b) for a, b in zip(gv, vals))
                          and gcom == [x.strip() for x in comments])
                    return ok, dict(got=short(gv), got_comments=gcom)
                d.check(key + ('hand',), chk_hand, dict(text=text[:400]), fail_key='array-reader-handwritten')
                os.remove(fname)

            # two arrays back to back through one open file object
            if i % 5 == 0:
                shape2 = rand_shape(rng, 10 ** 6)
                n2 = 1
                for s in shape2:
                    n2 *= s
                vals2 = [rand_value(rng) for _ in range(n2)]
                arr2 = numpy.array(vals2, dtype=float).reshape(shape2)
                want1 = [float(('%%.%dg' % p) % v) for v in vals]
                want2 = [float(('%%.%dg' % p) % v) for v in vals2]

                def chk_two():
                    with open(fname, 'w') as fh:
                        Numerics.array_to_file(base, fh, precision=p, comment_lines=comments)
                        Numerics.array_to_file(arr2, fh, precision=p, comment_lines=['second'])
                    with open(fname) as fh:
                        g1, c1 = Numerics.array_from_file(fh, return_comments=True)
                        g2, c2 = Numerics.array_from_file(fh, return_comments=True)
                    v1 = [float(x) for x in g1.ravel()]
                    v2 = [float(x) for x in g2.ravel()]
                    ok = (tuple(g1.shape) == shape and tuple(g2.shape) == shape2
                          and len(v1) == len(want1) and all(bits_equal(a, b) for a, b in zip(v1, want1))
                          and len(v2) == len(want2) and all(bits_equal(a, b) for a, b in zip(v2, want2))
                          and c1 == [x.strip() for x in comments] and c2 == ['second'])
                    return ok, dict(got1=short(v1), got2=short(v2), c1=c1, c2=c2, shape2=list(shape2))
                d.check(key + ('two',), chk_two, dict(info, shape2=list(shape2), values2=short(vals2)), fail_key='array-two-in-one-file')
                if os.path.exists(fname):
                    os.remove(fname)

        # degenerate: empty array
        def chk_empty():
            fname = os.path.join(tmp, 'empty.txt')
            Numerics.array_to_file(numpy.zeros((0, 3)), fname)
            got = Numerics.array_from_file(fname)
            return tuple(got.shape) == (0, 3), dict(got_shape=list(got.shape))
        d.check(('empty',), chk_empty, dict(shape=[0, 3]), fail_key='array-empty', nontrivial=False)
    finally:
        shutil.rmtree(tmp, ignore_errors=True)
    return d.results()
