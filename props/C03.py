"""C03 - integration is linear in (density, theta0) and independent of the reference size.

Contracts / lemmas (sidecar):
  integration_shared.c  Vfunc, Vfunc_beta:  V(x; c nu) = V(x; nu)/c;   Mfunc1D..5D:  M(x; m/c, gamma/c, h) = M/c
                        compute_delj contract: delj(M/c, V/c, dx) = delj(M, V, dx);
                        compute_abc_nobc contract: (a, b, c)(M/c, V/c, c dt) = (a, b, c)(M, V, dt)/c      (2-safety lemmas)
  Integration.py        _compute_dt(dx, c nu, ms/c, gamma/c, h) = c _compute_dt(dx, nu, ms, gamma, h) on every pair of paths;
                        _inject_mutations_kD: increment = theta0 x (theta0-free, phi-free term), unchanged under (c dt, theta0/c)  [C04 obligations]
  Linearity in the density: the kernel contracts of C02 hand the solver coefficient arrays that do not depend on phi and rhs phi/dt.
Whole-model superposition and rescaling: bounded driver.
"""
from vf.core import Task
from vf.helpers import bounded_tasks

META = dict(
    level='other',
    explanation='Per-step invariance under a change of reference size is proved as 2-safety lemmas over the verified contracts of the C '
                'helpers and on the real _compute_dt; the influx formula is proved in C04. Linearity of one step follows from the C02 '
                'kernel contracts (coefficients independent of the density, rhs phi/dt). Whole integrations and whole models (many steps, '
                'round-off) are bounded run-time checks to 1e-10.',
    trusted_base=['double = real', 'contracts of integration_shared.c as verified in C02', 'exp uninterpreted (congruence only)', 'vf/polyring.py'],
)


def tasks(tier):
    ts = [Task('props.C03:t_scaling', name='C03/scaling-lemmas', timeout=600),
          Task('props.wire:run', name='C03/wire.compute_dt', fname='c03_compute_dt', timeout=300),
          Task('props.wire:run', name='C03/wire.ensure_1arg_func', fname='c03_ensure_1arg_func', timeout=300)]
    for K in (1, 2, 3, 4, 5):
        ts.append(Task('props.C03:t_step', name='C03/wire.driver-step.%d' % K, K=K, timeout=600))
        ts.append(Task('props.C03:t_inject', name='C03/wire.inject.%d' % K, K=K, timeout=600))
    ts.append(Task('props.C03:t_const', name='C03/wire.const-1d', K=1, timeout=900))
    ts.append(Task('props.C03:t_const', name='C03/wire.const-2d', K=2, timeout=900))
    ts.append(Task('props.C03:t_equilibrium', name='C03/wire.phi_1D-closed-forms', timeout=600))
    return ts + bounded_tasks('C03', tier)


def t_equilibrium():
    """the starting densities are theta0 times a function that does not involve theta0, at EVERY grid point including the two ends (closed forms of
    phi_1D_snm, phi_1D_genic and the general-dominance phi_1D, contracts of C01): linearity in theta0 of everything computed from them starts here"""
    from contracts import py_wiring as W
    rs = W.c01_phi_1D_snm() + W.c01_phi_1D_genic() + W.c01_phi_1D_general_h()
    for r in rs:
        r['id'] = r['id'].replace('C01/', 'C03/', 1)
        if r.get('finding_key'):
            r['finding_key'] = r['finding_key'].replace('C01/', 'C03/', 1)
    return rs


def t_step(K):
    """the time-step rule receives each population's own (nu, [m], gamma, h): clause compute_dt-args of the one-step driver contract (C02)"""
    from contracts import py_wiring as W
    rs = W.c02_driver_step(K, ())
    out = []
    for r in rs:
        if 'compute_dt' in r['id'] or r['verdict'] != 'proved':
            r['id'] = r['id'].replace('C02/', 'C03/', 1)
            out.append(r)
    return out


def t_const(K):
    """the constant-parameter drivers assemble the system from V(x, nu), M, Delta and delj(M, dx, V) of the SAME population: with the rescaling lemmas
    over those coefficient functions this is what makes them independent of the reference size (same contracts as C02)"""
    from contracts import py_wiring as W
    rs = W.c02_const_1d(4) if K == 1 else W.c02_const_kd(2, 3)
    for r in rs:
        r['id'] = r['id'].replace('C02/', 'C03/', 1)
        if r.get('finding_key'):
            r['finding_key'] = r['finding_key'].replace('C02/', 'C03/', 1)
    return rs


def t_inject(K):
    """the influx is linear in theta0 and dt and normalised by the trapezoid weights: amount clauses of the influx contract (same contract as C04)"""
    from contracts import py_wiring as W
    out = []
    for r in W.c04_inject(K):
        if '.increment' in r['id'] or r['verdict'] != 'proved':
            r['id'] = r['id'].replace('C04/', 'C03/', 1)
            if r.get('finding_key'):
                r['finding_key'] = r['finding_key'].replace('C04/', 'C03/', 1)
            out.append(r)
    return out


def t_scaling():
    from contracts import c_verify as V
    return V.scaling_lemmas()


MANIFEST_ENTRY = dict(
    category='other',
    engine='cvc',
    technique='2-safety lemmas over the verified contracts of the C helpers (z3 + ring normaliser), path-pair obligations on the real _compute_dt; '
              'bounded superposition / rescaling of whole integrations and models',
    text='Proved for all inputs: rescaling the reference size by c divides V and M by c, leaves the Chang-Cooper weight unchanged and divides the '
         'assembled (a,b,c) by c when dt is multiplied by c; _compute_dt scales by exactly c on every path. Together with the C02 kernel '
         'contracts this makes one rescaled step solve the same linear system. Superposition and rescaling of whole integrations (1-5 '
         'populations, time-varying parameters, flags) and whole models are bounded run-time checks at 1e-10.',
    note='induction over time steps and round-off are not proved; see evidence for the bounded domains',
)
