"""C18 - Low-pass calling model redistributes probability and vanishes at deep coverage

Contracts (contracts/py_wiring.py c18_*): split_list_by_lengths block law, projection_inbreeding = subset counting with multiplicity,
probability_enough_individuals_covered = binomial tail, projection_matrix rows (F = 0: hypergeometric projection; F != 0: partition mixture),
memo keys of the caches the calling model reads.  The stochastic / coverage-limit clauses stay with the bounded drivers (props/bounded_C18.py).
"""
from vf.helpers import bounded_tasks

META = dict(
    level='other',
    explanation='Closed-form contracts of the deterministic low-pass helpers discharged from their AST by z3 / the ring normaliser; the limit, row-stochasticity of the full calling model and the simulated regime are run-time contracts over the bounded domain stated per driver (never counted as proved).',
    trusted_base=['oracles of props/bounded_C18.py (independent of dadi: exact rationals, mpmath, dense linear algebra, explicit index loops)'],
    rule='cases enumerated or sampled as stated in each driver\'s bound; a case is non-trivial unless the driver marks it degenerate; distinct by its key',
)


def tasks(tier):
    from vf.core import Task
    W = lambda name, fname, **kw: Task('props.wire:run', name='C18/wire.' + name, fname=fname, kwargs=kw, timeout=300)
    ts = [Task('props.C18:ob_memo', name='C18/memo-keys', timeout=180),
          W('split_list', 'c18_split_list'),
          W('projection_inbreeding.n3_k2', 'c18_projection_inbreeding', n=3, k=2),
          W('projection_inbreeding.n4_k4', 'c18_projection_inbreeding', n=4, k=4),
          W('enough_covered.6_4', 'c18_enough_covered', nseq=6, nsub=4),
          W('enough_covered.8_2', 'c18_enough_covered', nseq=8, nsub=2),
          W('enough_covered.10_6', 'c18_enough_covered', nseq=10, nsub=6),
          W('projection_matrix.4_2', 'c18_projection_matrix', nseq=4, nsub=2),
          W('no_call.2', 'c18_no_call', nseq=2), W('no_call.4', 'c18_no_call', nseq=4), W('partitions_and_probabilities.2', 'c18_partitions_and_probabilities', nseq=2), W('partitions_and_probabilities.4', 'c18_partitions_and_probabilities', nseq=4),
          W('lowpass_wrapper', 'c18_lowpass_wrapper'), W('lowpass_wrapper.2pop', 'c18_lowpass_wrapper_2pop'), W('precalc_roles.1', 'c18_precalc_roles', P=1), W('precalc_roles.2', 'c18_precalc_roles', P=2), W('precalc_roles.3', 'c18_precalc_roles', P=3),
          W('calling_error_matrix.2', 'c18_calling_error_matrix', nsub=2), W('calling_error_matrix.4', 'c18_calling_error_matrix', nsub=4),
          W('part_inbreeding', 'c18_part_inbreeding'), W('subsample_draw', 'c18_subsample_draw')]
    if tier == 'thorough':
        ts += [W('projection_inbreeding.n5_k4', 'c18_projection_inbreeding', n=5, k=4),
               W('projection_inbreeding.n6_k2', 'c18_projection_inbreeding', n=6, k=2),
               W('enough_covered.12_5', 'c18_enough_covered', nseq=12, nsub=5),
               W('projection_matrix.6_4', 'c18_projection_matrix', nseq=6, nsub=4),
               W('calling_error_matrix.6', 'c18_calling_error_matrix', nsub=6), W('partitions_and_probabilities.6', 'c18_partitions_and_probabilities', nseq=6)]
    return ts + bounded_tasks('C18', tier)


def ob_memo():
    from contracts.py_memo import all_memo_obligations
    return all_memo_obligations('C18', only=['cached_part', 'multinomln', 'BetaBinomln', '_cached_projection'])


MANIFEST_ENTRY = dict(
    category='other',
    engine='bounded',
    technique='sidecar contracts on the real functions: wiring / closed-form obligations from the AST discharged by z3 and the ring normaliser where the functions are within reach; bounded run-time contracts with independent oracles for the rest (never counted as proved)',
    text='Discharged from the real source on every run (all values, stated small shapes): partitions_and_probabilities (the table of cached_part per allele count in order, probability = multinomial weight x 2^heterozygotes normalised per allele count, sums to one, inbreeding delegated per allele count, refusals; nseq = 2, 4; cached_part / multinomln by contract), split_list_by_lengths, projection_inbreeding (subsets with multiplicity), probability_enough_individuals_covered (binomial tail), projection_matrix rows (F=0 / F!=0), probability_of_no_call_1D_GATK_multisample closed form + definedness (no division by a quantity that can vanish), part_inbreeding_probability (multinomial x beta-binomial weights), calling_error_matrix entry-wise = partition weight x binomial miscall x fair split of the miscalls, rows summing to the partition weights, miscall probability in [0,1] (nsub = 2, 4; partitions by contract, scipy binom.pmf by its documented sum), memo keys, per-locus permutation call site, low_cov_precalc_GATK_multisample_GATK_multisample argument roles (every population with its own coverage distribution, sequenced / subsample size and F reach every helper; 1-3 populations), make_low_pass_func_GATK_multisample (model evaluated at the sequenced sizes, output = (model x not-simulated x called) . projection . miscall + simulated part entry-wise for one population and for two (each axis by its own matrices), flags carried, folded model and Fx = 1 refused). Bounded run-time contracts (never counted as proved): Partition enumeration exhaustively for n<=10, row-stochastic matrices, no-call bounds, deep-coverage limit, simulated regime.',
    note='bounded: see coverage.bounded.drivers[].bound in the evidence file for the exact domain of every driver',
)
