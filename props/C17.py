"""C17 - DFE integration is the documented quadrature of a schedule-independent cache

Contracts: the obligations listed in tasks() (contracts/py_wiring.py, contracts/py_memo.py, contracts/c_*.py) are generated from the real source on every run and
discharged by z3 / the ring normaliser; clauses outside their reach are run-time contracts over stated bounded domains (props/bounded_C17.py).
"""
from vf.helpers import bounded_tasks

META = dict(
    level='other',
    explanation='Wiring / closed-form / memo-key contracts generated from the real source and discharged by z3 and the ring normaliser for the functions within reach (see coverage.obligations); the remaining clauses are run-time contracts over the bounded domain stated per driver (bounded stand-in, never counted as proved).',
    trusted_base=['oracles of props/bounded_C17.py (independent of dadi: exact rationals, mpmath, dense linear algebra, explicit index loops)'],
    rule='cases enumerated or sampled as stated in each driver\'s bound; a case is non-trivial unless the driver marks it degenerate; distinct by its key',
)


def tasks(tier):
    from vf.core import Task
    return [Task('props.wire:run', name='C17/wire.c17_point_pos.Npos1', fname='c17_point_pos', kwargs=dict(Npos=1), timeout=300), Task('props.wire:run', name='C17/wire.c17_point_pos.Npos2', fname='c17_point_pos', kwargs=dict(Npos=2), timeout=300), Task('props.wire:run', name='C17/wire.point_pos_uncached', fname='c17_point_pos_uncached', timeout=300), Task('props.wire:run', name='C17/wire.integrate_1d', fname='c17_integrate_1d', timeout=300), Task('props.wire:run', name='C17/wire.integrate_2d.asymmetric', fname='c17_integrate_2d', kwargs=dict(symmetric=False), timeout=300), Task('props.wire:run', name='C17/wire.integrate_2d.symmetric', fname='c17_integrate_2d', kwargs=dict(symmetric=True), timeout=300), Task('props.wire:run', name='C17/wire.point_pos_2d', fname='c17_point_pos_2d', timeout=600), Task('props.wire:run', name='C17/wire.vourlaki_mixture', fname='c17_vourlaki_mixture', timeout=300), Task('props.wire:run', name='C17/wire.mixture_functions', fname='c17_mixture_functions', timeout=300), Task('props.C17:t_pdf', name='C17/pdfs.biv_lognormal', timeout=600), Task('props.C17:t_pdf2', name='C17/pdfs.biv_ind_gamma', timeout=600)] + bounded_tasks('C17', tier)


MANIFEST_ENTRY = dict(
    category='other',
    engine='bounded',
    technique='sidecar contracts on the real functions: wiring / closed-form obligations from the AST discharged by z3 and the ring normaliser where the functions are within reach; bounded run-time contracts with independent oracles for the rest (never counted as proved)',
    text='Discharged from the real source on every run (all values, stated small shapes): PDFs.c:biv_lognormal and biv_ind_gamma; Cache1D.integrate, integrate_point_pos (cached gammas; and a gamma computed on demand: demo_sel_func called once, the cache extended by that gamma and the spectrum as computed, theta applied to the result only); Cache2D.integrate: interior double trapezoid + the four edge marginals + three corner integrals with the documented integrand/range of every quad/dblquad call (asymmetric and symmetric shortcut; the missing both-deleterious corner is a known finding); Cache2D.integrate_point_pos entry-wise = the documented four-quadrant mixture (quadrant weights summing to one, each mixed quadrant weighted by the marginal density of the other population, cached spectra indexed population 1 first; a positive gamma absent from the cache refused) and integrate_symmetric_point_pos forwarding; Vourlaki_mixture as an exact linear combination of cached quantities; mixture, mixture_symmetric_point_pos, mixture_point_pos as two-term combinations with every argument bound by name to the cache method it reaches. Bounded run-time contracts (never counted as proved): DFE quadrature identities against mpmath, theta-linearity, mixtures, cache equality across worker counts and split jobs, fault reporting, compiled pdfs.',
    note='bounded: see coverage.bounded.drivers[].bound in the evidence file for the exact domain of every driver',
)


def t_pdf2():
    from contracts import c_verify as V
    return V.verify_biv_ind_gamma()


def t_pdf():
    from contracts import c_verify as V
    return V.verify_biv_lognormal()
