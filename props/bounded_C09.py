"""E4 bounded driver for C09: folding / ancestral misidentification / operator overloads.

Oracles are explicit re-indexing with numpy index arrays (mirror(i) = ns - i, t(i) = sum(i)); none of dadi's
reverse_array / _total_per_entry / fold / unfold is used to build an expected value.

The property text is followed literally, including at the two corner entries: a corner the caller has unmasked stays unmasked
through fold()/unfold() unless its mirror is masked (see _corners).
"""
import itertools
import math
import random

from vf.core import Task
from vf.bounded import Driver
from vf.common import seed

RT = 1e-14        # entry laws: a couple of roundings
RT_SUM = 1e-12    # totals


def tasks(tier):
    T = []
    nsh = 12
    for s in range(nsh):
        T.append(Task('props.bounded_C09:drv_fold', name='C09/bounded/fold.%02d' % s, tier=tier, shard=s, nshard=nsh, timeout=1200))
    for s in range(2):
        T.append(Task('props.bounded_C09:drv_misid', name='C09/bounded/misid.%d' % s, tier=tier, shard=s, nshard=2, timeout=900))
    for s in range(2):
        T.append(Task('props.bounded_C09:drv_ops', name='C09/bounded/ops.%d' % s, tier=tier, shard=s, nshard=2, timeout=900))
    T.append(Task('props.bounded_C09:drv_slice_ll', name='C09/bounded/slice_ll', tier=tier, timeout=900))
    return T


# ----------------------------------------------------------------------------------------------- oracles
def o_mirror(a):
    import numpy
    idx = numpy.indices(a.shape)
    return a[tuple((s - 1) - ix for s, ix in zip(a.shape, idx))]


def o_tot(shape):
    import numpy
    return numpy.indices(shape).sum(axis=0), sum(s - 1 for s in shape)


def _corners(mask):
    # The property is taken literally: the result's mask is the union of an entry's and its mirror's masks (plus the folded-out half) and
    # nothing else.  (Until the fix recorded in known_findings.json, fold()/unfold() built their result with the constructor default
    # mask_corners=True and so masked the two corner entries even when the caller had unmasked them, losing their counts from the total.)
    return mask.copy()


def o_fold(x, mask):
    import numpy
    t, T = o_tot(x.shape)
    out, amb = 2 * t > T, 2 * t == T
    s = x + o_mirror(x)
    data = numpy.where(out, 0.0, numpy.where(amb, s / 2.0, s))
    return data, _corners(mask | o_mirror(mask) | out), out


def close(got, want, mask, rtol):
    import numpy
    got, want = numpy.asarray(got, dtype=float), numpy.asarray(want, dtype=float)
    sel = ~numpy.asarray(mask, dtype=bool)
    if not sel.any():
        return True, 0.0
    err = numpy.abs(got[sel] - want[sel]) / (numpy.abs(want[sel]) + 1e-300)
    e = float(err.max())
    return bool(e <= rtol), e


def all_shapes(maxn, dims=(1, 2, 3, 4, 5)):
    out = []
    for nd in dims:
        out += [tuple(ns) for ns in itertools.product(range(1, maxn + 1), repeat=nd)]
    return out


def mask_patterns(r, rng, shape, npat):
    """npat mask patterns for this shape; for arrays with <= 6 entries all 2^size patterns instead."""
    import numpy
    size = int(numpy.prod(shape))
    if size <= 6:
        for bits in range(2 ** size):
            yield numpy.array([(bits >> i) & 1 for i in range(size)], bool).reshape(shape)
        return
    mk = numpy.zeros(shape, bool)
    yield mk.copy()                                        # none
    yield _corners(mk)                                     # constructor default
    t, T = o_tot(shape)
    yield (2 * t > T)                                      # exactly the folded-out half
    yield (2 * t == T)                                     # exactly the ambiguous diagonal
    yield (2 * t < T)                                      # exactly the minor half
    yield numpy.ones(shape, bool)                          # everything (trivial)
    k = 6
    while k < npat:
        c = k % 6
        mk = numpy.zeros(shape, bool)
        if c == 0:
            mk.flat[rng.randrange(size)] = True            # single entry
        elif c == 1:
            i = rng.randrange(size)                        # an entry and its mirror
            mk.flat[i] = True
            mk = mk | o_mirror(mk)
        elif c == 2:
            ax = rng.randrange(len(shape))                 # hyperplane
            sl = [slice(None)] * len(shape)
            sl[ax] = rng.randrange(shape[ax])
            mk[tuple(sl)] = True
        else:
            mk = r.uniform(size=shape) < (0.08, 0.3, 0.7)[c - 3]
        yield mk
        k += 1


# ----------------------------------------------------------------------------------------------- fold
def drv_fold(tier, shard, nshard):
    import numpy, dadi
    npat = 64 if tier == 'quick' else 256
    nextra = 0 if tier == 'quick' else 2400
    d = Driver('C09', 'fold.%02d' % shard,
               bound='shard %d/%d of: EVERY shape with 1-5 dims and sample sizes 1..4 per axis (1364 shapes, both parities of the total) x %d '
                     'mask patterns (none, default corners, exactly the folded-out/ambiguous/minor halves, all, single entries, mirror pairs, '
                     'hyperplanes, random 8/30/70%%; all 2^size patterns when size<=6)%s; random positive data; labels on/off. Checked against '
                     'explicit index arithmetic: fold entry law (t<T/2: x+mirror, t=T/2: half-sum, t>T/2: 0 and masked; rel %g on unmasked), '
                     'mask = own|mirror|folded-out (corners included: nothing else is masked), total = sum of x over entries unmasked together '
                     'with their mirror (rel %g), fold(mirror(x)) == fold(x), fold(unfold(fold(x))) == fold(x) incl. masks, unfold law '
                     '(half-sum, symmetric mask, total kept), fold of folded / unfold of unfolded raise ValueError, labels/extrap_x kept, '
                     'input untouched' % (shard, nshard, npat,
                                          '' if not nextra else ' + %d sampled shapes with sample sizes 1..7 x 16 patterns' % nextra, RT, RT_SUM))
    r = d.nprng()
    shapes = [(ns, npat) for ns in all_shapes(4)]
    xr = random.Random(seed() * 31 + 1)      # the sampled-shape list must be the same in every shard
    for _ in range(nextra):
        nd = xr.choice([1, 2, 2, 3, 3, 4, 5])
        shapes.append((tuple(xr.randint(1, 7) for _ in range(nd)), 16))
    for si, (ns, npat_s) in enumerate(shapes):
        if si % nshard != shard:
            continue
        shape = tuple(n + 1 for n in ns)
        t, T = o_tot(shape)
        ids = ['p%d' % i for i in range(len(ns))] if si % 3 else None
        x = r.uniform(0.1, 10.0, size=shape)
        xm = o_mirror(x)
        for pi, mk in enumerate(mask_patterns(r, d.rng, shape, npat_s)):
            key = (ns, mk.tobytes())
            info = dict(ns=list(ns), pattern=pi, x=x.tolist() if x.size <= 12 else None, mask=mk.astype(int).tolist() if x.size <= 30 else None)

            def run():
                fs = dadi.Spectrum(x, mask=mk, mask_corners=False, pop_ids=ids, extrap_x=0.5)
                f = fs.fold()
                wd, wm, out = o_fold(x, mk)
                gm = numpy.ma.getmaskarray(f)
                res = {}
                ok_v, e = close(f.data, wd, wm, RT)
                res['rel'] = e
                res['entry_law'] = ok_v
                res['folded_out_zero'] = bool(not f.data[out].any())
                res['mask_law'] = bool(numpy.array_equal(gm, wm))
                if not res['mask_law'] and gm.size <= 30:
                    res['got_mask'], res['want_mask'] = gm.astype(int).tolist(), wm.astype(int).tolist()
                sym = ~_corners(mk | o_mirror(mk))
                want_tot = float(x[sym].sum())
                got_tot = float(numpy.ma.filled(f.sum(), 0.0)) if sym.any() else 0.0
                res['total'] = bool(abs(got_tot - want_tot) <= RT_SUM * max(want_tot, 1e-300) or (want_tot == 0 and got_tot == 0))
                res['total_got_want'] = [got_tot, want_tot]
                res['meta'] = bool(f.folded is True and f.pop_ids == ids and f.extrap_x == 0.5 and f.shape == shape and isinstance(f, dadi.Spectrum))
                res['input_untouched'] = bool(numpy.array_equal(fs.data, x) and numpy.array_equal(numpy.ma.getmaskarray(fs), mk) and fs.folded is False)
                # mirrored input
                f2 = dadi.Spectrum(xm, mask=o_mirror(mk), mask_corners=False, pop_ids=ids).fold()
                ok_m, e2 = close(f2.data, wd, wm, RT)
                res['mirror_invariant'] = bool(ok_m and numpy.array_equal(numpy.ma.getmaskarray(f2), wm))
                # unfold law on the valid folded spectrum f
                u = f.unfold()
                fd = numpy.array(f.data)
                keptmask = gm & ~out
                um_want = _corners(keptmask | o_mirror(keptmask))
                ok_u, e3 = close(u.data, (fd + o_mirror(fd)) / 2.0, um_want, RT)
                res['unfold_law'] = bool(ok_u and numpy.array_equal(numpy.ma.getmaskarray(u), um_want) and u.folded is False and u.pop_ids == ids
                                         and u.extrap_x == 0.5)
                ut = float(numpy.ma.filled(u.sum(), 0.0)) if (~um_want).any() else 0.0
                res['unfold_total'] = bool(abs(ut - got_tot) <= RT_SUM * max(abs(got_tot), 1e-300) or (ut == 0 and got_tot == 0))
                # idempotence
                f3 = u.fold()
                ok_i, e4 = close(f3.data, wd, wm, 4 * RT)
                res['idempotent'] = bool(ok_i and numpy.array_equal(numpy.ma.getmaskarray(f3), wm) and f3.folded is True)
                # refusals
                try:
                    f.fold()
                    res['refold_refused'] = False
                except ValueError:
                    res['refold_refused'] = True
                try:
                    fs.unfold()
                    res['unfold_unfolded_refused'] = False
                except ValueError:
                    res['unfold_unfolded_refused'] = True
                bad = [k for k, v in res.items() if v is False]
                res['failed_clauses'] = bad
                return not bad, res
            d.check(key, run, info, fail_key='fold-law', nontrivial=not _corners(mk | o_mirror(mk)).all())
    return d.results()


# ----------------------------------------------------------------------------------------------- misid
def drv_misid(tier, shard, nshard):
    import numpy, dadi
    from dadi import Numerics
    maxn = 4
    npat = 8 if tier == 'quick' else 24
    nrand = 2 if tier == 'quick' else 8
    d = Driver('C09', 'misid.%d' % shard,
               bound='shard %d/%d of: every shape with 1-4 dims and sample sizes 1..%d, plus 5-D sample sizes 1..2 and 60 sampled 5-D shapes '
                     '1..4, x %d mask patterns x p in {0, 1, 0.5, 1e-9, 1-1e-9, int 0, int 1, numpy.float64} + %d random p in [0,1]: '
                     'apply_anc_state_misid(x,p) == (1-p)x + p*mirror(x) entry by entry (explicit index oracle, rel %g), mask = own|mirror, '
                     'p=0 identity and p=1 mirror exactly, total conserved when the mask is mirror-symmetric (rel %g), fold(misid(x)) == '
                     'fold(x), folded flag/labels kept; make_anc_state_misid_func strips the last parameter and forwards the remaining '
                     'positional and keyword arguments unchanged' % (shard, nshard, maxn, npat, nrand, RT, RT_SUM))
    r = d.nprng()
    shapes = all_shapes(maxn, dims=(1, 2, 3, 4)) + all_shapes(2, dims=(5,))
    xr = random.Random(seed() * 31 + 2)
    shapes += [tuple(xr.randint(1, 4) for _ in range(5)) for _ in range(60)]
    for si, ns in enumerate(shapes):
        if si % nshard != shard:
            continue
        shape = tuple(n + 1 for n in ns)
        x = r.uniform(0.1, 10.0, size=shape)
        xm = o_mirror(x)
        ids = ['p%d' % i for i in range(len(ns))] if si % 2 else None
        for pi, mk in enumerate(itertools.islice(mask_patterns(r, d.rng, shape, npat + 6), 0, npat + 6)):
            if pi in (2, 3, 4) and x.size > 6:
                continue
            fs = dadi.Spectrum(x, mask=mk, mask_corners=False, pop_ids=ids)
            wmask = mk | o_mirror(mk)
            ps = [0.0, 1.0, 0.5, 1e-9, 1 - 1e-9, 0, 1, numpy.float64(0.25)] + [d.rng.random() for _ in range(nrand)]
            for p in ps:
                info = dict(ns=list(ns), p=float(p), ptype=type(p).__name__, pattern=pi, x=x.tolist() if x.size <= 12 else None,
                            mask=mk.astype(int).tolist() if x.size <= 30 else None)

                def run():
                    g = Numerics.apply_anc_state_misid(fs, p)
                    want = (1 - p) * x + p * xm
                    res = {}
                    ok, e = close(g.data, want, wmask, RT)
                    res['rel'] = e
                    res['entry_law'] = ok
                    res['mask_law'] = bool(numpy.array_equal(numpy.ma.getmaskarray(g), wmask))
                    if p == 0:
                        res['p0_identity'] = bool(numpy.array_equal(g.data[~wmask], x[~wmask]))
                    if p == 1:
                        res['p1_mirror'] = bool(numpy.array_equal(g.data[~wmask], xm[~wmask]))
                    if (~wmask).any():
                        wt, gt = float(x[~wmask].sum()), float(g.sum())
                        res['total'] = bool(abs(gt - wt) <= RT_SUM * wt)
                    res['meta'] = bool(isinstance(g, dadi.Spectrum) and g.folded is False and g.pop_ids == ids)
                    res['input_untouched'] = bool(numpy.array_equal(fs.data, x) and numpy.array_equal(numpy.ma.getmaskarray(fs), mk))
                    if (~_corners(wmask)).any():
                        a, b = g.fold(), fs.fold()
                        am, bm = numpy.ma.getmaskarray(a), numpy.ma.getmaskarray(b)
                        okf, _ = close(a.data, b.data, am | bm, 1e-13)
                        wd, wm, _o = o_fold(x, mk)
                        okf2, _ = close(a.data, wd, wm, 1e-13)
                        res['fold_invariant'] = bool(okf and okf2 and numpy.array_equal(am, bm))
                    bad = [k for k, v in res.items() if v is False]
                    res['failed_clauses'] = bad
                    return not bad, res
                d.check((ns, mk.tobytes(), float(p), type(p).__name__), run, info, fail_key='misid-law', nontrivial=not wmask.all())
    # the wrapper
    for trial in range(40 if tier == 'quick' else 400):
        npar = d.rng.randint(0, 5)
        params = [d.rng.uniform(0.1, 3) for _ in range(npar)]
        p = d.rng.choice([0.0, 1.0, d.rng.random()])
        ns = tuple(d.rng.randint(1, 5) for _ in range(d.rng.randint(1, 3)))
        seen = {}
        kind = d.rng.choice(['list', 'tuple', 'array'])

        def model(par, ns_, pts, extra=None, *more, **kw):
            seen.update(par=list(par), ns=ns_, pts=pts, extra=extra, more=more, kw=kw)
            rr = numpy.random.RandomState(7)
            return dadi.Spectrum(rr.uniform(0.5, 2.0, size=[n + 1 for n in ns_]) * (1 + sum(par)), pop_ids=['a%d' % i for i in range(len(ns_))])
        model.__doc__ = 'doc%d' % trial
        wrapped = Numerics.make_anc_state_misid_func(model)
        full = params + [p]
        arg = full if kind == 'list' else tuple(full) if kind == 'tuple' else numpy.array(full)
        usekw = d.rng.random() < 0.5

        def run():
            if usekw:
                g = wrapped(arg, ns, [10, 20], 'E', 'M1', flag=3)
            else:
                g = wrapped(arg, ns, pts=[10, 20])
            seen_call = dict(seen)
            base = model(params, ns, None)
            seen.clear()
            seen.update(seen_call)
            want = (1 - p) * base.data + p * o_mirror(numpy.array(base.data))
            wmask = numpy.ma.getmaskarray(base) | o_mirror(numpy.ma.getmaskarray(base))
            ok, e = close(g.data, want, wmask, RT)
            fw = (seen['par'] == params and seen['ns'] == ns and seen['pts'] == [10, 20]
                  and ((seen['extra'] == 'E' and seen['more'] == ('M1',) and seen['kw'] == {'flag': 3}) if usekw else
                       (seen['extra'] is None and seen['more'] == () and seen['kw'] == {})))
            meta = wrapped.__name__ == 'model_misid' and wrapped.__doc__ == 'doc%d' % trial and g.pop_ids == base.pop_ids
            return bool(ok and fw and meta and numpy.array_equal(numpy.ma.getmaskarray(g), wmask)), dict(rel=e, forwarded=bool(fw), meta=bool(meta),
                                                                                                         seen_params=seen.get('par'))
        d.check(('wrapper', trial), run, dict(params=params, p=p, ns=list(ns), container=kind, extra_args=usekw), fail_key='misid-wrapper')
    return d.results()


# ----------------------------------------------------------------------------------------------- operators
BIN = ['add', 'sub', 'mul', 'truediv', 'floordiv', 'pow']
SYM = dict(add='+', sub='-', mul='*', truediv='/', floordiv='//', pow='**')


def _apply(op, a, b):
    import operator
    return getattr(operator, op)(a, b)


def _iapply(op, a, b):
    import operator
    return getattr(operator, 'i' + op)(a, b)


def drv_ops(tier, shard, nshard):
    import numpy, dadi, operator
    nshape = 24 if tier == 'quick' else 300
    d = Driver('C09', 'ops.%d' % shard,
               bound='shard %d/%d of %d sampled shapes (1-5 dims, sample sizes 1..5) x {unfolded, folded} x independent random masks on both '
                     'operands x operators {+,-,*,/,//,**}: Spectrum op Spectrum, Spectrum op X and X op Spectrum (reflected) for X in '
                     '{python float, python int, numpy.float64, ndarray, masked_array}; in-place {+=,-=,*=,/=,//=,**=} with the same X; '
                     'unary {-,+,abs}. Contract: result is a Spectrum, data = the numpy operator on raw data on unmasked entries (rel %g), '
                     'mask = OR of operand masks, folded flag = operand flag, labels kept (taken from the other operand when self has '
                     'none), extrap_x kept when equal, in-place returns the same object; folded op unfolded raises ValueError for every '
                     'binary, reflected and in-place operator in both orders and leaves the left operand untouched' % (shard, nshard, nshape, RT))
    r = d.nprng()
    xr = random.Random(seed() * 31 + 3)
    shapes = [tuple(xr.randint(1, 5) for _ in range(xr.choice([1, 2, 2, 3, 3, 4, 5]))) for _ in range(nshape)]
    for si, ns in enumerate(shapes):
        if si % nshard != shard:
            continue
        shape = tuple(n + 1 for n in ns)
        ids = ['p%d' % i for i in range(len(ns))]
        t, T = o_tot(shape)
        out = 2 * t > T
        for folded in (False, True):
            xa, xb = r.uniform(0.5, 3.0, size=shape), r.uniform(0.5, 3.0, size=shape)
            ma_, mb_ = r.uniform(size=shape) < 0.2, r.uniform(size=shape) < 0.2
            if folded:
                xa, ma_, _ = o_fold(xa, ma_)
                xb, mb_, _ = o_fold(xb, mb_)
                xa = numpy.where(out, 1.0, xa)       # keep raw data finite/non-zero under the mask for / and //
                xb = numpy.where(out, 1.0, xb)

            def mk(x, m, pid=ids, ex=0.25):
                return dadi.Spectrum(x, mask=m, mask_corners=False, data_folded=folded, check_folding=False, pop_ids=pid, extrap_x=ex)
            others = {
                'Spectrum': lambda: (mk(xb, mb_), xb, mb_),
                'Spectrum_nolabel': lambda: (mk(xb, mb_, pid=None), xb, mb_),
                'float': lambda: (1.75, 1.75, None),
                'int': lambda: (2, 2, None),
                'np.float64': lambda: (numpy.float64(1.5), 1.5, None),
                'ndarray': lambda: (xb.copy(), xb, None),
                'masked_array': lambda: (numpy.ma.masked_array(xb.copy(), mask=mb_.copy()), xb, mb_),
            }
            for op in BIN:
                npop = getattr(operator, op)
                for oname, make in others.items():
                    for refl in (False, True):
                        if oname.startswith('Spectrum') and refl:
                            continue
                        info = dict(ns=list(ns), folded=folded, op=SYM[op], other=oname, reflected=refl)

                        def run():
                            a = mk(xa, ma_)
                            o, oraw, omask = make()
                            res_ = _apply(op, o, a) if refl else _apply(op, a, o)
                            want = npop(oraw, xa) if refl else npop(xa, oraw)
                            wmask = ma_ | omask if omask is not None else ma_
                            res = {}
                            res['type'] = isinstance(res_, dadi.Spectrum)
                            ok, e = close(numpy.ma.getdata(res_), want, wmask, RT)
                            res['rel'] = e
                            res['value'] = ok
                            res['mask_or'] = bool(numpy.array_equal(numpy.ma.getmaskarray(res_), wmask))
                            res['folded_kept'] = bool(getattr(res_, 'folded', None) is folded)
                            res['labels_kept'] = bool(getattr(res_, 'pop_ids', None) == ids)
                            res['extrap_x_kept'] = bool(getattr(res_, 'extrap_x', None) == 0.25) if oname != 'Spectrum_nolabel' else True
                            res['operands_untouched'] = bool(numpy.array_equal(a.data, xa) and numpy.array_equal(numpy.ma.getmaskarray(a), ma_)
                                                             and a.folded is folded and a.pop_ids == ids)
                            bad = [k for k, v in res.items() if v is False]
                            res['failed_clauses'] = bad
                            return not bad, res
                        d.check((ns, folded, op, oname, refl), run, info, fail_key='operator-binary')
                    # label inheritance: self has no labels, other has
                    if oname == 'Spectrum':
                        def run_lbl():
                            a = mk(xa, ma_, pid=None)
                            o, _, _ = make()
                            res_ = _apply(op, a, o)
                            return bool(res_.pop_ids == ids and res_.folded is folded), dict(got=res_.pop_ids)
                        d.check((ns, folded, op, 'inherit-labels'), run_lbl, dict(ns=list(ns), folded=folded, op=SYM[op]), fail_key='operator-label-inherit')
                    # in-place
                    info = dict(ns=list(ns), folded=folded, op=SYM[op] + '=', other=oname)

                    def run_i():
                        a = mk(xa, ma_)
                        o, oraw, omask = make()
                        res_ = _iapply(op, a, o)
                        want = npop(xa, oraw)
                        wmask = ma_ | omask if omask is not None else ma_
                        res = {}
                        res['same_object'] = res_ is a
                        ok, e = close(numpy.ma.getdata(a), want, wmask, RT)
                        res['rel'] = e
                        res['value'] = ok
                        res['mask_or'] = bool(numpy.array_equal(numpy.ma.getmaskarray(a), wmask))
                        res['folded_kept'] = bool(a.folded is folded)
                        res['labels_kept'] = bool(a.pop_ids == ids)
                        if isinstance(o, numpy.ndarray):
                            res['other_untouched'] = bool(numpy.array_equal(numpy.ma.getdata(o), xb))
                        bad = [k for k, v in res.items() if v is False]
                        res['failed_clauses'] = bad
                        return not bad, res
                    d.check((ns, folded, 'i' + op, oname), run_i, info, fail_key='operator-inplace')
            # unary
            for uname, ufn in (('neg', operator.neg), ('pos', operator.pos), ('abs', operator.abs)):
                def run_u():
                    a = mk(-xa if uname == 'abs' else xa, ma_)
                    res_ = ufn(a)
                    want = ufn(-xa if uname == 'abs' else xa)
                    ok, e = close(numpy.ma.getdata(res_), want, ma_, 0.0)
                    good = (ok and isinstance(res_, dadi.Spectrum) and numpy.array_equal(numpy.ma.getmaskarray(res_), ma_) and res_.folded is folded
                            and res_.pop_ids == ids)
                    return bool(good), dict(type=type(res_).__name__, folded=getattr(res_, 'folded', None), pop_ids=getattr(res_, 'pop_ids', None))
                d.check((ns, folded, uname), run_u, dict(ns=list(ns), folded=folded, op=uname), fail_key='operator-unary')
        # mixing folded and unfolded is refused
        xa, xb = r.uniform(0.5, 3.0, size=shape), r.uniform(0.5, 3.0, size=shape)
        fd, fm, _ = o_fold(xb, numpy.zeros(shape, bool))
        for op in BIN:
            for order in ('unfolded op folded', 'folded op unfolded'):
                for inplace in (False, True):
                    def run_r():
                        u = dadi.Spectrum(xa, pop_ids=ids)
                        f = dadi.Spectrum(fd, mask=fm, mask_corners=False, data_folded=True, pop_ids=ids)
                        left, right = (u, f) if order.startswith('unfolded') else (f, u)
                        l0, lm0 = numpy.array(left.data), numpy.ma.getmaskarray(left).copy()
                        try:
                            res_ = (_iapply if inplace else _apply)(op, left, right)
                            return False, dict(returned=type(res_).__name__, folded=getattr(res_, 'folded', None))
                        except ValueError:
                            same = numpy.array_equal(left.data, l0) and numpy.array_equal(numpy.ma.getmaskarray(left), lm0)
                            return bool(same), dict(left_untouched=bool(same))
                    d.check((ns, op, order, inplace), run_r, dict(ns=list(ns), op=SYM[op] + ('=' if inplace else ''), order=order),
                            fail_key='operator-mixed-folding-not-refused')
    return d.results()


# ------------------------------------------------------------------------------------- slicing, likelihood
def drv_slice_ll(tier):
    import numpy, dadi
    from dadi import Inference
    ncase = 60 if tier == 'quick' else 1200
    d = Driver('C09', 'slice_ll',
               bound='%d sampled shapes (1-4 dims, sample sizes 1..6, both parities): (a) basic slices / integer / ellipsis / boolean-free '
                     'fancy indexing of folded and unfolded spectra: every array-valued result keeps folded flag and labels object and its '
                     'data/mask are the same index applied to data/mask; (b) Inference.ll, ll_multinom, optimal_sfs_scaling of an UNFOLDED '
                     'model against FOLDED Poisson data (extra random masks on the data) == direct masked Poisson sum over the explicitly '
                     'folded model (math.lgamma; rel 1e-10), equals the value with the model folded beforehand, model/data flags, masks and '
                     'labels unchanged afterwards; folded model vs unfolded data raises ValueError' % ncase)
    r = d.nprng()
    for ci in range(ncase):
        nd = d.rng.choice([1, 2, 2, 3, 3, 4])
        ns = tuple(d.rng.randint(1, 6) for _ in range(nd))
        shape = tuple(n + 1 for n in ns)
        ids = ['p%d' % i for i in range(nd)]
        x = r.uniform(0.5, 5.0, size=shape)
        mk = r.uniform(size=shape) < 0.15
        fs_u = dadi.Spectrum(x, mask=mk, mask_corners=False, pop_ids=ids)
        fd, fm, _ = o_fold(x, mk)
        fs_f = dadi.Spectrum(fd, mask=fm, mask_corners=False, data_folded=True, pop_ids=ids)
        for fsx, tag, raw, rawm in ((fs_u, False, x, mk), (fs_f, True, fd, fm)):
            idxs = [tuple(slice(d.rng.randint(0, s - 1), None) for s in shape),
                    (slice(None, None, -1),) * nd, (Ellipsis, slice(0, 1)), (slice(None, None, 2),)]
            if nd > 1:
                idxs += [(d.rng.randrange(shape[0]),), (Ellipsis, d.rng.randrange(shape[-1])), (slice(None), [0, shape[1] - 1])]
            for ix in idxs:
                ix_ = ix[0] if len(ix) == 1 else ix

                def run():
                    g = fsx[ix_]
                    ok = (isinstance(g, dadi.Spectrum) and g.folded is tag and g.pop_ids == ids
                          and numpy.array_equal(numpy.ma.getmaskarray(g), rawm[ix_]) and numpy.array_equal(g.data, raw[ix_]))
                    return bool(ok), dict(type=type(g).__name__, folded=getattr(g, 'folded', None), pop_ids=getattr(g, 'pop_ids', None))
                d.check((ci, tag, repr(ix)), run, dict(ns=list(ns), folded=tag, index=repr(ix)), fail_key='slicing-attributes')
        # likelihood against folded data
        model = dadi.Spectrum(r.uniform(0.5, 5.0, size=shape), pop_ids=ids)
        counts = r.poisson(3.0, size=shape).astype(float)
        dmask = r.uniform(size=shape) < 0.1
        dd, dm, _ = o_fold(counts, dmask)
        data = dadi.Spectrum(dd, mask=dm, mask_corners=False, data_folded=True, pop_ids=ids)
        md0, mm0 = numpy.array(model.data), numpy.ma.getmaskarray(model).copy()
        wd, wm, _ = o_fold(md0, mm0)
        sel = ~(wm | dm)
        if not sel.any() or float(dd[sel].sum()) <= 0.0:
            # no jointly unmasked entry, or no data there (optimal scaling 0: multinomial likelihood undefined) - degenerate
            d.case((ci, 'll'), True, dict(ns=list(ns)), nontrivial=False)
            continue

        def poisson(scale):
            return sum(-scale * m + k * math.log(scale * m) - math.lgamma(k + 1) for m, k in zip(wd[sel].tolist(), dd[sel].tolist()))

        def run_ll():
            res = {}
            got = float(Inference.ll(model, data))
            want = poisson(1.0)
            res['ll'] = bool(abs(got - want) <= 1e-10 * max(1.0, abs(want)))
            res['ll_got_want'] = [got, want]
            theta = float(dd[sel].sum() / wd[sel].sum())
            gs = float(Inference.optimal_sfs_scaling(model, data))
            res['scaling'] = bool(abs(gs - theta) <= 1e-12 * theta)
            gmn = float(Inference.ll_multinom(model, data))
            wmn = poisson(theta)
            res['ll_multinom'] = bool(abs(gmn - wmn) <= 1e-10 * max(1.0, abs(wmn)))
            res['prefolded_equal'] = bool(abs(float(Inference.ll(model.fold(), data)) - got) <= 1e-10 * max(1.0, abs(got)))
            res['flags_kept'] = bool(model.folded is False and data.folded is True and model.pop_ids == ids and data.pop_ids == ids
                                     and numpy.array_equal(model.data, md0) and numpy.array_equal(numpy.ma.getmaskarray(model), mm0)
                                     and numpy.array_equal(numpy.ma.getmaskarray(data), dm) and numpy.array_equal(data.data, dd))
            per = Inference.ll_per_bin(model, data)
            res['per_bin_folded'] = bool(getattr(per, 'folded', None) is True and numpy.array_equal(numpy.ma.getmaskarray(per), wm | dm))
            try:
                Inference.ll(model.fold(), dadi.Spectrum(counts, pop_ids=ids))
                res['folded_model_unfolded_data_refused'] = False
            except ValueError:
                res['folded_model_unfolded_data_refused'] = True
            bad = [k for k, v in res.items() if v is False]
            res['failed_clauses'] = bad
            return not bad, res
        d.check((ci, 'll'), run_ll, dict(ns=list(ns), seed_case=ci), fail_key='likelihood-autofold')
    return d.results()
