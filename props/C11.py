"""C11 - Likelihoods are Poisson/multinomial over jointly unmasked entries, optimal theta

Contracts: the obligations listed in tasks() (contracts/py_wiring.py, contracts/py_memo.py, contracts/c_*.py) are generated from the real source on every run and
discharged by z3 / the ring normaliser; clauses outside their reach are run-time contracts over stated bounded domains (props/bounded_C11.py).
"""
from vf.helpers import bounded_tasks

META = dict(
    level='other',
    explanation='Wiring / closed-form / memo-key contracts generated from the real source and discharged by z3 and the ring normaliser for the functions within reach (see coverage.obligations); the remaining clauses are run-time contracts over the bounded domain stated per driver (bounded stand-in, never counted as proved).',
    trusted_base=['oracles of props/bounded_C11.py (independent of dadi: exact rationals, mpmath, dense linear algebra, explicit index loops)'],
    rule='cases enumerated or sampled as stated in each driver\'s bound; a case is non-trivial unless the driver marks it degenerate; distinct by its key',
)


def tasks(tier):
    from vf.core import Task
    return [Task('props.wire:run', name='C11/wire.c11_ll_per_bin', fname='c11_ll_per_bin', timeout=300), Task('props.wire:run', name='C11/wire.c11_ll_wiring', fname='c11_ll_wiring', timeout=300), Task('props.wire:run', name='C11/wire.c11_residuals', fname='c11_residuals', timeout=300), Task('props.wire:run', name='C11/wire.anscombe', fname='c11_anscombe', timeout=300), Task('props.wire:run', name='C11/lemma.optimal_scaling.n2', fname='c11_optimal_scaling_lemma', kwargs=dict(n=2), timeout=300), Task('props.wire:run', name='C11/lemma.optimal_scaling.n3', fname='c11_optimal_scaling_lemma', kwargs=dict(n=3), timeout=300)] + bounded_tasks('C11', tier)


MANIFEST_ENTRY = dict(
    category='other',
    engine='bounded',
    technique='sidecar contracts on the real functions: wiring / closed-form obligations from the AST discharged by z3 and the ring normaliser where the functions are within reach; bounded run-time contracts with independent oracles for the rest (never counted as proved)',
    text='Discharged from the real source on every run (all values, stated small shapes): ll_per_bin formula and auto-fold on all paths, ll, ll_multinom, optimal_sfs_scaling, optimally_scaled_sfs, linear and Anscombe residuals (formula, sign, mask rule for every cut-off incl. 0); lemma: the optimal scaling maximises the Poisson likelihood (log axioms listed). Bounded run-time contracts (never counted as proved): Poisson / multinomial likelihoods, optimal scaling, auto-folding and residuals against 40-digit mpmath sums over jointly unmasked entries.',
    note='bounded: see coverage.bounded.drivers[].bound in the evidence file for the exact domain of every driver',
)
