"""E4 bounded driver for C20 (history / hash-seed / memory-layout independence, no in-place modification,
fresh results from the integrators).

A table of public API calls, each with a deterministic argument builder made from plain numpy (so that the only
dadi code exercised by a table entry is the function under test), is evaluated
  (a) with every argument hashed (bytes, mask, attributes, list contents) before and after the call,
  (b) with numpy.shares_memory(result, input) for the integrators (also T == initial_t),
  (c) inside random interleavings of 2-40 calls, against the same call evaluated alone in a forked copy of a freshly
      started interpreter (state = just after `import dadi`), under several PYTHONHASHSEED values,
  (d) with C-, Fortran-ordered, axis-permuted, sliced and negatively strided versions of every array argument
      (each variant in its own forked process, because a kernel handed a view can write outside the buffer).
The reference of (c) and the comparison of canonical byte strings are independent of dadi."""
import os, sys, pickle, hashlib, traceback, tempfile, subprocess, shutil, zlib
from vf.core import Task
from vf.bounded import Driver as _Driver

HASHSEEDS_QUICK = ['0', '1', '12345', '4294967295']


def Driver(pid, name, bound):
    # vf.bounded seeds d.rng with hash(name), which changes with PYTHONHASHSEED; reseed from VERIF_SEED and a stable digest
    from vf import common
    d = _Driver(pid, name, bound)
    d.rng.seed(common.seed() * 7919 + zlib.crc32(name.encode()))
    return d


def tasks(tier):
    nh = 4 if tier == 'quick' else 32
    T = lambda fn, nm, **kw: Task('props.bounded_C20:' + fn, name='C20/bounded/' + nm, tier=tier, timeout=1500, **kw)
    out = [T('drv_frame', 'frame'), T('drv_godambe_cache', 'godambe_cache')]
    out += [T('drv_layout', 'layout%d' % c, chunk=c, nchunks=4) for c in range(4)]
    out += [T('drv_history', 'history%d' % i, index=i, nworkers=nh) for i in range(nh)]
    return out


# ================================================================================ canonical forms / digests
def _upd(h, o):
    import numpy
    if isinstance(o, numpy.ma.MaskedArray):
        h.update(b'ma' + str(o.dtype).encode() + str(o.shape).encode())
        h.update(numpy.ascontiguousarray(o.data).tobytes())
        h.update(numpy.ascontiguousarray(numpy.ma.getmaskarray(o)).tobytes())
        for a in ('folded', 'pop_ids', 'extrap_x'):
            h.update(repr(getattr(o, a, None)).encode())
    elif isinstance(o, numpy.ndarray):
        h.update(b'nd' + str(o.dtype).encode() + str(o.shape).encode())
        h.update(numpy.ascontiguousarray(o).tobytes() if o.dtype != object else repr(o.tolist()).encode())
    elif isinstance(o, (list, tuple)):
        h.update(type(o).__name__.encode() + str(len(o)).encode())
        for v in o:
            _upd(h, v)
    elif isinstance(o, dict):
        h.update(b'dict' + str(len(o)).encode())
        for k in sorted(o, key=repr):
            h.update(repr(k).encode())
            _upd(h, o[k])
    elif callable(o):
        h.update(b'callable')
    else:
        h.update(type(o).__name__.encode() + repr(o).encode())


def digest(o):
    h = hashlib.sha256()
    _upd(h, o)
    return h.hexdigest()


def canon(o):
    """Picklable, layout-independent, bit-exact description of a result."""
    import numpy
    if isinstance(o, numpy.ma.MaskedArray):
        m = numpy.ascontiguousarray(numpy.ma.getmaskarray(o))
        dat = numpy.array(o.data, copy=True, order='C')
        if dat.dtype.kind in 'fiub':
            dat[m] = 0
        return ('ma', type(o).__name__, str(dat.dtype), tuple(dat.shape), dat.tobytes(), m.tobytes(),
                repr(getattr(o, 'folded', None)), repr(getattr(o, 'pop_ids', None)), repr(getattr(o, 'extrap_x', None)))
    if isinstance(o, numpy.ndarray):
        if o.dtype == object:
            return ('seq', 'ndarray-object', tuple(canon(v) for v in o.tolist()))
        return ('nd', str(o.dtype), tuple(o.shape), numpy.ascontiguousarray(o).tobytes())
    if isinstance(o, (numpy.floating, float)):
        return ('f', float(o).hex())
    if isinstance(o, (bool, numpy.bool_)):
        return ('b', bool(o))
    if isinstance(o, (int, numpy.integer)):
        return ('i', int(o))
    if isinstance(o, (list, tuple)):
        return ('seq', type(o).__name__, tuple(canon(v) for v in o))
    if isinstance(o, dict):
        return ('dict', tuple((repr(k), canon(o[k])) for k in sorted(o, key=repr)))
    if o is None or isinstance(o, str):
        return ('lit', repr(o))
    return ('repr', type(o).__name__)


def _flat(c, out):
    import numpy
    if c[0] == 'ma':
        out.append(numpy.frombuffer(c[4], dtype=c[2]).astype(float) if numpy.dtype(c[2]).kind in 'fiub' else None)
    elif c[0] == 'nd':
        out.append(numpy.frombuffer(c[3], dtype=c[1]).astype(float) if numpy.dtype(c[1]).kind in 'fiub' else None)
    elif c[0] == 'f':
        out.append(numpy.array([float.fromhex(c[1])]))
    elif c[0] == 'seq':
        for v in c[2]:
            _flat(v, out)
    elif c[0] == 'dict':
        for k, v in c[1]:
            _flat(v, out)


def _skeleton(c):
    if c[0] == 'ma':
        return c[:4] + c[5:]
    if c[0] == 'nd':
        return c[:3]
    if c[0] == 'f':
        return ('f',)
    if c[0] == 'seq':
        return ('seq', c[1], tuple(_skeleton(v) for v in c[2]))
    if c[0] == 'dict':
        return ('dict', tuple((k, _skeleton(v)) for k, v in c[1]))
    return c


def compare(c1, c2, rtol=0.0):
    """-> (equal?, max abs difference or None).  rtol=0: bit-identical; else same structure/masks and values within
    rtol*max|reference| (absolute) + rtol (relative)."""
    import numpy
    if c1 == c2:
        return True, 0.0
    if _skeleton(c1) != _skeleton(c2):
        return False, None
    a, b = [], []
    _flat(c1, a)
    _flat(c2, b)
    worst = 0.0
    ok = True
    for x, y in zip(a, b):
        if x is None or y is None or x.shape != y.shape:
            return False, None
        nx, ny = numpy.isnan(x), numpy.isnan(y)
        if not numpy.array_equal(nx, ny):
            return False, float('nan')
        x, y = x[~nx], y[~ny]
        if not x.size:
            continue
        with numpy.errstate(all='ignore'):
            dd = numpy.abs(x - y)
            dd[x == y] = 0
        scale = float(numpy.max(numpy.abs(x[numpy.isfinite(x)]))) if numpy.any(numpy.isfinite(x)) else 1.0
        worst = max(worst, float(numpy.max(dd)))
        if not numpy.all(dd <= rtol * scale + rtol * numpy.abs(x)):
            ok = False
    return (ok and rtol > 0), worst


# ================================================================================ forking helper
def in_fork(fn, quiet=False):
    """Run fn() in a forked child; -> ('ok', value) | ('exc', text) | ('crash', wait status)."""
    sys.stdout.flush()
    sys.stderr.flush()
    r, w = os.pipe()
    pid = os.fork()
    if pid == 0:
        try:
            os.close(r)
            try:
                import signal
                signal.alarm(0)
                if quiet:
                    os.dup2(os.open(os.devnull, os.O_WRONLY), 2)
                out = ('ok', fn())
            except BaseException:
                out = ('exc', traceback.format_exc()[-1500:])
            with os.fdopen(w, 'wb') as f:
                pickle.dump(out, f)
        finally:
            os._exit(0)
    os.close(w)
    with os.fdopen(r, 'rb') as f:
        data = f.read()
    _, status = os.waitpid(pid, 0)
    if status != 0 or not data:
        return ('crash', status)
    try:
        return pickle.loads(data)
    except Exception:
        return ('crash', 'unreadable result')


# ================================================================================ deterministic inputs (plain numpy)
def grid(pts):
    import numpy
    return 0.5 * (1 - numpy.cos(numpy.pi * numpy.linspace(0, 1, pts)))


def mkphi(ndim, pts, seed):
    import numpy
    rs = numpy.random.RandomState(seed)
    xx = grid(pts)
    phi = numpy.ones([pts] * ndim)
    for ax in range(ndim):
        sh = [1] * ndim
        sh[ax] = pts
        phi = phi * ((1.1 - xx) / (xx + 0.05 * (ax + 1))).reshape(sh)
    return numpy.ascontiguousarray(phi * rs.uniform(0.9, 1.1, size=phi.shape))


def mkfs(shape, seed, counts=False, pop_ids=True):
    import numpy, dadi
    rs = numpy.random.RandomState(seed)
    data = rs.poisson(6.0, size=shape).astype(float) + (0.0 if counts else rs.uniform(0.1, 1.0, size=shape))
    return dadi.Spectrum(data, pop_ids=['p%d' % i for i in range(len(shape))] if pop_ids else None)


def model_A(params, ns, pts):
    import numpy, dadi
    nu, T = params
    idx = numpy.indices([n + 1 for n in ns]).sum(axis=0).astype(float)
    p = float(pts[0] if hasattr(pts, '__len__') else pts)
    arr = nu / numpy.maximum(idx, 1.0) + T * numpy.exp(-idx / (1.0 + nu)) + 0.01 / p
    fs = dadi.Spectrum(arr)
    fs.extrap_x = 1.0 / p
    return fs


def model_B(params, ns, pts):
    import numpy, dadi
    nu, T = params
    idx = numpy.indices([n + 1 for n in ns]).sum(axis=0).astype(float)
    p = float(pts[0] if hasattr(pts, '__len__') else pts)
    arr = T / numpy.maximum(idx, 1.0) ** 1.5 + nu * numpy.exp(-idx / (2.0 + T)) + 0.02 / p
    fs = dadi.Spectrum(arr)
    fs.extrap_x = 1.0 / p
    return fs


def quad_func(p, H, g):
    import numpy
    p = numpy.asarray(p, dtype=float)
    return float(1.5 + g.dot(p) + 0.5 * p.dot(H).dot(p))


def cov_arr():
    import numpy
    p = numpy.array([0.15, 0.3, 0.25, 0.15, 0.1, 0.05])
    return numpy.array([numpy.arange(6.0), p])


def cov_arr2():
    import numpy
    return numpy.array([numpy.arange(4.0), [0.4, 0.3, 0.2, 0.1]])


def lp_model(params, ns, pts):
    import numpy, dadi
    idx = numpy.indices([n + 1 for n in ns]).sum(axis=0).astype(float)
    return dadi.Spectrum(params[0] / numpy.maximum(idx, 1.0))


def demes_graph():
    import demes
    b = demes.Builder(time_units='generations')
    b.add_deme('anc', epochs=[dict(start_size=1000, end_time=200)])
    b.add_deme('A', ancestors=['anc'], epochs=[dict(start_size=500)])
    b.add_deme('B', ancestors=['anc'], epochs=[dict(start_size=2000)])
    b.add_migration(demes=['A', 'B'], rate=1e-4)
    return b.resolve()


class Call:
    def __init__(self, group, fn, args, kw=None, vary=(), fresh=(), seed=None):
        self.group, self.fn, self.args, self.kw = group, fn, list(args), dict(kw or {})
        self.vary = list(vary)      # [(path, label)] path = tuple of indices/keys into args (or ('kw', key, ...))
        self.fresh = list(fresh)    # positional indices the result must not share memory with
        self.seed = seed            # numpy.random.seed before the call (functions that draw random numbers)

    def get(self, path):
        o = self.kw if path[0] == 'kw' else self.args
        for k in (path[1:] if path[0] == 'kw' else path):
            o = o[k]
        return o

    def put(self, path, val):
        o = self.kw if path[0] == 'kw' else self.args
        p = path[1:] if path[0] == 'kw' else path
        for k in p[:-1]:
            o = o[k]
        o[p[-1]] = val

    def run(self):
        import numpy, warnings
        if self.seed is not None:
            numpy.random.seed(self.seed)
        with warnings.catch_warnings():
            warnings.simplefilter('ignore')
            return self.fn(*self.args, **self.kw)


def _stats(fs):
    return (fs.S(), fs.pi(), fs.Watterson_theta(), fs.Tajima_D(), fs.theta_L(), fs.Zengs_E())


def _foldunfold(fs):
    return fs.fold().unfold()


def _arith(fs, other):
    return fs * 2.0 + other / 3.0 - fs


def table():
    """name -> zero-argument builder returning a fresh Call (fresh argument objects every time)."""
    import numpy, dadi
    from dadi import Integration as I, PhiManip as PM, Numerics as N, Inference as Inf, Godambe as G, Misc
    from dadi.LowPass import LowPass as LP
    S = dadi.Spectrum
    t = {}
    P, X = ((0,), 'phi'), ((1,), 'xx')
    # ---- spectrum manipulation
    t['sp_project_1d'] = lambda: Call('Spectrum.project', lambda fs: fs.project([4]), [mkfs((9,), 1)], vary=[((0,), 'fs')])
    t['sp_project_2d'] = lambda: Call('Spectrum.project', lambda fs: fs.project([3, 4]), [mkfs((6, 8), 2)], vary=[((0,), 'fs')])
    t['sp_marginalize'] = lambda: Call('Spectrum.marginalize', lambda fs: fs.marginalize([1]), [mkfs((4, 5, 6), 3)], vary=[((0,), 'fs')])
    t['sp_fold_2d'] = lambda: Call('Spectrum.fold', lambda fs: fs.fold(), [mkfs((6, 8), 4)], vary=[((0,), 'fs')])
    t['sp_fold_unfold'] = lambda: Call('Spectrum.unfold', _foldunfold, [mkfs((9,), 5)], vary=[((0,), 'fs')])
    t['sp_stats_1d'] = lambda: Call('Spectrum.stats', _stats, [mkfs((11,), 6)], vary=[((0,), 'fs')])
    t['sp_Fst'] = lambda: Call('Spectrum.Fst', lambda fs: fs.Fst(), [mkfs((6, 8), 7)], vary=[((0,), 'fs')])
    t['sp_S_3d'] = lambda: Call('Spectrum.S', lambda fs: fs.S(), [mkfs((4, 5, 6), 8)], vary=[((0,), 'fs')])
    t['sp_filter_pops'] = lambda: Call('Spectrum.filter_pops', lambda fs: fs.filter_pops([1, 3]), [mkfs((4, 5, 6), 9)], vary=[((0,), 'fs')])
    t['sp_reorder_pops'] = lambda: Call('Spectrum.reorder_pops', lambda fs: fs.reorder_pops([3, 1, 2]), [mkfs((4, 5, 6), 10)], vary=[((0,), 'fs')])
    t['sp_combine_pops'] = lambda: Call('Spectrum.combine_pops', lambda fs: fs.combine_pops([1, 3]), [mkfs((4, 3, 5), 11)], vary=[((0,), 'fs')])
    t['sp_log'] = lambda: Call('Spectrum.log', lambda fs: fs.log(), [mkfs((6, 8), 12)], vary=[((0,), 'fs')])
    t['sp_arith'] = lambda: Call('Spectrum.arith', _arith, [mkfs((6, 8), 13), mkfs((6, 8), 14)], vary=[((0,), 'fs'), ((1,), 'fs')])
    t['sp_sample'] = lambda: Call('Spectrum.sample', lambda fs: fs.sample(), [mkfs((6, 8), 15)], vary=[((0,), 'fs')], seed=11)
    t['sp_fixed_size_sample'] = lambda: Call('Spectrum.fixed_size_sample', lambda fs: fs.fixed_size_sample(60), [mkfs((9,), 16)], vary=[((0,), 'fs')], seed=12)
    t['sp_scramble'] = lambda: Call('Spectrum.scramble_pop_ids', lambda fs: fs.scramble_pop_ids(), [mkfs((5, 5), 17)], vary=[((0,), 'fs')])
    # ---- sampling from phi
    for nd, pts, ns in [(1, 16, [6]), (2, 12, [4, 5]), (3, 9, [3, 2, 4]), (4, 7, [2, 2, 3, 2]), (5, 6, [2, 2, 2, 2, 2])]:
        t['from_phi_%dd' % nd] = (lambda nd=nd, pts=pts, ns=ns: Call('Spectrum.from_phi', S.from_phi, [mkphi(nd, pts, 20 + nd), list(ns), [grid(pts) for _ in range(nd)]],
                                  vary=[((0,), 'phi'), ((2, 0), 'xx')]))
    t['from_phi_2d_direct'] = lambda: Call('Spectrum.from_phi', S.from_phi, [mkphi(2, 12, 26), [4, 5], [grid(12), grid(12)]], dict(force_direct=True),
                                           vary=[((0,), 'phi'), ((2, 1), 'xx')])
    t['from_phi_2d_admix'] = lambda: Call('Spectrum.from_phi', S.from_phi, [mkphi(2, 12, 27), [4, 5], [grid(12), grid(12)]],
                                          dict(admix_props=[[0.8, 0.2], [0.0, 1.0]]), vary=[((0,), 'phi')])
    t['from_phi_inbreeding_1d'] = lambda: Call('Spectrum.from_phi_inbreeding', S.from_phi_inbreeding, [mkphi(1, 16, 28), [6], [grid(16)], [0.3], [2]],
                                               vary=[((0,), 'phi'), ((2, 0), 'xx')])
    t['from_phi_inbreeding_2d'] = lambda: Call('Spectrum.from_phi_inbreeding', S.from_phi_inbreeding, [mkphi(2, 10, 29), [4, 4], [grid(10), grid(10)], [0.2, 0.5], [2, 2]],
                                               vary=[((0,), 'phi')])
    # ---- integrators
    t['one_pop'] = lambda: Call('one_pop', I.one_pop, [mkphi(1, 16, 30), grid(16), 0.1], dict(nu=2.0, gamma=-1.0, h=0.3), vary=[P, X], fresh=[0])
    t['one_pop_func'] = lambda: Call('one_pop', I.one_pop, [mkphi(1, 16, 31), grid(16), 0.1], dict(nu=lambda tt: 1.0 + 3 * tt, theta0=1.5), vary=[P, X], fresh=[0])
    t['one_pop_T0'] = lambda: Call('one_pop', I.one_pop, [mkphi(1, 16, 32), grid(16), 0.0], vary=[P], fresh=[0])
    t['two_pops'] = lambda: Call('two_pops', I.two_pops, [mkphi(2, 12, 33), grid(12), 0.08], dict(nu1=0.5, nu2=3.0, m12=1.0, m21=0.3, gamma1=0.5, gamma2=-0.5),
                                 vary=[P, X], fresh=[0])
    t['two_pops_frozen'] = lambda: Call('two_pops', I.two_pops, [mkphi(2, 12, 34), grid(12), 0.05], dict(nu1=lambda tt: 1 + tt, nu2=2.0, frozen2=True), vary=[P, X], fresh=[0])
    t['two_pops_T0'] = lambda: Call('two_pops', I.two_pops, [mkphi(2, 12, 35), grid(12), 0.0], vary=[P], fresh=[0])
    t['three_pops'] = lambda: Call('three_pops', I.three_pops, [mkphi(3, 9, 36), grid(9), 0.05], dict(nu1=0.7, nu2=2.0, nu3=1.3, m12=0.5, m23=0.2, m31=1.0, gamma2=1.0),
                                   vary=[P, X], fresh=[0])
    t['three_pops_func'] = lambda: Call('three_pops', I.three_pops, [mkphi(3, 9, 51), grid(9), 0.04], dict(nu1=lambda tt: 1 + 2 * tt, nu2=2.0, m13=0.4, frozen3=False), vary=[P, X], fresh=[0])
    t['three_pops_T0'] = lambda: Call('three_pops', I.three_pops, [mkphi(3, 9, 37), grid(9), 0.0], vary=[P], fresh=[0])
    t['four_pops'] = lambda: Call('four_pops', I.four_pops, [mkphi(4, 7, 38), grid(7), 0.04], dict(nu1=0.7, nu2=2.0, nu3=1.3, nu4=0.9, m12=0.5, m34=0.2, m41=1.0, gamma3=1.0),
                                  vary=[P, X], fresh=[0])
    t['four_pops_T0'] = lambda: Call('four_pops', I.four_pops, [mkphi(4, 7, 39), grid(7), 0.0], vary=[P], fresh=[0])
    t['five_pops'] = lambda: Call('five_pops', I.five_pops, [mkphi(5, 6, 40), grid(6), 0.03], dict(nu1=0.7, nu2=2.0, nu3=1.3, nu4=0.9, nu5=1.1, m12=0.5, m45=0.2, m51=1.0, gamma3=1.0),
                                  vary=[P, X], fresh=[0])
    t['five_pops_T0'] = lambda: Call('five_pops', I.five_pops, [mkphi(5, 6, 41), grid(6), 0.0], vary=[P], fresh=[0])
    # ---- PhiManip (functions not documented as in-place)
    t['phi_1D'] = lambda: Call('phi_1D', PM.phi_1D, [grid(16)], dict(nu=2.0, gamma=1.5, h=0.2, theta0=1.2), vary=[((0,), 'xx')])
    t['phi_1D_snm'] = lambda: Call('phi_1D', PM.phi_1D, [grid(16)], vary=[((0,), 'xx')])
    t['phi_1D_to_2D'] = lambda: Call('phi_1D_to_2D', PM.phi_1D_to_2D, [grid(12), mkphi(1, 12, 42)], vary=[((0,), 'xx'), ((1,), 'phi')])
    t['phi_2D_to_3D_split_1'] = lambda: Call('phi_2D_to_3D_split_1', PM.phi_2D_to_3D_split_1, [grid(9), mkphi(2, 9, 43)], vary=[((0,), 'xx'), ((1,), 'phi')])
    t['phi_2D_to_3D_split_2'] = lambda: Call('phi_2D_to_3D_split_2', PM.phi_2D_to_3D_split_2, [grid(9), mkphi(2, 9, 44)], vary=[((0,), 'xx'), ((1,), 'phi')])
    t['phi_2D_to_3D_admix'] = lambda: Call('phi_2D_to_3D_admix', PM.phi_2D_to_3D_admix, [mkphi(2, 9, 45), 0.3, grid(9), grid(9), grid(9)], vary=[((0,), 'phi'), ((2,), 'xx')])
    t['phi_3D_to_4D'] = lambda: Call('phi_3D_to_4D', PM.phi_3D_to_4D, [mkphi(3, 7, 46), 0.3, 0.2, grid(7), grid(7), grid(7), grid(7)], vary=[((0,), 'phi'), ((4,), 'xx')])
    t['phi_4D_to_5D'] = lambda: Call('phi_4D_to_5D', PM.phi_4D_to_5D, [mkphi(4, 6, 47), 0.3, 0.2, 0.1, grid(6), grid(6), grid(6), grid(6), grid(6)], vary=[((0,), 'phi'), ((5,), 'xx')])
    t['phi_remove_pop'] = lambda: Call('PhiManip.remove_pop', PM.remove_pop, [mkphi(3, 9, 48), grid(9), 2], vary=[P, X])
    t['phi_filter_pops'] = lambda: Call('PhiManip.filter_pops', PM.filter_pops, [mkphi(3, 9, 49), grid(9), [1, 3]], vary=[P, X])
    t['phi_reorder_pops'] = lambda: Call('PhiManip.reorder_pops', PM.reorder_pops, [mkphi(3, 9, 50), [2, 3, 1]], vary=[P])
    # ---- inbreeding and low-pass helpers
    t['betabinom_conv'] = lambda: Call('BetaBinomConvolution', N.BetaBinomConvolution, [3, 4, 1.7, 2.9])
    t['lp_partitions'] = lambda: Call('LowPass.partitions_and_probabilities', LP.partitions_and_probabilities, [8, 'genotype', 0.2])
    t['lp_partitions_F0'] = lambda: Call('LowPass.partitions_and_probabilities', LP.partitions_and_probabilities, [8, 'allele_frequency', 0, 4])
    t['lp_projection_matrix'] = lambda: Call('LowPass.projection_matrix', LP.projection_matrix, [8, 4, 0.3])
    t['lp_calling_error'] = lambda: Call('LowPass.calling_error_matrix', LP.calling_error_matrix, [cov_arr(), 6, 0.1], vary=[((0,), 'cov')])
    t['lp_nocall'] = lambda: Call('LowPass.probability_of_no_call', LP.probability_of_no_call_1D_GATK_multisample, [cov_arr(), 6, 0], vary=[((0,), 'cov')])
    t['lp_enough'] = lambda: Call('LowPass.probability_enough', LP.probability_enough_individuals_covered, [cov_arr(), 8, 4], vary=[((0,), 'cov')])
    t['lp_func'] = lambda: Call('LowPass.make_low_pass_func', lambda cd, nseq, nsub, Fx: LP.make_low_pass_func_GATK_multisample(lp_model, cd, ['a', 'b'], nseq, nsub, 1, Fx)(
                                [2.0], nsub, [8]), [{'a': cov_arr(), 'b': cov_arr2()},
                                                   [6, 4], [4, 2], [0.0, 0.2]])
    # ---- likelihoods
    md = lambda s1, s2, shape=(6, 8): [mkfs(shape, s1), mkfs(shape, s2, counts=True)]
    MV = [((0,), 'model'), ((1,), 'data')]
    t['ll'] = lambda: Call('Inference.ll', Inf.ll, md(60, 61), vary=MV)
    t['ll_multinom'] = lambda: Call('Inference.ll_multinom', Inf.ll_multinom, md(62, 63), vary=MV)
    t['ll_per_bin'] = lambda: Call('Inference.ll_per_bin', Inf.ll_per_bin, md(64, 65, (4, 5, 6)), vary=MV)
    t['ll_multinom_per_bin'] = lambda: Call('Inference.ll_multinom_per_bin', Inf.ll_multinom_per_bin, md(66, 67), vary=MV)
    t['ll_folded_data'] = lambda: Call('Inference.ll', lambda m, dd: Inf.ll(m, dd), [mkfs((6, 8), 68), mkfs((6, 8), 69, counts=True).fold()], vary=MV)
    t['optimal_sfs_scaling'] = lambda: Call('Inference.optimal_sfs_scaling', Inf.optimal_sfs_scaling, md(70, 71), vary=MV)
    t['optimally_scaled_sfs'] = lambda: Call('Inference.optimally_scaled_sfs', Inf.optimally_scaled_sfs, md(72, 73), vary=MV)
    t['linear_Poisson_residual'] = lambda: Call('Inference.linear_Poisson_residual', Inf.linear_Poisson_residual, md(74, 75), vary=MV)
    t['Anscombe_Poisson_residual'] = lambda: Call('Inference.Anscombe_Poisson_residual', Inf.Anscombe_Poisson_residual, md(76, 77), vary=MV)
    # ---- Godambe helpers
    H = numpy.array([[2.0, 0.3, -0.1], [0.3, 1.5, 0.2], [-0.1, 0.2, 3.0]])
    g = numpy.array([0.5, -1.0, 0.25])
    t['godambe_get_hess'] = lambda: Call('Godambe.get_hess', G.get_hess, [quad_func, [1.0, 0.0, 2e-5], 0.01], dict(args=[H.copy(), g.copy()]))
    t['godambe_get_grad'] = lambda: Call('Godambe.get_grad', G.get_grad, [quad_func, numpy.array([1.0, 0.0, 2e-5]), 0.01], dict(args=[H.copy(), g.copy()]), vary=[((1,), 'p0')])
    t['godambe_hessian_elem'] = lambda: Call('Godambe.hessian_elem', G.hessian_elem, [quad_func, quad_func([1.0, 0.5, 2.0], H, g), [1.0, 0.5, 2.0], 0, 2, [0.01, 0.01, 0.02]],
                                             dict(args=[H.copy(), g.copy()]))

    def gdata(seed, model=model_A):
        rs = numpy.random.RandomState(seed)
        m = model([1.5, 0.7], [10], [10])
        return dadi.Spectrum(rs.poisson(200 * numpy.asarray(m.data)).astype(float))
    t['godambe_FIM_A'] = lambda: Call('Godambe.FIM_uncert', G.FIM_uncert, [model_A, [10], [1.5, 0.7], gdata(80)], dict(multinom=True), vary=[((3,), 'data')])
    t['godambe_FIM_B'] = lambda: Call('Godambe.FIM_uncert', G.FIM_uncert, [model_B, [10], [1.5, 0.7], gdata(81, model_B)], dict(multinom=False, log=True), vary=[((3,), 'data')])
    t['godambe_GIM_A'] = lambda: Call('Godambe.GIM_uncert', G.GIM_uncert, [model_A, [10], [gdata(90 + i) for i in range(8)], [1.5, 0.7], gdata(80)], dict(multinom=True))
    t['godambe_LRT_adjust'] = lambda: Call('Godambe.LRT_adjust', G.LRT_adjust, [model_A, [10], [gdata(100 + i) for i in range(8)], [1.5, 0.7], gdata(80), [1]], dict(multinom=True))
    t['godambe_sum_chi2_ppf'] = lambda: Call('Godambe.sum_chi2_ppf', G.sum_chi2_ppf, [1.7], dict(weights=(0.5, 0.5)))
    # ---- Numerics helpers
    t['num_trapz'] = lambda: Call('Numerics.trapz', N.trapz, [mkphi(3, 9, 110), grid(9)], dict(axis=1), vary=[((0,), 'yy'), ((1,), 'xx')])
    t['num_reverse_array'] = lambda: Call('Numerics.reverse_array', N.reverse_array, [mkphi(2, 9, 111)], vary=[((0,), 'arr')])
    t['num_intersect_masks'] = lambda: Call('Numerics.intersect_masks', N.intersect_masks, [mkfs((6, 8), 112), mkfs((6, 8), 113).fold()], vary=MV)
    t['num_anc_misid'] = lambda: Call('Numerics.apply_anc_state_misid', N.apply_anc_state_misid, [mkfs((6, 8), 114), 0.07], vary=[((0,), 'fs')])
    t['num_end_point_derivs'] = lambda: Call('Numerics.end_point_first_derivs', N.end_point_first_derivs, [grid(12)], vary=[((0,), 'xx')])
    t['num_grids'] = lambda: Call('Numerics.grids', lambda: (N.default_grid(13), N.exponential_grid(9, 4.0), N.quadratic_grid(30), N.estimate_best_exp_grid_crwd([10, 20])), [])
    t['num_extrap'] = lambda: Call('Numerics.extrap', lambda ys, xs: (N.linear_extrap(ys[:2], xs[:2]), N.quadratic_extrap(ys, xs)),
                                   [[mkphi(2, 6, 115), mkphi(2, 6, 116), mkphi(2, 6, 117)], [0.1, 0.08, 0.05]], vary=[((0, 1), 'ys')])
    t['num_extrap_func'] = lambda: Call('Numerics.make_extrap_func', lambda p, ns, pts: N.make_extrap_func(model_A)(p, ns, pts), [[1.5, 0.7], [8], [10, 14, 20]])
    t['num_projection_cache'] = lambda: Call('Numerics._cached_projection', lambda: [N._cached_projection(4, 9, h) for h in range(10)], [])
    t['num_multinomln_part'] = lambda: Call('Numerics.part', lambda Nl: (N.multinomln(Nl), N.cached_part(5, 4), list(N.part(5, 4)), N.cached_part_precalc(5, 4)), [[2, 1, 1]])
    # ---- low-pass helpers whose result is consumed positionally
    def cov_dd(seed):
        rs = numpy.random.RandomState(seed)
        return {'s%d' % i: dict(coverage={'YRI': tuple(int(x) for x in rs.poisson(4, 5)), 'CEU': tuple(int(x) for x in rs.poisson(9, 3)), 'CHB': tuple(int(x) for x in rs.poisson(2, 4))})
                for i in range(6)}

    def cov_dist(dd, ids):
        from dadi.LowPass import LowPass as LP
        r = LP.compute_cov_dist(dd, ids)
        return [list(r.keys())] + [numpy.asarray(v) for v in r.values()]       # the ORDER of the entries is part of the result
    t['lowpass_cov_dist'] = lambda: Call('LowPass.compute_cov_dist', cov_dist, [cov_dd(120), ['YRI', 'CEU', 'CHB']])
    # ---- Misc
    t['perturb_params'] = lambda: Call('perturb_params', Misc.perturb_params, [[1.0, 0.5, 3.0]], dict(fold=1, lower_bound=[1e-2, None, 1e-2], upper_bound=[10.0, 10.0, None]), seed=7)
    t['perturb_params_arr'] = lambda: Call('perturb_params', Misc.perturb_params, [numpy.array([1.0, 0.5, 3.0])], dict(fold=2, lower_bound=[1e-2, 0.4, 1e-2], upper_bound=[10.0, 10.0, 10.0]),
                                           seed=8, vary=[((0,), 'params')])
    # ---- demes front end
    try:
        import demes  # noqa
        t['from_demes'] = lambda: Call('Spectrum.from_demes', S.from_demes, [demes_graph()], dict(sampled_demes=['A', 'B'], sample_sizes=[3, 3], pts=[8, 10, 12]))
    except ImportError:
        pass
    return t


def run_one(builder):
    """-> dict(res=canon | None, exc=str | None, changed=[arg descriptions], alias=bool)"""
    import numpy
    c = builder()
    before = [digest(a) for a in c.args] + [digest(c.kw[k]) for k in sorted(c.kw)]
    out = dict(res=None, exc=None, changed=[], alias=[], same_object=False, group=c.group)
    try:
        r = c.run()
        out['res'] = canon(r)
        for i in c.fresh:
            if isinstance(r, numpy.ndarray) and isinstance(c.args[i], numpy.ndarray):
                if r is c.args[i]:
                    out['same_object'] = True
                if numpy.shares_memory(r, c.args[i]):
                    out['alias'].append(i)
    except Exception as e:
        out['exc'] = '%s: %s' % (type(e).__name__, str(e)[:300])
        out['tb'] = traceback.format_exc()[-800:]
    after = [digest(a) for a in c.args] + [digest(c.kw[k]) for k in sorted(c.kw)]
    names = ['arg%d' % i for i in range(len(c.args))] + sorted(c.kw)
    out['changed'] = [n for n, b, a in zip(names, before, after) if a != b]
    return out


# ================================================================================ (a) + (b)
def drv_frame(tier):
    import numpy, dadi  # noqa
    d = Driver('C20', 'frame', bound='every entry of the call table (%s) evaluated twice in one process: sha256 of every positional/keyword argument '
               '(array bytes, mask, folded/pop_ids/extrap_x, list and dict contents recursively) identical before and after the call; for the integrators '
               '(one_pop..five_pops, constant and time-dependent parameters, frozen, T==initial_t) the result is not the input object and '
               'numpy.shares_memory(result, phi) is False; no call may raise')
    tab = table()
    d.bound = d.bound % ('%d calls' % len(tab))
    for rep in range(2):
        for name, b in tab.items():
            o = run_one(b)
            info = dict(call=name, function=o['group'], rep=rep)
            d.case(key=('unchanged', name, rep), ok=not o['changed'], info=dict(info, modified_arguments=o['changed']), fail_key='inplace-' + o['group'])
            d.case(key=('noexc', name, rep), ok=o['exc'] is None, info=dict(info, exception=o['exc'], tb=o.get('tb')), fail_key='raises-' + o['group'])
            if b().fresh:
                d.case(key=('fresh', name, rep), ok=not o['alias'] and not o['same_object'],
                       info=dict(info, result_is_input=o['same_object'], shares_memory_with_args=o['alias']), fail_key='alias-' + o['group'])
    return d.results()


# ================================================================================ (d) layouts
def _layout_ops(shape, kind, rng):
    """-> (base_shape_fn, view_fn) described as: embed(a) builds the base buffer holding the values of `a`, view(base) returns
    the strided view equal to a."""
    import numpy
    nd = len(shape)
    if kind == 'F':
        if nd < 2:
            return None
        return (lambda a: numpy.ascontiguousarray(a.transpose()), lambda b: b.transpose())
    if kind == 'perm':
        if nd < 3:
            return None
        perm = list(range(nd))
        while perm == list(range(nd)) or perm == list(range(nd))[::-1]:
            rng.shuffle(perm)
        inv = [perm.index(i) for i in range(nd)]
        return (lambda a: numpy.ascontiguousarray(a.transpose(perm)), lambda b: b.transpose(inv))
    if kind == 'sliced':
        def embed(a):
            big = numpy.zeros([2 * s + 1 for s in a.shape], dtype=a.dtype)
            big[tuple(slice(1, None, 2) for _ in a.shape)] = a
            return big
        return (embed, lambda b: b[tuple(slice(1, None, 2) for _ in range(nd))])
    if kind == 'neg':
        rev = tuple(slice(None, None, -1) for _ in range(nd))
        return (lambda a: numpy.ascontiguousarray(a[rev]), lambda b: b[rev])
    if kind == 'neg-last':
        if nd < 2:
            return None
        rev = tuple([slice(None)] * (nd - 1) + [slice(None, None, -1)])
        return (lambda a: numpy.ascontiguousarray(a[rev]), lambda b: b[rev])
    raise ValueError(kind)


LAYOUTS = ['F', 'perm', 'sliced', 'neg', 'neg-last']


def make_variant(a, kind, rng):
    """A view with different strides holding exactly the values (mask, attributes) of a; None if not applicable."""
    import numpy, dadi
    ops = _layout_ops(a.shape, kind, rng)
    if ops is None:
        return None
    embed, view = ops
    if isinstance(a, dadi.Spectrum):
        base = dadi.Spectrum(embed(numpy.asarray(a.data)), mask=embed(numpy.ma.getmaskarray(a)), mask_corners=False, data_folded=a.folded, check_folding=False)
        if base.data.strides != embed(numpy.asarray(a.data)).strides:
            return None
        v = view(base)
        v.pop_ids = list(a.pop_ids) if a.pop_ids is not None else None
        v.extrap_x = a.extrap_x
        v.folded = a.folded
    elif isinstance(a, numpy.ma.MaskedArray):
        v = numpy.ma.MaskedArray(view(embed(numpy.asarray(a.data))), mask=view(embed(numpy.ma.getmaskarray(a))), copy=False)
    else:
        v = view(embed(a))
    if digest(v) != digest(a) or type(v) is not type(a):
        return None
    da = v.data if isinstance(v, numpy.ma.MaskedArray) else v
    oa = a.data if isinstance(a, numpy.ma.MaskedArray) else a
    if da.strides == oa.strides:
        return None
    return v


def drv_layout(tier, chunk, nchunks):
    import numpy, dadi, random  # noqa
    d = Driver('C20', 'layout%d' % chunk, bound='call-table entries with array arguments (share %d/%d): every array argument (density, grid, spectrum, model, data, '
               'coverage table) replaced in turn by an equal-valued Fortran-ordered / axis-permuted / every-second-element-sliced / fully negatively strided / '
               'last-axis-reversed view (each variant evaluated in its own forked process); result bit-identical or within 1e-13 (relative to max|result|) of the '
               'C-contiguous call; the variant argument itself bit-for-bit unchanged' % (chunk + 1, nchunks))
    tab = table()
    names = [n for n in tab if zlib.crc32(tab[n]().group.encode()) % nchunks == chunk]      # by function, stable under table growth
    for name in names:
        b = tab[name]
        c0 = b()
        if not c0.vary:
            continue
        base = in_fork(lambda: run_one(b))
        if base[0] != 'ok' or base[1]['res'] is None:
            continue            # reported by the frame driver
        ref = base[1]['res']
        for path, label in c0.vary:
            for kind in LAYOUTS:
                vr = random.Random(zlib.crc32(('%s/%s/%s' % (name, label, kind)).encode()))

                def job():
                    c = b()
                    v = make_variant(c.get(path), kind, vr)
                    if v is None:
                        return None
                    c.put(path, v)
                    bd = digest(v)
                    out = dict(exc=None, res=None)
                    try:
                        out['res'] = canon(c.run())
                    except Exception as e:
                        out['exc'] = '%s: %s' % (type(e).__name__, str(e)[:300])
                    out['changed'] = digest(v) != bd
                    return out
                r = in_fork(job, quiet=True)
                if r[0] == 'ok' and r[1] is None:
                    continue
                info = dict(call=name, function=c0.group, argument=label, path=list(path), layout=kind)
                fk = 'layout-%s-%s' % (c0.group, label)
                if r[0] != 'ok':
                    d.case(key=(name, label, path, kind), ok=False, info=dict(info, child=r[0], detail=str(r[1])[:600]), fail_key=fk)
                    continue
                o = r[1]
                if o['exc'] is not None:
                    d.case(key=(name, label, path, kind), ok=False, info=dict(info, exception=o['exc']), fail_key=fk)
                    continue
                same, _ = compare(ref, o['res'])
                close, worst = (True, 0.0) if same else compare(ref, o['res'], rtol=1e-13)
                d.case(key=(name, label, path, kind), ok=bool(same or close), info=dict(info, bit_identical=same, max_abs_diff=worst), fail_key=fk)
                d.case(key=('unchanged', name, label, path, kind), ok=not o['changed'], info=info, fail_key='inplace-' + c0.group)
    return d.results()


# ================================================================================ (c) histories and hash seeds
def _child_main():
    """Entry point of the freshly started interpreter: argv = job file, output file."""
    with open(sys.argv[1], 'rb') as f:
        job = pickle.load(f)
    import dadi  # noqa  (fresh import; nothing else has been computed)
    tab = table()
    out = dict(hashseed=os.environ.get('PYTHONHASHSEED'), dadi_file=dadi.__file__, refs={}, seqs=[])
    for name in job['refs']:
        out['refs'][name] = in_fork(lambda: run_one(tab[name]))
    for seq in job['seqs']:
        out['seqs'].append(in_fork(lambda: [run_one(tab[name]) for name in seq]))
    with open(sys.argv[2], 'wb') as f:
        pickle.dump(out, f)


def _spawn(job, hashseed, tmp, tag):
    import dadi
    ov = os.environ.get('DADI_OVERLAY') or os.path.dirname(os.path.dirname(os.path.abspath(dadi.__file__)))
    here = os.path.dirname(os.path.dirname(os.path.abspath(__file__)))
    jf, of = os.path.join(tmp, 'job_%s.pkl' % tag), os.path.join(tmp, 'out_%s.pkl' % tag)
    with open(jf, 'wb') as f:
        pickle.dump(job, f)
    env = dict(os.environ)
    env.update(PYTHONPATH=ov + os.pathsep + here, PYTHONHASHSEED=str(hashseed), PYTHONDONTWRITEBYTECODE='1', DADI_OVERLAY=ov)
    p = subprocess.run([sys.executable, '-c', 'import props.bounded_C20 as m; m._child_main()', jf, of], env=env, cwd=here,
                       capture_output=True, text=True, timeout=1200)
    if p.returncode != 0 or not os.path.exists(of):
        raise RuntimeError('fresh interpreter failed (rc=%s): %s' % (p.returncode, (p.stderr or '')[-1500:]))
    with open(of, 'rb') as f:
        return pickle.load(f)


def drv_history(tier, index, nworkers):
    import dadi  # noqa
    nseq_total = 40 if tier == 'quick' else 1000
    d = Driver('C20', 'history%d' % index, bound='worker %d/%d: its share of %d random interleavings of 2-40 calls (with repetition) from the call table, each interleaving run '
               'in a forked copy of a fresh interpreter started with its own PYTHONHASHSEED; every in-sequence result bit-identical to the same call evaluated alone '
               '(forked copy of a fresh interpreter, state = just after import dadi), same exception if any, arguments unchanged; the alone-results bit-identical '
               'between PYTHONHASHSEED=0 and this seed' % (index + 1, nworkers, nseq_total))
    tab = table()
    names = list(tab)
    if tier == 'quick':
        hs = HASHSEEDS_QUICK[index % len(HASHSEEDS_QUICK)]
    else:
        hs = str(d.rng.randrange(1, 2 ** 32)) if index >= len(HASHSEEDS_QUICK) else HASHSEEDS_QUICK[index]
    import random
    myseqs = []
    for s in range(nseq_total):
        r = random.Random('%s/%d' % (os.environ.get('VERIF_SEED', '20261003'), s))
        seq = [r.choice(names) for _ in range(r.randint(2, 40))]
        if s % nworkers == index:
            myseqs.append((s, seq))
    tmp = tempfile.mkdtemp(prefix='c20_')
    try:
        base = _spawn(dict(refs=names, seqs=[]), '0', tmp, 'base') if hs != '0' else None
        mine = _spawn(dict(refs=names, seqs=[q for _, q in myseqs]), hs, tmp, 'mine')
    finally:
        shutil.rmtree(tmp, ignore_errors=True)
    d.case(key=('overlay', hs), ok='dadi_overlay' in mine['dadi_file'] and mine['hashseed'] == hs, info=dict(dadi_file=mine['dadi_file'], hashseed=mine['hashseed']),
           fail_key='fresh-interpreter-setup', nontrivial=False)

    def summ(o):
        return dict(exc=o.get('exc'), changed=o.get('changed'))
    refs = {}
    for name in names:
        r = mine['refs'][name]
        grp = tab[name]().group
        if r[0] != 'ok':
            d.case(key=('ref', name, hs), ok=False, info=dict(call=name, hashseed=hs, child=r[0], detail=str(r[1])[:500]), fail_key='alone-crash-' + grp)
            continue
        refs[name] = r[1]
        if base is not None and base['refs'][name][0] == 'ok':
            o0 = base['refs'][name][1]
            same = (o0['res'] == r[1]['res']) and (o0['exc'] == r[1]['exc'])
            _, worst = compare(o0['res'], r[1]['res']) if (o0['res'] is not None and r[1]['res'] is not None) else (None, None)
            d.case(key=('hashseed', name, hs), ok=same, info=dict(call=name, function=grp, hashseeds=['0', hs], max_abs_diff=worst, exc=[o0['exc'], r[1]['exc']]),
                   fail_key='hashseed-' + grp)
    for (sidx, seq), res in zip(myseqs, mine['seqs']):
        if res[0] != 'ok':
            d.case(key=('seq', sidx), ok=False, info=dict(sequence_index=sidx, sequence=seq, hashseed=hs, child=res[0], detail=str(res[1])[:500]), fail_key='history-sequence-crash')
            continue
        for pos, (name, o) in enumerate(zip(seq, res[1])):
            if name not in refs:
                continue
            ref = refs[name]
            same = (o['res'] == ref['res']) and (o['exc'] == ref['exc'])
            worst = None
            if not same and o['res'] is not None and ref['res'] is not None:
                _, worst = compare(ref['res'], o['res'])
            d.case(key=('hist', sidx, pos, name), ok=same, info=dict(call=name, function=o['group'], sequence_index=sidx, position=pos, history=seq[:pos], hashseed=hs,
                   max_abs_diff=worst, alone=summ(ref), in_sequence=summ(o)), fail_key='history-' + o['group'])
    return d.results()


# ================================================================================ directed: Godambe.cache key
def drv_godambe_cache(tier):
    """Godambe.get_godambe memoises model spectra under (func_ex.__hash__(), params, ns, pts).  The default hash of a function is its address, so two
    *different* model functions whose lifetimes do not overlap can share a key: the second computation then silently uses the first model's spectra."""
    import gc
    import numpy, dadi
    from dadi import Godambe as G
    ntry = 20 if tier == 'quick' else 200
    d = Driver('C20', 'godambe_cache', bound='%d trials: Godambe.get_godambe(just_hess) / FIM_uncert(multinom=False) for a transient wrapper of model A, wrapper dropped, then for a '
               'transient wrapper of model B with the same p0/ns/pts (wrappers created until one reuses the freed address, <=300 attempts); result for B must '
               'equal B evaluated first in a forked process (bit-identical)' % ntry)
    rs = numpy.random.RandomState(5)
    data = dadi.Spectrum(rs.poisson(200 * numpy.asarray(model_B([1.5, 0.7], [10], [10]).data)).astype(float))

    def wrap(model):
        def func_ex(p, ns, pts):
            return 200.0 * model(p, ns, pts)
        return func_ex
    for trial in range(ntry):
        p0 = [1.5 + 0.01 * trial, 0.7]
        alone = in_fork(lambda: canon(G.FIM_uncert(wrap(model_B), [10], p0, data, multinom=False)))
        fa = wrap(model_A)
        ha = fa.__hash__()
        G.FIM_uncert(fa, [10], p0, data, multinom=False)
        del fa
        gc.collect()
        keep, fb = [], None
        for _ in range(300):
            f = wrap(model_B)
            if f.__hash__() == ha:
                fb = f
                break
            keep.append(f)
        collided = fb is not None
        if fb is None:
            fb = wrap(model_B)
        got = canon(G.FIM_uncert(fb, [10], p0, data, multinom=False))
        del keep
        ok = alone[0] == 'ok' and got == alone[1]
        _, worst = compare(alone[1], got) if alone[0] == 'ok' else (None, None)
        d.case(key=('godambe-cache', trial), ok=ok, nontrivial=collided,
               info=dict(trial=trial, p0=p0, address_reused=collided, max_abs_diff=worst, note='second model evaluated after an unrelated model whose function object was freed'),
               fail_key='history-Godambe.cache-key')
    return d.results()
