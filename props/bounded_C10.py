"""E4 bounded driver for C10: population bookkeeping on spectra == explicit index arithmetic, keeps labels.

Oracles: explicit re-indexing of every entry with integer index arrays (numpy.indices + numpy.add.at / fancy assignment),
exact integer binomials for the scramble weights; none of dadi's marginalize / transpose / combine / _lncomb code is used
to build an expected value.  Comparison of values is on entries unmasked in the result; inputs carry either no mask or the
constructor-default masked corners (the "corners are unobservable" convention, DESIGN.md C10 note): combine_two_pops and
Misc.combine_pops accumulate into a corner-masked Spectrum, marginalize skips masked corners in its sums.
"""
import itertools
import random
from math import comb

from vf.core import Task
from vf.bounded import Driver
from vf.common import seed

RT = 1e-13
RT_SCR = 2e-12     # scramble weights go through gammaln/exp


def tasks(tier):
    T = []
    for s in range(3):
        T.append(Task('props.bounded_C10:drv_marg', name='C10/bounded/marginalize_filter.%d' % s, tier=tier, shard=s, nshard=3, timeout=1200))
    for s in range(2):
        T.append(Task('props.bounded_C10:drv_reorder', name='C10/bounded/reorder.%d' % s, tier=tier, shard=s, nshard=2, timeout=1200))
    for s in range(6):
        T.append(Task('props.bounded_C10:drv_combine', name='C10/bounded/combine.%d' % s, tier=tier, shard=s, nshard=6, timeout=1200))
    for s in range(3):
        T.append(Task('props.bounded_C10:drv_scramble', name='C10/bounded/scramble.%d' % s, tier=tier, shard=s, nshard=3, timeout=1200))
    T.append(Task('props.bounded_C10:drv_combine_folded_flag', name='C10/bounded/combine_folded_flag', tier=tier, timeout=1200))
    T.append(Task('props.bounded_C10:drv_filter_mask_corners', name='C10/bounded/filter_mask_corners', tier=tier, timeout=1200))
    T.append(Task('props.bounded_C10:drv_misc', name='C10/bounded/misc_combine', tier=tier, timeout=1200))
    return T


# ------------------------------------------------------------------------------------------------ domain
def shape_list(tier, tag):
    """Shard-independent list of sample-size tuples: 2-4-D sizes 1..5 (not all equal), 5-D sizes 1..4, 6-D sizes 1..3."""
    xr = random.Random(seed() * 131 + sum(map(ord, tag)))
    n_low = 10 if tier == 'quick' else 80
    n_high = 10 if tier == 'quick' else 100
    out = [(1, 2), (5, 3), (2, 3, 4), (4, 1, 2), (1, 2, 3, 4), (5, 2, 1, 3), (3, 3, 2, 3)]
    for nd in (2, 3, 4):
        k = 0
        while k < n_low:
            ns = tuple(xr.randint(1, 5) for _ in range(nd))
            if len(set(ns)) > 1:
                out.append(ns)
                k += 1
    out += [(1, 2, 3, 4, 2), (2, 1, 3, 1, 2, 3)]
    for nd, mx in ((5, 4), (6, 3)):
        k = 0
        while k < n_high:
            ns = tuple(xr.randint(1, mx) for _ in range(nd))
            if len(set(ns)) > 1:
                out.append(ns)
                k += 1
    return out


DOMAIN = ('sample-size tuples: 7+2 fixed + %d random per dim for 2-4-D (sizes 1..5, never all equal) and %d random per dim for 5-D (1..4) / '
          '6-D (1..3); random positive data; labels present on 2 of 3 shapes; unfolded inputs with no mask and with default masked corners, '
          'folded inputs = explicit fold of the unmasked data')


def domain(tier):
    return DOMAIN % ((10, 10) if tier == 'quick' else (80, 100))


# ----------------------------------------------------------------------------------------------- oracles
def o_mirror(a):
    import numpy
    idx = numpy.indices(a.shape)
    return a[tuple((s - 1) - ix for s, ix in zip(a.shape, idx))]


def _corners(mask):
    mask = mask.copy()
    mask.flat[0] = mask.flat[-1] = True
    return mask


def o_fold(x, mask):
    import numpy
    t = numpy.indices(x.shape).sum(axis=0)
    T = sum(s - 1 for s in x.shape)
    out, amb = 2 * t > T, 2 * t == T
    s = x + o_mirror(x)
    return numpy.where(out, 0.0, numpy.where(amb, s / 2.0, s)), _corners(mask | o_mirror(mask) | out)


def o_unfold(x, mask):
    import numpy
    t = numpy.indices(x.shape).sum(axis=0)
    T = sum(s - 1 for s in x.shape)
    a = mask ^ (2 * t > T)
    return (x + o_mirror(x)) / 2.0, _corners(a | o_mirror(a))


def o_marg(x, over):
    import numpy
    idx = numpy.indices(x.shape)
    keep = [k for k in range(x.ndim) if k not in over]
    out = numpy.zeros([x.shape[k] for k in keep])
    numpy.add.at(out, tuple(idx[k] for k in keep), x)
    return out


def o_combine(x, S):
    """S: sorted 0-based axes; merged population sits at axis S[0], the others of S disappear."""
    import numpy
    x = numpy.asarray(x, dtype=float)
    idx = numpy.indices(x.shape)
    a = S[0]
    keep = [k for k in range(x.ndim) if k == a or k not in S]
    newshape = [sum(x.shape[j] - 1 for j in S) + 1 if k == a else x.shape[k] for k in keep]
    newidx = tuple(sum(idx[j] for j in S) if k == a else idx[k] for k in keep)
    out = numpy.zeros(newshape)
    numpy.add.at(out, newidx, x)
    return out


def o_reorder(x, neworder):
    import numpy
    idx = numpy.indices(x.shape)
    out = numpy.full([x.shape[o - 1] for o in neworder], numpy.nan)
    out[tuple(idx[o - 1] for o in neworder)] = x
    return out


def o_scramble(x):
    import numpy
    ns = [s - 1 for s in x.shape]
    N = sum(ns)
    D = numpy.indices(x.shape).sum(axis=0)
    pooled = numpy.bincount(D.ravel(), weights=x.ravel(), minlength=N + 1)
    out = numpy.zeros(x.shape)
    for d in numpy.ndindex(*x.shape):
        num = 1
        for n, k in zip(ns, d):
            num *= comb(n, k)
        out[d] = (num / comb(N, sum(d))) * pooled[sum(d)]
    return out


def cmp(got, want, wantmask, rtol, extra_mask=None):
    """values on entries unmasked in the result; result mask must equal wantmask (if given)."""
    import numpy
    gm = numpy.ma.getmaskarray(got)
    gd = numpy.ma.getdata(got)
    res = {}
    if tuple(gd.shape) != tuple(numpy.shape(want)):
        return False, dict(shape_got=list(gd.shape), shape_want=list(numpy.shape(want)))
    if wantmask is not None:
        res['mask_ok'] = bool(numpy.array_equal(gm, wantmask))
        if not res['mask_ok'] and gm.size <= 40:
            res['got_mask'], res['want_mask'] = gm.astype(int).tolist(), numpy.asarray(wantmask).astype(int).tolist()
    sel = ~gm
    if extra_mask is not None:
        sel &= ~extra_mask
    e = 0.0
    if sel.any():
        e = float((numpy.abs(gd[sel] - want[sel]) / (numpy.abs(want[sel]) + 1e-300)).max())
    res['rel'] = e
    res['value_ok'] = bool(e <= rtol)
    return bool(res['value_ok'] and res.get('mask_ok', True)), res


def both_unmasked_close(a, b, rtol=1e-12):
    import numpy
    if a.shape != b.shape:
        return False, dict(shapes=[list(a.shape), list(b.shape)])
    sel = ~(numpy.ma.getmaskarray(a) | numpy.ma.getmaskarray(b))
    e = 0.0
    if sel.any():
        e = float((numpy.abs(a.data[sel] - b.data[sel]) / (numpy.abs(b.data[sel]) + 1e-300)).max())
    return bool(e <= rtol), dict(rel=e, compared=int(sel.sum()))


def mkids(ns, si):
    return ['P%d' % (i + 1) for i in range(len(ns))] if si % 3 else None


def subsets(nd, rng, full_upto=4, nsample=12, minsize=0, maxsize=None):
    maxsize = nd - 1 if maxsize is None else maxsize
    alls = [c for k in range(minsize, maxsize + 1) for c in itertools.combinations(range(nd), k)]
    if nd <= full_upto:
        return alls
    return [alls[i] for i in sorted(rng.sample(range(len(alls)), min(nsample, len(alls))))]


# ------------------------------------------------------------------------------- marginalize / filter_pops
def drv_marg(tier, shard, nshard):
    import numpy, dadi
    d = Driver('C10', 'marginalize_filter.%d' % shard,
               bound='shard %d/%d; %s. ALL subsets `over` (size 0..P-1) for P<=4, %d sampled subsets for P=5,6; over passed sorted, reversed '
                     'and as tuple; filter_pops with the complementary 1-based `tokeep` in shuffled order. Oracle numpy.add.at over kept '
                     'indices: values rel %g, result mask == corners iff mask_corners, total conserved (unmasked input, mask_corners=False), '
                     'labels deleted at the summed axes, folded input -> fold(marg(unfold)) with explicit fold/unfold, extrap_x kept, '
                     'marginalize o project == project o marginalize, marginalize o fold == fold o marginalize (entries unmasked in both, '
                     '1e-12), input untouched (filter_pops(mask_corners=False) is checked in the separate task filter_mask_corners)'
                     % (shard, nshard, domain(tier), 8 if tier == 'quick' else 20, RT))
    r = d.nprng()
    for si, ns in enumerate(shape_list(tier, 'marg')):
        if si % nshard != shard:
            continue
        P = len(ns)
        shape = tuple(n + 1 for n in ns)
        ids = mkids(ns, si)
        x = r.uniform(0.1, 10.0, size=shape)
        nomask = numpy.zeros(shape, bool)
        cmask = _corners(nomask)
        fd, fm = o_fold(x, nomask)
        for over in subsets(P, d.rng, nsample=8 if tier == 'quick' else 20):
            keep = [k for k in range(P) if k not in over]
            wids = [ids[k] for k in keep] if ids is not None else None
            newshape = tuple(shape[k] for k in keep)
            info = dict(ns=list(ns), over=list(over), labels=ids)
            for variant in ('nomask/mcF', 'nomask/mcT', 'corners/mcT'):
                inmask = cmask if variant.startswith('corners') else nomask
                mc = variant.endswith('T')
                overarg = d.rng.choice([list(over), list(over)[::-1], tuple(over)])

                def run():
                    fs = dadi.Spectrum(x, mask=inmask, mask_corners=False, pop_ids=ids, extrap_x=0.5)
                    g = fs.marginalize(overarg, mask_corners=mc)
                    want = o_marg(numpy.where(inmask, 0.0, x), over)
                    wmask = _corners(numpy.zeros(newshape, bool)) if mc else numpy.zeros(newshape, bool)
                    ok, res = cmp(g, want, wmask, RT)
                    res['labels_ok'] = bool(g.pop_ids == wids)
                    res['got_labels'] = g.pop_ids
                    res['meta_ok'] = bool(g.folded is False and g.extrap_x == 0.5 and isinstance(g, dadi.Spectrum))
                    res['input_untouched'] = bool(numpy.array_equal(fs.data, x) and numpy.array_equal(numpy.ma.getmaskarray(fs), inmask) and fs.pop_ids == ids)
                    if variant == 'nomask/mcF':
                        res['total_ok'] = bool(abs(float(g.sum()) - float(x.sum())) <= 1e-12 * float(x.sum()))
                    bad = [k for k, v in res.items() if v is False]
                    res['failed_clauses'] = bad
                    return ok and not bad, res
                d.check((ns, over, variant), run, dict(info, variant=variant), fail_key='marginalize-law', nontrivial=len(over) > 0)

            # filter_pops == marginalize over the complement (1-based tokeep, any order)
            tokeep = [k + 1 for k in keep]
            d.rng.shuffle(tokeep)

            def run_f():
                fs = dadi.Spectrum(x, pop_ids=ids, extrap_x=0.5)
                g = fs.filter_pops(list(tokeep))
                want = o_marg(numpy.where(cmask, 0.0, x), over)
                ok, res = cmp(g, want, _corners(numpy.zeros(newshape, bool)), RT)
                res['labels_ok'] = bool(g.pop_ids == wids)
                res['got_labels'] = g.pop_ids
                return bool(ok and res['labels_ok'] and g.folded is False), res
            d.check((ns, over, 'filter'), run_f, dict(info, tokeep=list(tokeep)), fail_key='filter_pops-law', nontrivial=len(over) > 0)

            if not over:
                continue

            # folded input
            def run_fold():
                f = dadi.Spectrum(fd, mask=fm, mask_corners=False, data_folded=True, pop_ids=ids, extrap_x=0.5)
                g = f.marginalize(list(over))
                ud, um = o_unfold(fd, fm)
                md = o_marg(numpy.where(um, 0.0, ud), over)
                wd, wm = o_fold(md, _corners(numpy.zeros(newshape, bool)))
                ok, res = cmp(g, wd, wm, 1e-12)
                res['meta_ok'] = bool(g.folded is True and g.pop_ids == wids and g.extrap_x == 0.5)
                # commutation with fold (dadi vs dadi) on entries unmasked in both
                fs = dadi.Spectrum(x, pop_ids=ids)
                okc, rc = both_unmasked_close(fs.fold().marginalize(list(over)), fs.marginalize(list(over)).fold())
                res['commutes_with_fold'] = okc
                res['commute_detail'] = rc
                return bool(ok and res['meta_ok'] and okc), res
            d.check((ns, over, 'folded'), run_fold, info, fail_key='marginalize-folded')

            # commutation with projection
            to = [d.rng.randint(1, n) for n in ns]

            def run_proj():
                fs = dadi.Spectrum(x, pop_ids=ids)
                a = fs.project(to).marginalize(list(over))
                b = fs.marginalize(list(over)).project([to[k] for k in keep])
                okc, rc = both_unmasked_close(a, b)
                rc['labels'] = [a.pop_ids, b.pop_ids]
                want = o_marg(numpy.where(numpy.ma.getmaskarray(fs.project(to)), 0.0, fs.project(to).data), over)
                ok2, r2 = cmp(a, want, None, RT)
                return bool(okc and ok2 and a.pop_ids == b.pop_ids == wids and numpy.array_equal(numpy.ma.getmaskarray(a), numpy.ma.getmaskarray(b))), rc
            d.check((ns, over, 'project', tuple(to)), run_proj, dict(info, to=to), fail_key='marginalize-project-commute')
    return d.results()


# -------------------------------------------------------------------------------------------- reorder_pops
def drv_reorder(tier, shard, nshard):
    import numpy, dadi
    nperm = 10 if tier == 'quick' else 40
    d = Driver('C10', 'reorder.%d' % shard,
               bound='shard %d/%d; %s. ALL permutations for P<=4 (2,6,24), %d sampled for P=5,6, passed as list/tuple/numpy ints. Oracle: '
                     'out[i_(o1),...,i_(oP)] = x[i] by fancy assignment: values exact, mask permuted the same way (random 20%% masks), '
                     'labels permuted, folded flag kept and folded result == explicit fold of the reordered data, total conserved, '
                     'commutes with project and fold, input untouched; invalid orders (duplicate, 0-based, short, long, out of range) '
                     'raise ValueError' % (shard, nshard, domain(tier), nperm))
    r = d.nprng()
    for si, ns in enumerate(shape_list(tier, 'reorder')):
        if si % nshard != shard:
            continue
        P = len(ns)
        shape = tuple(n + 1 for n in ns)
        ids = mkids(ns, si)
        x = r.uniform(0.1, 10.0, size=shape)
        mk = _corners(r.uniform(size=shape) < 0.2)
        perms = list(itertools.permutations(range(1, P + 1)))
        if P > 4:
            perms = [perms[i] for i in sorted(d.rng.sample(range(len(perms)), nperm))]
        fd, fm = o_fold(x, numpy.zeros(shape, bool))
        for perm in perms:
            arg = d.rng.choice([list(perm), tuple(perm), [numpy.int64(p) for p in perm]])
            wids = [ids[o - 1] for o in perm] if ids is not None else None
            info = dict(ns=list(ns), neworder=list(perm), labels=ids)

            def run():
                fs = dadi.Spectrum(x, mask=mk, mask_corners=False, pop_ids=ids, extrap_x=0.5)
                g = fs.reorder_pops(arg)
                want = o_reorder(x, perm)
                wmask = o_reorder(mk.astype(float), perm) > 0.5
                ok, res = cmp(g, want, wmask, 0.0)
                res['labels_ok'] = bool(g.pop_ids == wids)
                res['got_labels'] = g.pop_ids
                res['meta_ok'] = bool(g.folded is False and g.extrap_x == 0.5 and isinstance(g, dadi.Spectrum)
                                      and tuple(g.sample_sizes) == tuple(ns[o - 1] for o in perm))
                res['total_ok'] = bool(abs(float(g.sum()) - float(x[~mk].sum())) <= 1e-12 * float(x[~mk].sum())) if (~mk).any() else True
                res['input_untouched'] = bool(numpy.array_equal(fs.data, x) and numpy.array_equal(numpy.ma.getmaskarray(fs), mk) and fs.pop_ids == ids
                                              and fs.shape == shape)
                bad = [k for k, v in res.items() if v is False]
                res['failed_clauses'] = bad
                return ok and not bad, res
            d.check((ns, perm), run, info, fail_key='reorder-law', nontrivial=perm != tuple(range(1, P + 1)))

            def run_fold():
                f = dadi.Spectrum(fd, mask=fm, mask_corners=False, data_folded=True, pop_ids=ids)
                g = f.reorder_pops(list(perm))
                wd, wm = o_fold(o_reorder(x, perm), numpy.zeros([shape[o - 1] for o in perm], bool))
                ok, res = cmp(g, wd, wm, 1e-14)
                fs = dadi.Spectrum(x, pop_ids=ids)
                okc, rc = both_unmasked_close(fs.reorder_pops(list(perm)).fold(), g, 1e-14)
                res['meta_ok'] = bool(g.folded is True and g.pop_ids == wids)
                res['commutes_with_fold'] = okc
                return bool(ok and okc and res['meta_ok']), res
            d.check((ns, perm, 'folded'), run_fold, info, fail_key='reorder-folded')

            to = [d.rng.randint(1, n) for n in ns]

            def run_proj():
                fs = dadi.Spectrum(x, pop_ids=ids)
                a = fs.project(to).reorder_pops(list(perm))
                b = fs.reorder_pops(list(perm)).project([to[o - 1] for o in perm])
                okc, rc = both_unmasked_close(a, b)
                return bool(okc and a.pop_ids == b.pop_ids == wids and numpy.array_equal(numpy.ma.getmaskarray(a), numpy.ma.getmaskarray(b))), rc
            d.check((ns, perm, 'project', tuple(to)), run_proj, dict(info, to=to), fail_key='reorder-project-commute')
        # invalid orders
        base = list(range(1, P + 1))
        bads = [base[:-1], base + [P + 1], base + [1], [b - 1 for b in base], [1] * P if P > 1 else [2], base[:-1] + [P + 1]]
        for bad in bads:
            fs = dadi.Spectrum(x, pop_ids=ids)
            try:
                g = fs.reorder_pops(bad)
                ok, why = False, 'returned shape %s' % (g.shape,)
            except ValueError:
                ok, why = True, ''
            except Exception as e:
                ok, why = False, 'raised %r instead of ValueError' % (e,)
            d.case((ns, 'bad', tuple(bad)), ok, dict(ns=list(ns), neworder=bad, why=why), fail_key='reorder-invalid-not-refused')
    return d.results()


# ---------------------------------------------------------------- combine_two_pops / combine_pops
def drv_combine(tier, shard, nshard):
    import numpy, dadi
    nsub = 6 if tier == 'quick' else 16
    d = Driver('C10', 'combine.%d' % shard,
               bound='shard %d/%d; %s. combine_two_pops: ALL ordered pairs [a,b] and [b,a] (1-based) for P<=4, %d sampled for P=5,6; '
                     'combine_pops: ALL subsets of size 2..P for P<=4 (%d sampled for P=5,6) in shuffled order. Oracle numpy.add.at with merged '
                     'index = sum of the merged indices at the smallest axis: values on result-unmasked entries rel %g, result mask == '
                     'corners | OR of contributing masks (inputs: no mask, default corners, random 15%% masks), sample sizes, labels '
                     '"A+B(+C)" at the merged slot and the rest in order, total of unmasked-contributor entries conserved, extrap_x kept, '
                     'input untouched; folded input: values/mask == explicit fold(combine(x)) (the folded *flag* is checked in the separate task combine_folded_flag); commutes '
                     'with projection of the untouched axes' % (shard, nshard, domain(tier), nsub, nsub, RT))
    r = d.nprng()
    for si, ns in enumerate(shape_list(tier, 'combine')):
        if si % nshard != shard:
            continue
        P = len(ns)
        shape = tuple(n + 1 for n in ns)
        ids = mkids(ns, si)
        x = r.uniform(0.1, 10.0, size=shape)
        nomask = numpy.zeros(shape, bool)
        masks = {'nomask': nomask, 'corners': _corners(nomask), 'random': r.uniform(size=shape) < 0.15}
        fd, fm = o_fold(x, nomask)
        pairs = [(a, b) for a in range(1, P + 1) for b in range(1, P + 1) if a != b]
        if P > 4:
            pairs = [pairs[i] for i in sorted(d.rng.sample(range(len(pairs)), nsub))]
        sets_ = [c for k in range(2, P + 1) for c in itertools.combinations(range(1, P + 1), k)]
        if P > 4:
            sets_ = [sets_[i] for i in sorted(d.rng.sample(range(len(sets_)), nsub))]
        jobs = [('two', list(p)) for p in pairs]
        for c in sets_:
            c = list(c)
            d.rng.shuffle(c)
            jobs.append(('many', c))
        for kind, arg in jobs:
            S = sorted(a - 1 for a in arg)
            keep = [k for k in range(P) if k == S[0] or k not in S]
            wns = tuple(sum(ns[j] for j in S) if k == S[0] else ns[k] for k in keep)
            wids = None
            if ids is not None:
                wids = ['+'.join(ids[j] for j in S) if k == S[0] else ids[k] for k in keep]
            call = (lambda fs: fs.combine_two_pops(list(arg))) if kind == 'two' else (lambda fs: fs.combine_pops(list(arg)))
            info = dict(ns=list(ns), tocombine=list(arg), method='combine_two_pops' if kind == 'two' else 'combine_pops', labels=ids)
            for mname, mk in masks.items():
                def run():
                    fs = dadi.Spectrum(x, mask=mk, mask_corners=False, pop_ids=list(ids) if ids else None, extrap_x=0.5)
                    g = call(fs)
                    want = o_combine(x, S)
                    wmask = _corners(o_combine(mk.astype(float), S) > 0.5)
                    ok, res = cmp(g, want, wmask, RT)
                    res['sizes_ok'] = bool(tuple(int(n) for n in g.sample_sizes) == wns)
                    res['labels_ok'] = bool(g.pop_ids == wids)
                    res['got_labels'], res['want_labels'] = g.pop_ids, wids
                    res['meta_ok'] = bool(isinstance(g, dadi.Spectrum) and g.extrap_x == 0.5 and g.folded is False)
                    if ok and (~wmask).any():
                        wt = float(want[~wmask].sum())
                        res['total_ok'] = bool(abs(float(g.sum()) - wt) <= 1e-12 * wt)
                    res['input_untouched'] = bool(numpy.array_equal(fs.data, x) and numpy.array_equal(numpy.ma.getmaskarray(fs), mk) and fs.pop_ids == ids)
                    bad = [k for k, v in res.items() if v is False]
                    res['failed_clauses'] = bad
                    return ok and not bad, res
                d.check((ns, kind, tuple(arg), mname), run, dict(info, mask=mname), fail_key='combine-law')

            def run_folded():
                f = dadi.Spectrum(fd, mask=fm, mask_corners=False, data_folded=True, pop_ids=list(ids) if ids else None)
                g = call(f)
                wd, wm = o_fold(o_combine(x, S), numpy.zeros([n + 1 for n in wns], bool))
                ok, res = cmp(g, wd, wm, 1e-12)
                res['labels_ok'] = bool(g.pop_ids == wids)
                # path: fold(combine(x)) computed by dadi
                fs = dadi.Spectrum(x, pop_ids=list(ids) if ids else None)
                h = call(fs).fold()
                sel = ~(numpy.ma.getmaskarray(h) | numpy.ma.getmaskarray(g))
                res['commutes_with_fold_values'] = bool(numpy.allclose(h.data[sel], g.data[sel], rtol=1e-12, atol=0))
                return bool(ok and res['labels_ok'] and res['commutes_with_fold_values']), res
            d.check((ns, kind, tuple(arg), 'folded-values'), run_folded, info, fail_key='combine-folded-values')

            others = [k for k in range(P) if k not in S]
            if others:
                to = list(ns)
                for k in others:
                    to[k] = d.rng.randint(1, ns[k])

                def run_proj():
                    fs = dadi.Spectrum(x, pop_ids=list(ids) if ids else None)
                    a = call(fs.project(to))
                    b = call(fs).project([wns[keep.index(k)] if k == S[0] else to[k] for k in keep])
                    okc, rc = both_unmasked_close(a, b)
                    return bool(okc and a.pop_ids == b.pop_ids == wids and numpy.array_equal(numpy.ma.getmaskarray(a), numpy.ma.getmaskarray(b))), rc
                d.check((ns, kind, tuple(arg), 'project', tuple(to)), run_proj, dict(info, to=to), fail_key='combine-project-commute')
    return d.results()


def drv_combine_folded_flag(tier):
    import numpy, dadi
    d = Driver('C10', 'combine_folded_flag',
               bound='%s (P<=4 only%s). Folded input (explicit fold of the data): combine_two_pops for ALL ordered pairs and combine_pops for ALL '
                     'subsets of size 2..P must return a Spectrum whose .folded flag is still True (its values/mask are checked against '
                     'fold(combine(x)) in the combine.* tasks)' % (domain(tier), '' if tier == 'quick' else ' + every 4th 5-/6-D shape, 6 sampled sets'))
    r = d.nprng()
    for si, ns in enumerate(shape_list(tier, 'combine')):
        P = len(ns)
        if P > 4 and (tier == 'quick' or si % 4):
            continue
        shape = tuple(n + 1 for n in ns)
        ids = mkids(ns, si)
        fd, fm = o_fold(r.uniform(0.1, 10.0, size=shape), numpy.zeros(shape, bool))
        jobs = [('combine_two_pops', [a, b]) for a in range(1, P + 1) for b in range(1, P + 1) if a != b]
        jobs += [('combine_pops', list(c)) for k in range(2, P + 1) for c in itertools.combinations(range(1, P + 1), k)]
        if P > 4:
            jobs = [jobs[i] for i in sorted(d.rng.sample(range(len(jobs)), 6))]
        for meth, arg in jobs:
            def run():
                f = dadi.Spectrum(fd, mask=fm, mask_corners=False, data_folded=True, pop_ids=list(ids) if ids else None)
                g = getattr(f, meth)(list(arg))
                return bool(g.folded is True), dict(input_folded=True, result_folded=g.folded)
            d.check((ns, meth, tuple(arg)), run, dict(ns=list(ns), method=meth, tocombine=arg), fail_key='combine-folded-flag-lost')
    return d.results()


def drv_filter_mask_corners(tier):
    import numpy, dadi
    d = Driver('C10', 'filter_mask_corners',
               bound='%s. filter_pops(tokeep, mask_corners=False) for ALL subsets tokeep (size 1..P) for P<=4, 8 sampled for P=5,6, on inputs '
                     'without masked corners: the result must have unmasked corners holding the explicit sums (as marginalize(..., '
                     'mask_corners=False) does); with mask_corners=True the corners are masked' % domain(tier))
    r = d.nprng()
    for si, ns in enumerate(shape_list(tier, 'marg')):
        P = len(ns)
        shape = tuple(n + 1 for n in ns)
        x = r.uniform(0.1, 10.0, size=shape)
        for over in subsets(P, d.rng, nsample=8):
            keep = [k for k in range(P) if k not in over]
            tokeep = [k + 1 for k in keep]
            d.rng.shuffle(tokeep)

            def run_fmc():
                fs = dadi.Spectrum(x, mask_corners=False, pop_ids=mkids(ns, si))
                g = fs.filter_pops(list(tokeep), mask_corners=False)
                gm = numpy.ma.getmaskarray(g)
                want = o_marg(x, over)
                ok = (not gm.any()) and abs(float(g.data.flat[0]) - float(want.flat[0])) <= RT * want.flat[0] \
                    and abs(float(g.data.flat[-1]) - float(want.flat[-1])) <= RT * want.flat[-1]
                gt = numpy.ma.getmaskarray(fs.filter_pops(list(tokeep), mask_corners=True))
                ok = ok and bool(gt.flat[0] and gt.flat[-1])
                return bool(ok), dict(result_mask_corners=[bool(gm.flat[0]), bool(gm.flat[-1])],
                                      marginalize_same_request_corners=[bool(m) for m in numpy.ma.getmaskarray(
                                          fs.marginalize(list(over), mask_corners=False)).flat[[0, -1]]])
            d.check((ns, tuple(tokeep)), run_fmc, dict(ns=list(ns), tokeep=list(tokeep), mask_corners=False),
                    fail_key='filter_pops-mask_corners-ignored')
    return d.results()


# --------------------------------------------------------------------------------------- scramble_pop_ids
def drv_scramble(tier, shard, nshard):
    import numpy, dadi, warnings
    d = Driver('C10', 'scramble.%d' % shard,
               bound='shard %d/%d; %s. scramble_pop_ids: out[d] = prod_p C(n_p,d_p)/C(N,|d|) * sum_{|i|=|d|} x[i] with exact integer '
                     'binomials (rel %g): unmasked input with mask_corners=False (all entries, total conserved) and default corners (entries '
                     'unmasked in the result, total conserved, result mask == corners); folded input == explicit '
                     'fold(scramble(unfold)) and stays folded; idempotent; commutes with fold and with reorder_pops; input untouched'
                     % (shard, nshard, domain(tier), RT_SCR))
    r = d.nprng()
    warnings.filterwarnings('ignore')
    for si, ns in enumerate(shape_list(tier, 'scramble')):
        if si % nshard != shard:
            continue
        P = len(ns)
        shape = tuple(n + 1 for n in ns)
        ids = mkids(ns, si)
        x = r.uniform(0.1, 10.0, size=shape)
        nomask = numpy.zeros(shape, bool)
        want = o_scramble(x)
        info = dict(ns=list(ns), labels=ids, x=x.tolist() if x.size <= 12 else None)

        def run_a():
            fs = dadi.Spectrum(x, mask_corners=False, pop_ids=ids)
            g = fs.scramble_pop_ids(mask_corners=False)
            ok, res = cmp(g, want, nomask, RT_SCR)
            res['total_ok'] = bool(abs(float(g.sum()) - float(x.sum())) <= 1e-12 * float(x.sum()))
            res['meta_ok'] = bool(g.folded is False and isinstance(g, dadi.Spectrum))
            res['input_untouched'] = bool(numpy.array_equal(fs.data, x) and not numpy.ma.getmaskarray(fs).any())
            return bool(ok and res['total_ok'] and res['meta_ok'] and res['input_untouched']), res
        d.check((ns, 'nomask'), run_a, info, fail_key='scramble-law')

        def run_b():
            fs = dadi.Spectrum(x, pop_ids=ids)
            g = fs.scramble_pop_ids()
            ok, res = cmp(g, want, _corners(nomask), RT_SCR)
            cm = _corners(nomask)
            res['total_ok'] = bool(abs(float(g.sum()) - float(x[~cm].sum())) <= 1e-12 * float(x[~cm].sum())) if (~cm).any() else True
            g2 = g.scramble_pop_ids()
            oki, ri = both_unmasked_close(g2, g, 1e-11)
            res['idempotent'] = oki
            return bool(ok and res['total_ok'] and oki and g.folded is False), res
        d.check((ns, 'corners'), run_b, info, fail_key='scramble-law', nontrivial=sum(ns) > 1)

        def run_f():
            fd, fm = o_fold(x, nomask)
            f = dadi.Spectrum(fd, mask=fm, mask_corners=False, data_folded=True, pop_ids=ids)
            g = f.scramble_pop_ids()
            ud, um = o_unfold(fd, fm)
            sd = o_scramble(numpy.where(um, 0.0, ud))
            wd, wm = o_fold(sd, _corners(nomask))
            ok, res = cmp(g, wd, wm, RT_SCR)
            res['folded_flag'] = bool(g.folded is True)
            fs = dadi.Spectrum(x, pop_ids=ids)
            okc, rc = both_unmasked_close(fs.scramble_pop_ids().fold(), g, 1e-11)
            res['commutes_with_fold'] = okc
            return bool(ok and res['folded_flag'] and okc), res
        d.check((ns, 'folded'), run_f, info, fail_key='scramble-folded', nontrivial=sum(ns) > 1)

        perm = list(range(1, P + 1))
        d.rng.shuffle(perm)

        def run_r():
            fs = dadi.Spectrum(x, pop_ids=ids)
            a = fs.reorder_pops(perm).scramble_pop_ids()
            b = fs.scramble_pop_ids().reorder_pops(perm)
            okc, rc = both_unmasked_close(a, b, 1e-11)
            ok2, r2 = cmp(a, o_reorder(want, perm), None, RT_SCR)
            return bool(okc and ok2), dict(rc, neworder=perm)
        d.check((ns, 'reorder', tuple(perm)), run_r, info, fail_key='scramble-reorder-commute', nontrivial=sum(ns) > 1)
    return d.results()


# ------------------------------------------------------------------------------------- Misc.combine_pops
def drv_misc(tier):
    import numpy, dadi
    from dadi import Misc
    mx = 5 if tier == 'quick' else 7
    d = Driver('C10', 'misc_combine',
               bound='Misc.combine_pops: ALL 2-D sample sizes 1..%d x 1..%d (default idx) and ALL 3-D sample sizes 1..%d^3 x idx in '
                     '{[0,1],[0,2],[1,2]}: merged axis first, remaining axis second; values == numpy.add.at oracle (rel %g) on entries '
                     'unmasked in the result (result corners masked by construction), total of non-corner entries conserved, extrap_x '
                     'kept, input untouched; agrees with Spectrum.combine_pops (+ reorder) on entries unmasked in both'
                     % (mx, mx, 4 if tier == 'quick' else 5, RT))
    r = d.nprng()
    shapes = [(a, b) for a in range(1, mx + 1) for b in range(1, mx + 1)]
    m3 = 4 if tier == 'quick' else 5
    shapes += [(a, b, c) for a in range(1, m3 + 1) for b in range(1, m3 + 1) for c in range(1, m3 + 1)]
    for ns in shapes:
        shape = tuple(n + 1 for n in ns)
        x = r.uniform(0.1, 10.0, size=shape)
        idxs = [[0, 1]] if len(ns) == 2 else [[0, 1], [0, 2], [1, 2]]
        for idx in idxs:
            for masked_in in (False, True):
                def run():
                    fs = dadi.Spectrum(x, mask_corners=masked_in, pop_ids=['a', 'b', 'c'][:len(ns)], extrap_x=0.5)
                    g = Misc.combine_pops(fs, idx=list(idx)) if len(ns) == 3 or d.rng.random() < 0.5 else Misc.combine_pops(fs)
                    want = o_combine(x, idx)
                    if len(ns) == 3:
                        a = idx[0]
                        want = numpy.moveaxis(want, a, 0)       # merged axis first
                    wmask = _corners(numpy.zeros(want.shape, bool))
                    ok, res = cmp(g, want, wmask, RT)
                    if (~wmask).any():
                        wt = float(want[~wmask].sum())
                        res['total_ok'] = bool(abs(float(g.sum()) - wt) <= 1e-12 * wt)
                    res['meta_ok'] = bool(isinstance(g, dadi.Spectrum) and g.extrap_x == 0.5 and g.folded is False)
                    res['input_untouched'] = bool(numpy.array_equal(fs.data, x))
                    # path agreement with the newer method
                    h = fs.combine_pops([i + 1 for i in idx])
                    if len(ns) == 3 and idx[0] == 1:
                        h = h.reorder_pops([2, 1])
                    okp, rp = both_unmasked_close(g, h)
                    res['agrees_with_Spectrum_combine_pops'] = okp
                    bad = [k for k, v in res.items() if v is False]
                    res['failed_clauses'] = bad
                    return ok and not bad, res
                d.check((ns, tuple(idx), masked_in), run, dict(ns=list(ns), idx=list(idx), input_corners_masked=masked_in),
                        fail_key='misc-combine_pops-law')
    return d.results()
