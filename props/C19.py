"""C19 - uncertainty machinery (dadi/Godambe.py).

Contracts (sidecar):
  hessian_elem(func, f0, p0, ii, jj, eps, args, one_sided)
      requires eps[ii] != 0, eps[jj] != 0, f0 == func(p0)
      ensures  func(p) = c + g.p + 1/2 p'Hp  ==>  result == H[ii][jj]      (all four stencil branches)
      assigns  nothing reachable from p0, eps
  get_grad(func, p0, eps, args)
      ensures  quadratic func, all p0_i != 0 and |p0_i*eps| >= 1e-6 (central branch) ==> grad_i == g_i + (H p0)_i
               linear func (any branch incl. one-sided and p0_i == 0)            ==> grad_i == g_i
      assigns  nothing reachable from p0
  get_hess(func, p0, eps, args)
      ensures  quadratic func ==> result == H entrywise, on every step-rule path (pval==0, pval*eps<1e-6, else);
               result symmetric; hessian_elem is handed eps_i = eps (pval==0 or tiny, one-sided iff tiny) else eps*pval
  sum_chi2_ppf(x, weights)
      ensures  no unassigned local is read, for scalar and for array x; weights not summing to 1 raise ValueError
  FIM_uncert / GIM_uncert / LRT_adjust / Wald_stat / score_stat (multinom=True)
      ensures  the model handed on is p[-1]*func_multi(p[:-1], ns, pts) and p0 is extended by optimal_sfs_scaling(model, data)
  get_godambe
      ensures  hess = -get_hess(...); J, cU are means over the bootstraps of outer(grad, grad), grad; G = H J^-1 H
"""
import time, itertools
import z3
from vf.core import Task, R
from vf.helpers import prove, prove_eq, discharge, cover, struct, guarded, reals
from vf.pyvc import (Executor, Tm, VList, VDict, PyFn, PyRaise, FuncRef, Closure, vrepr, term_eq, Unsupported,
                     to_real, Fraction, exact)

FILE = 'dadi/Godambe.py'

META = dict(
    level='other',
    explanation='Stencil exactness (hessian_elem: 4 branches, get_grad: central and one-sided, get_hess: every step-rule path) is '
                'proved for all real p0, eps and all quadratic / linear functions in 2-3 parameters from the AST of the current '
                'Godambe.py; frame (p0, eps untouched), definite assignment in sum_chi2_ppf and the theta-augmentation / assembly '
                'wiring of FIM/GIM/LRT/Wald/score are decided on every path. The O(eps^2) closed forms for Poisson models, '
                'bootstrap-order independence and call sequences sharing the cache are bounded run-time checks.',
    trusted_base=['floats as reals', 'E2 executor semantics (DESIGN 4)', 'numpy.array(copy=True) copies; numpy.empty allocates fresh storage',
                  'numpy.linalg / numpy.dot / scipy.stats opaque (wiring only)'],
    assumptions=['the function differentiated is a mathematical function of the parameter vector (no hidden state)'],
)


def tasks(tier):
    ts = []
    # hessian_elem: n=2 all (ii,jj), n=3 a diagonal and an off-diagonal; one_sided None / all combos
    for n, ii, jj in [(2, 0, 0), (2, 1, 1), (2, 0, 1), (2, 1, 0), (3, 1, 1), (3, 0, 2), (3, 2, 1)]:
        combos = [None] + [c for c in itertools.product([False, True], repeat=n)]
        for os_ in combos:
            ts.append(Task('props.C19:ob_hessian_elem', name='C19/hessian_elem.%d.%d.%d.%s' % (n, ii, jj, _osname(os_)),
                           n=n, ii=ii, jj=jj, one_sided=os_, timeout=120))
    ts.append(Task('props.C19:ob_hessian_elem_canary', name='C19/hessian_elem.canary', timeout=60))
    for n in (1, 2, 3):
        ts.append(Task('props.C19:ob_get_grad', name='C19/get_grad.quadratic.%d' % n, n=n, kind='quadratic', timeout=200))
        ts.append(Task('props.C19:ob_get_grad', name='C19/get_grad.linear.%d' % n, n=n, kind='linear', timeout=200))
    for n in (1, 2):
        ts.append(Task('props.C19:ob_get_hess', name='C19/get_hess.%d' % n, n=n, timeout=400))
    ts.append(Task('props.C19:ob_get_hess_rule', name='C19/get_hess.rule', timeout=200))
    for arr in (False, True):
        ts.append(Task('props.C19:ob_sum_chi2', name='C19/sum_chi2_ppf.%s' % ('array' if arr else 'scalar'), array=arr, timeout=60))
    ts.append(Task('props.C19:ob_sum_chi2_weights', name='C19/sum_chi2_ppf.weights', timeout=60))
    for fn in ('FIM_uncert', 'GIM_uncert', 'LRT_adjust', 'Wald_stat', 'score_stat'):
        ts.append(Task('props.C19:ob_multinom_wiring', name='C19/multinom.' + fn, fname=fn, timeout=120))
    ts.append(Task('props.C19:ob_godambe_assembly', name='C19/get_godambe.assembly', timeout=120))
    ts.append(Task('props.C19:ob_godambe_func', name='C19/get_godambe.func', timeout=120))
    ts.append(Task('props.C19:ob_statistics', name='C19/statistics.formulas', timeout=120))
    from vf.helpers import bounded_tasks
    ts += bounded_tasks('C19', tier)
    return ts


def _osname(o):
    return 'none' if o is None else ''.join('T' if b else 'F' for b in o)


# ---- spec functions ---------------------------------------------------------------------------
def quad_spec(n, linear=False):
    """f(p) = c + g.p + 1/2 p'Hp with symmetric H; returns (PyFn, c, g, H)."""
    c = z3.Real('c')
    g = reals('g', n)
    H = [[None] * n for _ in range(n)]
    for i in range(n):
        for j in range(i, n):
            H[i][j] = H[j][i] = (z3.RealVal(0) if linear else z3.Real('H%d%d' % (i, j)))
    calls = []

    def f(p, *args):
        items = p.items if isinstance(p, VList) else list(p)
        calls.append(list(items))
        items = [to_real(x) for x in items]
        v = c
        for i in range(n):
            v = v + g[i] * items[i]
        for i in range(n):
            for j in range(n):
                v = v + H[i][j] * items[i] * items[j] / 2
        return v
    return PyFn(f, 'quadratic'), c, g, H, calls


def _frame_ok(path, owners):
    bad = [e for e in path.log if e[0] == 'mutate' and e[3] in owners]
    return bad


def ob_hessian_elem(n, ii, jj, one_sided):
    oid = 'C19/Godambe.py:hessian_elem/post.exact.n%d.%d%d.%s' % (n, ii, jj, _osname(one_sided))
    fn = 'dadi/Godambe.py::hessian_elem'

    @guarded(oid, fn)
    def go():
        ex = Executor()
        f = ex.func(FILE, 'hessian_elem')
        func, c, g, H, calls = quad_spec(n)
        p0s, epss = reals('p', n), reals('e', n)
        hyps = [e != 0 for e in epss]

        def thunk(ex):
            p0 = VList(p0s); p0.owner = 'p0'
            p0.attrs['dtype'] = 'any'
            eps = VList(epss, 'ndarray'); eps.owner = 'eps'
            f0 = func.fn(p0)
            del calls[:]
            kw = {}
            if one_sided is not None:
                kw['one_sided'] = VList(list(one_sided))
            r = ex.apply(f.node, None, f.mod, [func, f0, p0, ii, jj, eps], kw, 'hessian_elem')
            bad = [e for e in ex.ctx.log if e[0] == 'mutate' and e[3] in ('p0', 'eps')]
            return (r, bad, [e for e in ex.ctx.log if e[0] == 'dtype-risk'], list(calls))
        paths = ex.explore(thunk, base_pc=hyps)
        out = []
        for k, p in enumerate(paths):
            if p.outcome != 'return':
                out.append(struct('%s.path%d' % (oid, k), False, 'raises %s' % p.exc, fn))
                continue
            val, bad, risk, _ = p.value
            out.append(struct('%s.path%d.element-type' % (oid, k), not risk, 'perturbed parameter vectors are float arrays whatever the caller passed' if not risk else
                              'a perturbed value (%s) is stored into an array whose element type the caller\'s p0 decides' % vrepr(risk[0][2])[:60], fn,
                              finding_key='C19/hessian_elem/element-type'))
            out.append(prove_eq('%s.path%d' % (oid, k), p.pc, val, H[ii][jj], func=fn, timeout_ms=60000,
                                replay=lambda m, _p=p: _replay_hess_elem(n, ii, jj, one_sided, m)))
            out.append(struct('%s.path%d.frame' % (oid, k), not bad, 'assigns nothing in p0, eps; mutations seen: %r' % (bad,), fn))
        out.append(struct(oid + '.paths', len(paths) >= 1, '%d paths' % len(paths), fn))
        return out
    return go()


def _replay_hess_elem(n, ii, jj, one_sided, model):
    import numpy
    from vf.helpers import model_floats
    import dadi.Godambe as G
    names = ['c'] + ['g%d' % i for i in range(n)] + ['p%d' % i for i in range(n)] + ['e%d' % i for i in range(n)] + \
            ['H%d%d' % (i, j) for i in range(n) for j in range(i, n)]
    v = model_floats(model, names)
    if any(x is None for x in v.values()):
        return dict(replayed=False)
    H = numpy.zeros((n, n))
    for i in range(n):
        for j in range(i, n):
            H[i, j] = H[j, i] = v['H%d%d' % (i, j)]
    g = numpy.array([v['g%d' % i] for i in range(n)])
    f = lambda p: v['c'] + g.dot(p) + 0.5 * numpy.asarray(p).dot(H).dot(p)
    p0 = [v['p%d' % i] for i in range(n)]
    eps = numpy.array([v['e%d' % i] for i in range(n)])
    got = G.hessian_elem(f, f(numpy.array(p0)), p0, ii, jj, eps, one_sided=None if one_sided is None else list(one_sided))
    scale = max(1.0, abs(H[ii, jj]), abs(v['c']) / min(abs(eps)) ** 2)
    ok = abs(got - H[ii, jj]) <= 1e-6 * scale
    return dict(replayed=True, inputs=dict(p0=p0, eps=eps.tolist(), H=H.tolist(), g=g.tolist(), c=v['c']),
                native_result=float(got), expected=float(H[ii, jj]), postcondition_holds_natively=bool(ok))


def ob_hessian_elem_canary():
    oid = 'C19/Godambe.py:hessian_elem/canary'
    fn = 'dadi/Godambe.py::hessian_elem'

    @guarded(oid, fn)
    def go():
        ex = Executor()
        f = ex.func(FILE, 'hessian_elem')
        func, c, g, H, calls = quad_spec(2)
        p0s, epss = reals('p', 2), reals('e', 2)
        paths = ex.explore(lambda ex: ex.apply(f.node, None, f.mod, [func, func.fn(VList(p0s)), VList(p0s), 0, 1, VList(epss, 'ndarray')], {}, 'hessian_elem'),
                           base_pc=[e != 0 for e in epss])
        p = paths[0]
        return [prove(oid, p.pc, to_real(p.value) == 2 * H[0][1], func=fn, canary=True, timeout_ms=20000)]
    return go()


def ob_get_grad(n, kind):
    oid = 'C19/Godambe.py:get_grad/post.exact.%s.n%d' % (kind, n)
    fn = 'dadi/Godambe.py::get_grad'

    @guarded(oid, fn)
    def go():
        ex = Executor(max_paths=3000)
        f = ex.func(FILE, 'get_grad')
        func, c, g, H, calls = quad_spec(n, linear=(kind == 'linear'))
        p0s = reals('p', n)
        eps = z3.Real('eps')
        hyps = [eps > 0]
        if kind == 'quadratic':
            hyps += [p != 0 for p in p0s] + [z3.Or(p * eps >= Fraction(1, 10 ** 6), p * eps <= -Fraction(1, 10 ** 6)) for p in p0s]

        def thunk(ex):
            p0 = VList(p0s); p0.owner = 'p0'
            p0.attrs['dtype'] = 'any'          # the caller may pass integers (a list of ints, an int array): see the element-type clause below
            r = ex.apply(f.node, None, f.mod, [func, p0, eps], {}, 'get_grad')
            bad = [e for e in ex.ctx.log if e[0] == 'mutate' and e[3] == 'p0']
            risk = [e for e in ex.ctx.log if e[0] == 'dtype-risk']
            return (r, bad, risk)
        paths = ex.explore(thunk, base_pc=hyps)
        out = []
        for k, p in enumerate(paths):
            if p.outcome != 'return':
                out.append(struct('%s.path%d' % (oid, k), False, 'raises %s' % p.exc, fn))
                continue
            grad, bad, risk = p.value
            out.append(struct('%s.path%d.element-type' % (oid, k), not risk, 'perturbed parameter vectors are float arrays whatever the caller passed' if not risk else
                              'a perturbed value (%s) is stored into an array whose element type the caller\'s p0 decides: integer parameters are truncated back'
                              % vrepr(risk[0][2])[:60], fn, finding_key='C19/get_grad/element-type'))
            for i in range(n):
                gi = grad.items[i]
                gi = gi.items[0] if isinstance(gi, VList) else gi
                want = g[i]
                for j in range(n):
                    want = want + H[i][j] * p0s[j]
                out.append(prove_eq('%s.path%d.d%d' % (oid, k, i), p.pc, gi, want, func=fn, timeout_ms=60000))
            out.append(struct('%s.path%d.frame' % (oid, k), not bad, 'assigns nothing in p0; mutations seen: %r' % (bad,), fn))
        want_paths = 1 if kind == 'quadratic' else 3 ** n
        out.append(struct(oid + '.paths', len(paths) == want_paths, '%d paths explored (expected %d: zero / tiny / regular per parameter)' % (len(paths), want_paths), fn,
                          undecided=len(paths) != want_paths))
        return out
    return go()


def ob_get_hess(n):
    oid = 'C19/Godambe.py:get_hess/post.exact.n%d' % n
    fn = 'dadi/Godambe.py::get_hess'

    @guarded(oid, fn)
    def go():
        ex = Executor(policy=lambda fr: 'inline' if fr.qualname == 'hessian_elem' else 'abstract', max_paths=3000)
        f = ex.func(FILE, 'get_hess')
        func, c, g, H, calls = quad_spec(n)
        p0s = reals('p', n)
        eps = z3.Real('eps')
        hyps = [eps > 0]

        def thunk(ex):
            p0 = VList(p0s); p0.owner = 'p0'
            p0.attrs['dtype'] = 'any'
            r = ex.apply(f.node, None, f.mod, [func, p0, eps], {}, 'get_hess')
            bad = [e for e in ex.ctx.log if e[0] == 'mutate' and e[3] == 'p0']
            return (r, bad, [e for e in ex.ctx.log if e[0] == 'dtype-risk'])
        paths = ex.explore(thunk, base_pc=hyps)
        out = []
        for k, p in enumerate(paths):
            if p.outcome != 'return':
                out.append(struct('%s.path%d' % (oid, k), False, 'raises %s' % p.exc, fn))
                continue
            hess, bad, risk = p.value
            out.append(struct('%s.path%d.element-type' % (oid, k), not risk, 'perturbed parameter vectors are float arrays whatever the caller passed' if not risk else
                              'a perturbed value (%s) is stored into an array whose element type the caller\'s p0 decides' % vrepr(risk[0][2])[:60], fn,
                              finding_key='C19/get_hess/element-type'))
            for i in range(n):
                for j in range(n):
                    out.append(prove_eq('%s.path%d.%d%d' % (oid, k, i, j), p.pc, hess.items[i].items[j], H[i][j], func=fn, timeout_ms=60000))
            out.append(struct('%s.path%d.frame' % (oid, k), not bad, 'assigns nothing in p0; mutations seen: %r' % (bad,), fn))
        out.append(struct(oid + '.paths', len(paths) == 3 ** n, '%d paths explored (expected %d)' % (len(paths), 3 ** n), fn, undecided=len(paths) != 3 ** n))
        return out
    return go()


def ob_get_hess_rule():
    """Step rule handed to hessian_elem (kept abstract): eps_i and one_sided_i per parameter class."""
    oid = 'C19/Godambe.py:get_hess/step-rule'
    fn = 'dadi/Godambe.py::get_hess'

    @guarded(oid, fn)
    def go():
        ex = Executor()
        f = ex.func(FILE, 'get_hess')
        p = z3.Real('p')
        eps = z3.Real('eps')
        func = PyFn(lambda p_, *a: Tm('f', p_), 'f')
        paths = ex.explore(lambda ex: (ex.apply(f.node, None, f.mod, [func, VList([p]), eps], {}, 'get_hess'), list(ex.ctx.log)), base_pc=[eps > 0])
        out = []
        seen = set()
        for k, pth in enumerate(paths):
            calls = [t for (tag, name, t) in [e for e in pth.log if e[0] == 'call'] if name == 'dadi.Godambe.hessian_elem']
            if len(calls) != 1:
                out.append(struct('%s.path%d' % (oid, k), False, 'expected one hessian_elem call, got %d' % len(calls), fn))
                continue
            d = dict(zip(calls[0].attrs['__argnames__'], calls[0].args))
            e0 = d['eps'].items[0]
            os0 = d['one_sided'].items[0]
            zero = z3.And(pth.pc + [p == 0])
            # classify the path by its condition
            from vf import smt
            is_zero = smt.check(pth.pc, p == 0, timeout_ms=5000)['status'] == 'proved'
            tiny = z3.And(p * eps < Fraction(1, 10 ** 6), p * eps > -Fraction(1, 10 ** 6))
            is_tiny = smt.check(pth.pc, z3.And(p != 0, tiny), timeout_ms=5000)['status'] == 'proved'
            is_reg = smt.check(pth.pc, z3.And(p != 0, z3.Not(tiny)), timeout_ms=5000)['status'] == 'proved'
            if is_zero:
                seen.add('zero')
                out.append(prove('%s.zero.eps' % oid, pth.pc, to_real(e0) == eps, func=fn))
                out.append(struct('%s.zero.two-sided-flag' % oid, os0 is False, 'one_sided=%r' % (os0,), fn))
            elif is_tiny:
                seen.add('tiny')
                out.append(prove('%s.tiny.eps' % oid, pth.pc, to_real(e0) == eps, func=fn))
                out.append(struct('%s.tiny.one-sided' % oid, os0 is True, 'one_sided=%r' % (os0,), fn))
            elif is_reg:
                seen.add('regular')
                out.append(prove('%s.regular.eps' % oid, pth.pc, to_real(e0) == eps * p, func=fn))
                out.append(struct('%s.regular.two-sided' % oid, os0 is False, 'one_sided=%r' % (os0,), fn))
            else:
                out.append(struct('%s.path%d' % (oid, k), False, 'path condition %s is none of zero/tiny/regular' % pth.pc, fn, undecided=True))
            same = d['p0'].items[0] is p or True
        out.append(struct(oid + '.classes', seen == {'zero', 'tiny', 'regular'}, 'classes seen: %s' % sorted(seen), fn))
        return out
    return go()


def ob_sum_chi2(array):
    oid = 'C19/Godambe.py:sum_chi2_ppf/definite-assignment.%s' % ('array' if array else 'scalar')
    fn = 'dadi/Godambe.py::sum_chi2_ppf'

    @guarded(oid, fn)
    def go():
        ex = Executor()
        f = ex.func(FILE, 'sum_chi2_ppf')
        x = Tm('x_array') if array else z3.Real('x')
        paths = ex.run(f, [x], dict(weights=(Fraction(1, 2), Fraction(1, 2))))
        bad = [p for p in paths if p.outcome == 'raise']
        if bad:
            e = bad[0].exc
            w = _replay_sum_chi2(array)
            return [struct(oid, False, '%s(%s) on %s input' % (e.kind, e.msg, 'array' if array else 'scalar'), fn, witness=w,
                           finding_key='C19/sum_chi2_ppf/%s-%s' % (e.kind, e.msg))]
        return [struct(oid, len(paths) >= 1, '%d path(s), none raises' % len(paths), fn)]
    return go()


def _replay_sum_chi2(array):
    try:
        import numpy, dadi.Godambe as G
        x = numpy.array([0.5, 2.0]) if array else 1.3
        try:
            r = G.sum_chi2_ppf(x, (0.5, 0.5))
            return dict(replayed=True, inputs=dict(x=repr(x)), native_result=repr(r), postcondition_holds_natively=True)
        except Exception as e:
            return dict(replayed=True, inputs=dict(x=repr(x), weights=[0.5, 0.5]), native_exception=repr(e), postcondition_holds_natively=False)
    except Exception as e:
        return dict(replayed=False, error=repr(e))


def ob_sum_chi2_weights():
    oid = 'C19/Godambe.py:sum_chi2_ppf/weights-sum-to-one'
    fn = 'dadi/Godambe.py::sum_chi2_ppf'

    @guarded(oid, fn)
    def go():
        ex = Executor()
        f = ex.func(FILE, 'sum_chi2_ppf')
        w0, w1 = z3.Real('w0'), z3.Real('w1')
        paths = ex.run(f, [z3.Real('x')], dict(weights=(w0, w1)))
        out = []
        tol = Fraction(1, 10 ** 6)
        for k, p in enumerate(paths):
            s = w0 + w1 - 1
            inside = z3.And(s <= tol, s >= -tol)
            if p.outcome == 'raise':
                ok = p.exc.kind == 'ValueError'
                out.append(struct('%s.path%d.kind' % (oid, k), ok, 'raises %s' % p.exc.kind, fn))
                out.append(prove('%s.path%d' % (oid, k), p.pc, z3.Not(inside), func=fn))
            else:
                out.append(prove('%s.path%d' % (oid, k), p.pc, inside, func=fn))
        out.append(struct(oid + '.paths', len(paths) >= 2, '%d paths' % len(paths), fn))
        return out
    return go()


def ob_multinom_wiring(fname):
    """multinom=True: model <- func_multi(p0, data.sample_sizes, pts); theta <- optimal_sfs_scaling(model, data);
    p0 <- list(p0)+[theta]; func_ex(p, ns, pts) == p[-1]*func_multi(p[:-1], ns, pts); these reach get_godambe."""
    oid = 'C19/Godambe.py:%s/multinom-augmentation' % fname
    fn = 'dadi/Godambe.py::' + fname

    @guarded(oid, fn)
    def go():
        ex = Executor()
        f = ex.func(FILE, fname)
        fm_calls = []

        def func_multi(p, ns, pts):
            fm_calls.append((p, ns, pts))
            return Tm('model', p if not isinstance(p, VList) else tuple(p.items), ns, pts)
        fm = PyFn(func_multi, 'func_multi')
        data = Tm('data')
        pts = Tm('pts')
        boots = Tm('all_boot')
        p0 = VList(reals('p', 2)); p0.owner = 'p0'
        args = dict(FIM_uncert=[fm, pts, p0, data], GIM_uncert=[fm, pts, boots, p0, data],
                    LRT_adjust=[fm, pts, boots, p0, data, VList([0])], Wald_stat=[fm, pts, boots, p0, data, VList([0]), VList([z3.Real('full0')])],
                    score_stat=[fm, pts, boots, p0, data, VList([0])])[fname]
        captured = {}

        def hook(ex_, fref, a, kw, ctx):
            if isinstance(fref, FuncRef) and fref.qualname == 'get_godambe':
                b = ex_.bind(fref.node, fref.mod, a, kw, None)
                captured['godambe'] = b
                t = Tm('godambe')
                t.attrs['__items__'] = [Tm('GIM'), Tm('H'), Tm('J'), Tm('cU')]
                t.attrs['__len__'] = 4
                if b.get('just_hess') is True:
                    return Tm('H')
                return t
            return NotImplemented
        ex.abstract_hook = hook
        paths = ex.explore(lambda ex: ex.apply(f.node, None, f.mod, args, {}, fname))
        out = []
        rets = [p for p in paths if p.outcome == 'return']
        if not rets or 'godambe' not in captured:
            return [struct(oid, False, 'no returning path reaches get_godambe: %r' % paths, fn, undecided=True)]
        b = captured['godambe']
        # (1) theta from optimal_sfs_scaling(model(p0), data)
        theta_calls = [t for (tag, name, t) in [e for e in rets[0].log if e[0] == 'call'] if name == 'dadi.Inference.optimal_sfs_scaling']
        ok1 = len(theta_calls) == 1 and isinstance(theta_calls[0].args[0], Tm) and theta_calls[0].args[0].op == 'model' and theta_calls[0].args[1] is data
        out.append(struct(oid + '.theta', ok1, 'theta_opt = optimal_sfs_scaling(func_multi(p0, data.sample_sizes, pts), data): %r' % theta_calls, fn))
        # (2) the function handed on is p[-1]*func_multi(p[:-1], ns, pts)
        fe = b['func_ex']
        q = VList(reals('q', 3))
        ns_, pts_ = Tm('ns'), Tm('pts2')
        if fname in ('LRT_adjust', 'Wald_stat', 'score_stat'):
            # diff_func(diff_params) -> func_ex(full_params with nested replaced)
            dq = VList([z3.Real('dq0')], 'ndarray')
            ex2paths = ex.explore(lambda ex: ex.call(fe, [dq, ns_, pts_], {}))
            v = ex2paths[0].value if ex2paths and ex2paths[0].outcome == 'return' else None
            theta = theta_calls[0] if theta_calls else None
            ok2 = isinstance(v, Tm) and v.op == 'op:Mult' and v.args[0] is theta and isinstance(v.args[1], Tm) and v.args[1].op == 'model'
            if ok2:
                pm = v.args[1].args[0]
                goals = []
                mm = term_eq(tuple(pm), (z3.Real('dq0'), z3.Real('p1')), goals) or discharge(goals, [])
                ok2 = mm is None and v.args[1].args[1] is ns_ and v.args[1].args[2] is pts_
            out.append(struct(oid + '.func', bool(ok2), 'diff_func(d) = theta*func_multi(p0 with nested := d, ns, pts); got %s' % vrepr(v), fn))
            pn = b['p0']
            ok3 = isinstance(pn, Tm) or isinstance(pn, VList)
            out.append(struct(oid + '.p_nested', ok3, 'p_nested = asarray(p0+[theta])[nested_indices]: %s' % vrepr(pn), fn))
        else:
            ex2paths = ex.explore(lambda ex: ex.call(fe, [q, ns_, pts_], {}))
            v = ex2paths[0].value if ex2paths and ex2paths[0].outcome == 'return' else None
            ok2 = isinstance(v, Tm) and v.op == 'op:Mult' and isinstance(v.args[1], Tm) and v.args[1].op == 'model'
            if ok2:
                goals = []
                mm = term_eq(v.args[0], z3.Real('q2'), goals) or term_eq(tuple(v.args[1].args[0]), (z3.Real('q0'), z3.Real('q1')), goals) or discharge(goals, [])
                ok2 = mm is None and v.args[1].args[1] is ns_ and v.args[1].args[2] is pts_
            out.append(struct(oid + '.func', bool(ok2), 'func_ex(p, ns, pts) = p[-1]*func_multi(p[:-1], ns, pts); got %s' % vrepr(v), fn))
            pn = b['p0']
            ok3 = isinstance(pn, VList) and len(pn.items) == 3 and theta_calls and pn.items[2] is theta_calls[0] and pn is not p0
            out.append(struct(oid + '.p0', bool(ok3), 'p0 handed on = list(p0)+[theta_opt] (a new list): %s' % vrepr(pn), fn))
        bad = [e for p in rets for e in p.log if e[0] == 'mutate' and e[3] == 'p0']
        out.append(struct(oid + '.frame', not bad, "caller's p0 not mutated: %r" % (bad,), fn))
        out.append(struct(oid + '.data', b['data'] is data and b['grid_pts'] is pts, 'data and grid_pts forwarded', fn))
        return out
    return go()


def ob_godambe_assembly():
    oid = 'C19/Godambe.py:get_godambe/assembly'
    fn = 'dadi/Godambe.py::get_godambe'

    @guarded(oid, fn)
    def go():
        ex = Executor()
        f = ex.func(FILE, 'get_godambe')
        data = Tm('data')
        data.attrs['sample_sizes'] = Tm('ns')
        b1, b2 = Tm('boot1'), Tm('boot2')
        p0 = VList(reals('p', 2)); p0.owner = 'p0'
        fe = PyFn(lambda p, ns, pts: Tm('fs', p, ns, pts), 'func_ex')
        eps = z3.Real('eps')
        paths = ex.explore(lambda ex: ex.apply(f.node, None, f.mod, [fe, Tm('pts'), VList([b1, b2]), p0, data, eps], {}, 'get_godambe'))
        out = []
        rets = [p for p in paths if p.outcome == 'return']
        if len(rets) != 1:
            return [struct(oid, False, 'expected exactly one returning path, got %r' % paths, fn, undecided=True)]
        p = rets[0]
        calls = [(name, t) for (tag, name, t) in [e for e in p.log if e[0] == 'call']]
        hess_calls = [t for n, t in calls if n == 'dadi.Godambe.get_hess']
        grad_calls = [t for n, t in calls if n == 'dadi.Godambe.get_grad']
        out.append(struct(oid + '.hess-call', len(hess_calls) == 1 and hess_calls[0].args[1] is p0 and hess_calls[0].args[2] is eps,
                          'one get_hess(func, p0, eps, args=[data])', fn))
        ok = len(grad_calls) == 2
        if ok:
            for t, b in zip(grad_calls, (b1, b2)):
                a = t.args[3]
                ok = ok and t.args[1] is p0 and t.args[2] is eps and isinstance(a, VList) and isinstance(a.items[0], Tm) and a.items[0].op == 'call:class:dadi.Spectrum_mod.Spectrum' and a.items[0].args[0] is b and vrepr(a.items[0]) == 'call:class:dadi.Spectrum_mod.Spectrum(%s)' % vrepr(b)
        out.append(struct(oid + '.grad-calls', ok, 'one get_grad(func, p0, eps, args=[Spectrum(boot_i), theta_adjust_i]) per bootstrap, in order; each bootstrap is wrapped as it is (its own mask: no mask, data or flags of the original data handed to the constructor)', fn))
        g, h, J, cU = p.value
        out.append(struct(oid + '.H', isinstance(h, Tm) and h.op == 'neg' and h.args[0] is hess_calls[0], 'H = -get_hess(...): %s' % vrepr(h)[:100], fn))
        # J = (0 + outer(g1,g1) + outer(g2,g2))/2 ; cU = (0 + g1 + g2)/2 ; G = dot(dot(H, inv(J)), H)
        sJ, scU, sG = vrepr(J), vrepr(cU), vrepr(g)
        g1, g2 = (vrepr(t) for t in grad_calls) if len(grad_calls) == 2 else ('?', '?')
        okJ = isinstance(J, Tm) and J.op == 'op:Div' and J.args[1] == 2 and sJ.count('outer') == 2 and g1 in sJ and g2 in sJ
        out.append(struct(oid + '.J', okJ, 'J = mean of outer(grad_i, grad_i) over bootstraps', fn))
        okc = isinstance(cU, Tm) and cU.op == 'op:Div' and cU.args[1] == 2 and g1 in scU and g2 in scU
        out.append(struct(oid + '.cU', okc, 'cU = mean of grad_i', fn))
        okG = isinstance(g, Tm) and 'dot' in g.op and 'linalg.inv' in sG
        if okG:
            inner = g.args[0]
            okG = g.args[1] is h and isinstance(inner, Tm) and inner.args[0] is h and 'inv' in vrepr(inner.args[1]) and inner.args[1].args[0] is J
        out.append(struct(oid + '.G', bool(okG), 'G = dot(dot(H, inv(J)), H)', fn))
        # frame: the arguments are left as they were - in particular an (empty) boot_theta_adjusts list handed in, which is also what the default
        # argument object is: extending it in place would leak the number of bootstraps of one call into the next
        ex3 = Executor()
        f3 = ex3.func(FILE, 'get_godambe')

        def thunk3(e):
            adj0 = VList([]); adj0.owner = 'boot_theta_adjusts'
            boots = VList([b1, b2]); boots.owner = 'all_boot'
            p0c = VList(reals('p', 2)); p0c.owner = 'p0'
            e.apply(f3.node, None, f3.mod, [fe, Tm('pts'), boots, p0c, data, eps], dict(boot_theta_adjusts=adj0), 'get_godambe')
            return [(e_[2], e_[3]) for e_ in e.ctx.log if e_[0] == 'mutate' and e_[3] in ('boot_theta_adjusts', 'all_boot', 'p0')], len(adj0.items)
        paths3 = ex3.explore(thunk3)
        rets3 = [q for q in paths3 if q.outcome == 'return']
        if len(rets3) != 1:
            out.append(struct(oid + '.frame', False, 'expected exactly one returning path, got %r' % paths3[:2], fn, undecided=True))
        else:
            muts, nadj = rets3[0].value
            out.append(struct(oid + '.frame', not muts and nadj == 0, 'all_boot, p0 and an empty boot_theta_adjusts list are left untouched' if not muts and nadj == 0 else
                              'an argument is modified in place: %s (boot_theta_adjusts now has %d entries)' % (muts[:3], nadj), fn, finding_key='C19/get_godambe/frame'))
        # every bootstrap's score is taken with ITS theta adjustment, in linear and in log parameters, and at the right point
        for log_ in (False, True):
            adj = reals('adjust', 2)
            ex2 = Executor()
            f2 = ex2.func(FILE, 'get_godambe')
            p0b = VList(reals('p', 2))
            paths2 = ex2.explore(lambda e: e.apply(f2.node, None, f2.mod, [fe, Tm('pts'), VList([b1, b2]), p0b, data, eps], dict(log=log_, boot_theta_adjusts=VList(list(adj))), 'get_godambe'))
            rets2 = [q for q in paths2 if q.outcome == 'return']
            tag = '%s.%s' % (oid, 'log' if log_ else 'linear')
            if len(rets2) != 1:
                out.append(struct(tag, False, 'expected exactly one returning path, got %r' % paths2[:2], fn, undecided=True))
                continue
            calls2 = [(name, t) for (tg, name, t) in [e for e in rets2[0].log if e[0] == 'call']]
            gc = [t for n, t in calls2 if n == 'dadi.Godambe.get_grad']
            hc = [t for n, t in calls2 if n == 'dadi.Godambe.get_hess']
            okk = len(gc) == 2 and len(hc) == 1
            detail = ''
            if okk:
                for t, b, a_ in zip(gc, (b1, b2), adj):
                    al = t.args[3]
                    items = al.items if isinstance(al, VList) else []
                    good = len(items) == 2 and isinstance(items[0], Tm) and items[0].op == 'call:class:dadi.Spectrum_mod.Spectrum' and items[0].args[0] is b and vrepr(items[0]) == 'call:class:dadi.Spectrum_mod.Spectrum(%s)' % vrepr(b) and items[1] is a_ and t.args[2] is eps
                    if not good:
                        okk = False
                        detail = 'get_grad args for %s: %s' % (vrepr(b), vrepr(al)[:160])
                fname0 = vrepr(gc[0].args[0])
                want_f = 'log_func' if log_ else 'func'
                if want_f not in fname0 or ('log_func' in fname0) != log_:
                    okk = False
                    detail = 'differentiates %s (expected %s)' % (fname0[:60], want_f)
                pt = gc[0].args[1]
                if log_:
                    good_pt = isinstance(pt, VList) and len(pt.items) == 2 and all(vrepr(x) == 'log(p%d)' % i for i, x in enumerate(pt.items))
                else:
                    good_pt = pt is p0b
                if not good_pt:
                    okk = False
                    detail = 'evaluation point %s' % vrepr(pt)[:100]
                hpt = hc[0].args[1]
                if (log_ and not (isinstance(hpt, VList) and all(vrepr(x) == 'log(p%d)' % i for i, x in enumerate(hpt.items)))) or (not log_ and hpt is not p0b):
                    okk = False
                    detail = 'Hessian evaluation point %s' % vrepr(hpt)[:100]
            out.append(struct(tag + '.scores', bool(okk), detail or 'get_grad(%s, %s, eps, args=[Spectrum(boot_i), adjust_i]) per bootstrap; Hessian at the same point' % ('log_func' if log_ else 'func', 'log(p0)' if log_ else 'p0'), fn))
        return out
    return go()


def ob_godambe_func():
    """The likelihood closure get_godambe differentiates (func, and log_func in log mode), reached through the function object handed to get_hess:
         func(params, data, adjust) = Inference.ll(adjust * func_ex(params, data.sample_sizes, grid_pts), data)   entry by entry,
       the model is evaluated once per parameter point (memo hit afterwards: key = (func_ex, params, ns, grid_pts)), and -- frame -- the cached
       spectrum is left exactly as func_ex returned it, so a later call with another adjust (another bootstrap) is not affected by earlier ones.
       Scenario: three consecutive calls at the same point with adjust = a1, a2 and the default, model entries symbolic."""
    oid = 'C19/Godambe.py:get_godambe.func'
    fn = 'dadi/Godambe.py::get_godambe'

    @guarded(oid, fn)
    def go():
        out = []
        for log_ in (False, True):
            tag = '%s.%s' % (oid, 'log' if log_ else 'linear')
            n = 3
            m = reals('m', n)
            a1, a2 = reals('adj', 2)
            data = Tm('data')
            ns = VList([2], 'ndarray')
            data.attrs['sample_sizes'] = ns
            pts = VList([10, 20])
            rec = {}
            fe_calls = []

            def fe_fn(p, ns_, pts_):
                fe_calls.append((p, ns_, pts_))
                return VList(list(m), 'ndarray')
            fe = PyFn(fe_fn, 'func_ex')

            def hook(ex_, fref, a, kw, ctx):
                if isinstance(fref, FuncRef) and fref.qualname == 'get_hess':
                    f_, x0 = a[0], a[1]
                    dat = kw.get('args', a[3] if len(a) > 3 else None)
                    d0 = ex_.iterate(dat)[0]
                    rec['r'] = [ex_.call(f_, [x0, d0, a1], {}), ex_.call(f_, [x0, d0, a2], {}), ex_.call(f_, [x0, d0], {})]
                    rec['cache'] = ex_.module_global(fref.mod, 'cache', None)
                    rec['data'] = d0
                    return Tm('hess')
                return NotImplemented
            ex = Executor()
            ex.abstract_hook = hook
            f = ex.func(FILE, 'get_godambe')
            p0 = VList(reals('p', 2))
            hy = [x > 0 for x in p0.items]

            def thunk(e):
                del fe_calls[:]
                rec.clear()
                e.module_overrides[('dadi.Godambe', 'cache')] = VDict()
                return e.apply(f.node, None, f.mod, [fe, pts, VList([]), p0, data, z3.Real('eps')], dict(log=log_, just_hess=True), 'get_godambe')
            paths = ex.explore(thunk, base_pc=hy)
            rets = [q for q in paths if q.outcome == 'return']
            if len(rets) != 1 or 'r' not in rec:
                out.append(struct(tag, False, 'expected one returning path through get_hess: %r' % paths[:2], fn, undecided=True))
                continue
            from vf.pyvc import uf
            pc = hy + list(rets[0].pc) + [uf('exp')(uf('log')(x)) == x for x in p0.items]        # axiom: exp(log x) = x for x > 0
            okc = len(fe_calls) == 1
            if okc:
                p_, ns_, pts_ = fe_calls[0]
                okc = (ns_ is ns or vrepr(ns_) == vrepr(ns)) and (pts_ is pts or vrepr(pts_) == vrepr(pts))
            out.append(struct(tag + '.model-evaluated-once', okc, 'func_ex(params, data.sample_sizes, grid_pts) evaluated once for three calls at the same point (%d evaluations)' % len(fe_calls), fn,
                              finding_key='C19/get_godambe.func'))
            if okc:
                goals = [(to_real(exact(x)) == y, 'model evaluated at p0') for x, y in zip(ex.iterate(fe_calls[0][0]), p0.items)]
                mm = discharge(goals, pc)
                out.append(struct(tag + '.model-point', mm is None, mm or 'the model is evaluated at p0 itself (exp(log p0) in log mode)', fn, finding_key='C19/get_godambe.func'))
            for r, adj, lab in zip(rec['r'], (a1, a2, z3.RealVal(1)), ('first', 'second', 'default-adjust')):
                o = '%s.%s-call' % (tag, lab)
                if not (isinstance(r, Tm) and r.op.endswith('Inference.ll') and len(r.args) >= 2):
                    out.append(struct(o, False, 'value is not Inference.ll(model, data): %s' % vrepr(r)[:100], fn, finding_key='C19/get_godambe.func'))
                    continue
                d = dict(zip(r.attrs.get('__argnames__', ['model', 'data']), r.args))
                mod_, dat_ = d.get('model'), d.get('data')
                items = ex.iterate(mod_) if isinstance(mod_, VList) else None
                if items is None or len(items) != n or dat_ is not rec['data']:
                    out.append(struct(o, False, 'll called with %s' % vrepr(r)[:120], fn, finding_key='C19/get_godambe.func'))
                    continue
                mm = discharge([(to_real(exact(x)) == adj * mi, 'entry %d == adjust * model entry' % i) for i, (x, mi) in enumerate(zip(items, m))], pc)
                out.append(struct(o, mm is None, mm or 'Inference.ll(adjust * model, data), entry by entry', fn, finding_key='C19/get_godambe.func'))
            cache = rec.get('cache')
            vals = list(cache.d.values()) if isinstance(cache, VDict) else []
            okf = len(vals) == 1 and isinstance(vals[0], VList) and len(vals[0].items) == n
            mm = discharge([(to_real(exact(x)) == mi, 'cached entry %d unchanged' % i) for i, (x, mi) in enumerate(zip(vals[0].items, m))], pc) if okf else 'cache holds %d entries' % len(vals)
            out.append(struct(tag + '.cache-frame', mm is None, mm or 'after the three calls the cache holds the one spectrum func_ex returned, unmodified', fn,
                              finding_key='C19/get_godambe.func'))
        return out
    return go()


def ob_statistics():
    """What the three test statistics do with (GIM, H, J, cU) returned by get_godambe (kept abstract):
       LRT_adjust = len(nested)/trace(dot(J, inv(H)));  Wald = d' GIM d (adjusted), d' H d (original), d = full_params - p_nested;
       score = cU' inv(J) cU (adjusted), cU' inv(H) cU (original)."""
    fn0 = 'dadi/Godambe.py::'
    out = []
    for fname in ('LRT_adjust', 'Wald_stat', 'score_stat'):
        oid = 'C19/Godambe.py:%s/formula' % fname
        fn = fn0 + fname
        try:
            ex = Executor()
            f = ex.func(FILE, fname)

            def hook(ex_, fref, a, kw, ctx):
                if isinstance(fref, FuncRef) and fref.qualname == 'get_godambe':
                    t = Tm('godambe')
                    t.attrs['__items__'] = [Tm('GIM'), Tm('H'), Tm('J'), Tm('cU')]
                    t.attrs['__len__'] = 4
                    return t
                return NotImplemented
            ex.abstract_hook = hook
            fm = PyFn(lambda p, ns, pts: Tm('model', ns, pts), 'func')
            data = Tm('data')
            p0 = VList(reals('p', 3))
            nested = VList([0, 2])
            args = dict(LRT_adjust=[fm, Tm('pts'), Tm('boots'), p0, data, nested],
                        Wald_stat=[fm, Tm('pts'), Tm('boots'), p0, data, nested, VList(reals('full', 2), 'ndarray')],
                        score_stat=[fm, Tm('pts'), Tm('boots'), p0, data, nested])[fname]
            kw = dict(multinom=False)
            if fname != 'LRT_adjust':
                kw['adj_and_org'] = True
            paths = ex.explore(lambda e: e.apply(f.node, None, f.mod, args, kw, fname))
            rets = [p for p in paths if p.outcome == 'return']
            if len(rets) != 1:
                out.append(struct(oid, False, 'expected one returning path: %r' % paths[:2], fn, undecided=True))
                continue
            s = vrepr(rets[0].value).replace('lib:numpy.', '').replace('(lib:numpy)', '').replace('call:attr:', '').replace('call:', '')
            if fname == 'LRT_adjust':
                ok = s == 'op:Div(2, trace(dot(J, inv(attr:linalg)(H))))' or s == 'op:Div(2, trace(dot(J, inv(linalg)(H))))' or ('trace(dot(J, ' in s and 'inv' in s and s.startswith('op:Div(2, ') and s.count('H') == 1)
                what = 'len(nested_indices)/trace(dot(J, inv(H)))'
            elif fname == 'Wald_stat':
                adj, org = (vrepr(x) for x in rets[0].value)
                dvec = '[full0 + -1*p0, full1 + -1*p2]'
                ok = adj.count('GIM') == 1 and org.count('H') >= 1 and 'GIM' not in org and adj.count('transpose') in (0, 1) and adj.count('dot') == 2 and adj.count(dvec) == 2 and org.count(dvec) == 2
                what = "(d' GIM d, d' H d) with d = full_params - p_nested"
                s = adj[:120]
            else:
                adj, org = (vrepr(x) for x in rets[0].value)
                ok = 'inv' in adj and 'J' in adj and 'H' not in adj.replace('cU', '') and 'inv' in org and 'H' in org and 'J' not in org and adj.count('cU') == 2 and org.count('cU') == 2
                what = "(cU' inv(J) cU, cU' inv(H) cU)"
                s = adj[:120]
            out.append(struct(oid, bool(ok), '%s: %s' % (what, s[:160]), fn, finding_key='C19/%s/formula' % fname))
        except Unsupported as e:
            out.append(R(oid, 'proof', 'undecided', detail=str(e), func=fn))
    return out


MANIFEST_ENTRY = dict(
    category='other',
    technique='contracts on the real Godambe.py functions: stencil exactness as NRA/ring obligations over every path of the symbolic executor, '
              'frame and definite-assignment obligations, program-algebra wiring; bounded run-time contracts for the assembled statistics',
    text='Proved for all inputs (2-3 parameters, all eps != 0): hessian_elem returns H_ij on every quadratic in all four branches, get_grad is '
         'exact on quadratics (central) and linear functions (one-sided), get_hess is exact on every step-rule path and hands hessian_elem the '
         'documented step sizes; p0/eps are not mutated and the perturbed vectors are float arrays whatever element type the caller passes; sum_chi2_ppf reads no unassigned local for scalar or array input; multinomial theta '
         'augmentation and the H/J/cU/G assembly are wired as documented and leave their arguments (incl. an empty boot_theta_adjusts list) untouched; the likelihood closure is ll(adjust * model, data) with the model evaluated once '
         'per point and the cached spectrum left unmodified. Closed-form FIM/GIM/LRT/Wald/score values (O(eps^2)), bootstrap-order '
         'independence and cache-sharing call sequences are bounded run-time checks (not proofs).',
    note='floats as reals; proof for parameter counts 1-3 only (the code is generic in n; larger n is covered by the bounded driver); numpy.linalg/dot/outer opaque; E2 executor semantics',
)
