"""Bounded run-time-contract driver (E4) for C01: one-population SFS vs exact coalescent / selection-equilibrium theory.

Oracles (all independent of dadi):
  * neutral, any size history: E[xi_b] = theta/2 * sum_k k * P(lineage at level k has b descendants) * E[time with k lineages],
    E[time with k lineages] from the Kingman pure-death process run on the coalescent clock Lambda(t) = int_0^t ds/nu(s):
    P(k lineages at Lambda | n at 0) = sum_j c_kj exp(-C(j,2) Lambda) with c_kj the partial-fraction coefficients (exact
    Fractions), and I_j = int_0^inf exp(-C(j,2) Lambda(t)) dt in closed form for piecewise-constant nu (mpmath, 80 digits),
    by mpmath quadrature for exponential growth.  Cross-checked in the 'oracle' task against theta/b (constant size) and
    against an mpmath matrix-exponential of the Kingman generator.
  * selection: stationary solution of  d/dt phi = 1/2 (V phi)'' - (M phi)',  V = x(1-x)/nu * (beta+1)^2/(4 beta),
    M = 2 gamma x(1-x)(h+(1-2h)x), influx theta0/2 at x=0:
    phi(x) = theta0*nu*k * exp(A(x)) int_x^1 exp(-A) / (x(1-x) int_0^1 exp(-A)),  k = 4beta/(beta+1)^2,
    A(x) = nu*k*gamma*(4hx + 2(1-2h)x^2); E[xi_b] = int Binom(n,b;x) phi(x) dx by graded composite Gauss-Legendre (numpy),
    cross-checked against the genic closed form integrated with mpmath.
"""
import math
import zlib
import random
from fractions import Fraction as Fr
from math import comb

from vf.core import Task
from vf.bounded import Driver
from vf import common

DEFAULT_TF = 1e-3          # dadi.Integration.timescale_factor on this tree (checked in the oracle task)


# ----------------------------------------------------------------------------------------------- task list
def tasks(tier):
    q = tier == 'quick'
    out = []
    nsh, per = (8, 5) if q else (16, 90)
    for s in range(nsh):
        out.append(Task('props.bounded_C01:drv_coal', name='C01/bounded/coal.%d' % s, shard=s, nshards=nsh, per=per, tier=tier, timeout=1500))
    nsh, per = (4, 2) if q else (8, 30)
    for s in range(nsh):
        out.append(Task('props.bounded_C01:drv_growth', name='C01/bounded/growth.%d' % s, shard=s, per=per, tier=tier, timeout=1500))
    out.append(Task('props.bounded_C01:drv_gridmin', name='C01/bounded/gridmin', tier=tier, timeout=1500))
    nsh = 5 if q else 10
    for s in range(nsh):
        out.append(Task('props.bounded_C01:drv_seleq', name='C01/bounded/seleq.%d' % s, shard=s, nshards=nsh, tier=tier, timeout=1500))
    hs = [0.0, 0.1, 0.2, 0.3, 0.4, 0.5, 0.6, 0.7, 0.8, 0.9, 1.0]
    for i, h in enumerate(hs):
        out.append(Task('props.bounded_C01:drv_phi', name='C01/bounded/phi1D.h%02d' % int(round(h * 10)), h=h, tier=tier, timeout=1500))
    out.append(Task('props.bounded_C01:drv_phi_switch', name='C01/bounded/phi1D.switch', tier=tier, timeout=1500))
    nsh = 3 if q else 6
    for s in range(nsh):
        out.append(Task('props.bounded_C01:drv_stationary', name='C01/bounded/stationary.%d' % s, shard=s, nshards=nsh, tier=tier, timeout=1500))
    out.append(Task('props.bounded_C01:drv_oracle', name='C01/bounded/oracle', tier=tier, timeout=1500))
    out.append(Task('props.bounded_C01:drv_initial_t', name='C01/bounded/initial_t', tier=tier, timeout=900))
    return out


def _driver(name, bound):
    d = Driver('C01', name, bound=bound)
    # deterministic across processes (str hash is randomised per process)
    d.rng = random.Random(common.seed() * 7919 + zlib.crc32(name.encode()) % 100003)
    return d


# ----------------------------------------------------------------------------------------------- coalescent oracle
_COEF = {}


def death_coefs(n):
    """c[k][j], 2<=k<=j<=n: P(k lineages | n at Lambda=0) = sum_j c[k][j] exp(-C(j,2) Lambda) (partial fractions of
    prod_{i=k+1..n} lam_i / prod_{i=k..n} (s+lam_i))."""
    if n in _COEF:
        return _COEF[n]
    lam = {k: Fr(k * (k - 1), 2) for k in range(1, n + 1)}
    c = {}
    for k in range(2, n + 1):
        pref = Fr(1)
        for i in range(k + 1, n + 1):
            pref *= lam[i]
        c[k] = {}
        for j in range(k, n + 1):
            den = Fr(1)
            for i in range(k, n + 1):
                if i != j:
                    den *= (lam[i] - lam[j])
            c[k][j] = pref / den
    _COEF[n] = c
    return c


def _mpf(fr):
    import mpmath as mp
    return mp.mpf(fr.numerator) / fr.denominator


def I_piecewise(j, epochs_backward):
    """int_0^inf exp(-C(j,2) Lambda(t)) dt; epochs from the present backwards [(nu,T),...], then nu=1 for ever."""
    import mpmath as mp
    lam = mp.mpf(j * (j - 1)) / 2
    L = mp.mpf(0)
    tot = mp.mpf(0)
    for nu, T in epochs_backward:
        nu = mp.mpf(nu)
        T = mp.mpf(T)
        tot += mp.exp(-lam * L) * nu / lam * (-mp.expm1(-lam * T / nu))
        L += T / nu
    tot += mp.exp(-lam * L) / lam
    return tot


def I_expgrowth(j, nuB, nuF, T, method='gauss-legendre'):
    """Same for nu(t_forward) = nuB*(nuF/nuB)^(t/T) on [0,T] preceded by nu=1: backwards nu(s)=nuF*exp(-r s)."""
    import mpmath as mp
    lam = mp.mpf(j * (j - 1)) / 2
    nuB, nuF, T = mp.mpf(nuB), mp.mpf(nuF), mp.mpf(T)
    r = mp.log(nuF / nuB) / T
    if r == 0:
        Lam = lambda s: s / nuF
    else:
        Lam = lambda s: mp.expm1(r * s) / (r * nuF)
    if method == 'gauss-legendre':      # breakpoints graded towards the present, where the integrand can decay on a scale nuF/lam
        br = [0] + [T * mp.mpf(10) ** (-k / 2.0) for k in range(12, 0, -1)] + [T]
    else:
        br = mp.linspace(0, T, 9)
    body = mp.quad(lambda s: mp.exp(-lam * Lam(s)), br, method=method)
    return body + mp.exp(-lam * Lam(T)) / lam


def sfs_from_I(n, I, theta=1):
    import mpmath as mp
    c = death_coefs(n)
    tau = {}
    for k in range(2, n + 1):
        tau[k] = mp.fsum(_mpf(c[k][j]) * I[j] for j in range(k, n + 1))
    out = []
    for b in range(1, n):
        s = mp.mpf(0)
        for k in range(2, n - b + 2):
            s += k * _mpf(Fr(comb(n - b - 1, k - 2), comb(n - 1, k - 1))) * tau[k]
        out.append(float(mp.mpf(theta) * s / 2))
    return out


def sfs_piecewise(n, epochs_forward, theta=1):
    import mpmath as mp
    with mp.workdps(80):
        ep = list(reversed(list(epochs_forward)))
        I = {j: I_piecewise(j, ep) for j in range(2, n + 1)}
        return sfs_from_I(n, I, theta)


def sfs_expgrowth(n, nuB, nuF, T, theta=1, method='gauss-legendre', dps=40):
    import mpmath as mp
    with mp.workdps(dps):
        I = {j: I_expgrowth(j, nuB, nuF, T, method) for j in range(2, n + 1)}
        return sfs_from_I(n, I, theta)


def sfs_expm(n, epochs_forward, theta=1):
    """Independent second derivation: occupancy times from the matrix exponential of the Kingman generator."""
    import mpmath as mp
    with mp.workdps(50):
        m = n - 1                                   # states k=2..n -> index k-2
        Q = mp.zeros(m, m)
        for k in range(2, n + 1):
            Q[k - 2, k - 2] = -mp.mpf(k * (k - 1)) / 2
            if k > 2:
                Q[k - 3, k - 2] = mp.mpf(k * (k - 1)) / 2       # column convention: dp/dt = Q p
        p = mp.zeros(m, 1)
        p[m - 1] = 1
        occ = mp.zeros(m, 1)
        for nu, T in reversed(list(epochs_forward)):
            E = mp.expm(Q * (mp.mpf(T) / mp.mpf(nu)))
            pn = E * p
            occ += mp.mpf(nu) * mp.lu_solve(Q, pn - p)            # int_0^T exp(Q t/nu) p dt
            p = pn
        occ += mp.lu_solve(Q, -p)                                 # nu=1 for ever
        out = []
        for b in range(1, n):
            s = mp.mpf(0)
            for k in range(2, n - b + 2):
                s += k * mp.mpf(comb(n - b - 1, k - 2)) / comb(n - 1, k - 1) * occ[k - 2]
            out.append(float(theta * s / 2))
        return out


# ----------------------------------------------------------------------------------------------- selection oracle
_GL = None


def _gl():
    global _GL
    if _GL is None:
        import numpy as np
        gx, gw = np.polynomial.legendre.leggauss(20)
        g = [10.0 ** (-k / 2.0) for k in range(2, 19)]
        br = np.array(sorted(set([0.0, 1.0] + g + [1 - v for v in g] + [j / 16.0 for j in range(1, 16)])))
        _GL = (gx, gw, br)
    return _GL


def _nodes(lo, hi):
    import numpy as np
    gx, gw, br = _gl()
    lo = np.asarray(lo, float)[..., None, None]
    hi = np.asarray(hi, float)[..., None, None]
    a = lo + (hi - lo) * br[:-1][:, None]
    b = lo + (hi - lo) * br[1:][:, None]
    y = 0.5 * (a + b) + 0.5 * (b - a) * gx
    w = 0.5 * (b - a) * gw
    return y.reshape(y.shape[:-2] + (-1,)), w.reshape(w.shape[:-2] + (-1,))


def sel_sfs(n, gamma, h=0.5, nu=1.0, theta0=1.0, beta=1.0):
    """Exact expected SFS (entries 1..n-1) of the mutation-selection-drift equilibrium; see module docstring."""
    import numpy as np
    k = 4.0 * beta / (beta + 1.0) ** 2
    S = gamma * nu * k
    A = lambda x: 4 * S * h * x + 2 * S * (1 - 2 * h) * x * x
    if S >= 0:       # exp(A(x)) int_x^1 exp(-A) / int_0^1 exp(-A), exponents kept <= 0
        def Rr(x):
            y, w = _nodes(x, np.ones_like(x))
            return np.sum(w * np.exp(-(A(y) - A(x)[..., None])), -1)
        Z = Rr(np.array([0.0]))[0]
        R = lambda x: Rr(x) / Z
    else:
        def G(x):
            y, w = _nodes(x, np.ones_like(x))
            return np.sum(w * np.exp(-(A(y) - A(1.0))), -1)
        Z = G(np.array([0.0]))[0]
        R = lambda x: np.exp(A(x)) * G(x) / Z
    x, w = _nodes(np.array(0.0), np.array(1.0))
    r = R(x)
    return np.array([theta0 * nu * k * comb(n, i) * np.sum(w * x ** (i - 1) * (1 - x) ** (n - i - 1) * r) for i in range(1, n)])


# ----------------------------------------------------------------------------------------------- helpers on the dadi side
def _relerr(got, want):
    import numpy as np
    got = np.asarray(got, float)
    want = np.asarray(want, float)
    if got.shape != want.shape or not np.all(np.isfinite(got)):
        return float('inf')
    return float(np.max(np.abs(got / want - 1)))


def _poly(fs):
    import numpy as np
    return np.asarray(getattr(fs, 'data', fs), float)[1:-1]


def _pts_for(n, base=60):
    p0 = max(base, n + 30)
    return [p0, p0 + 10, p0 + 20]


TF_LADDER = [1.6e-2, 8e-3, 4e-3, 2e-3, 1e-3, 5e-4]


def _onepct_case(d, key, run, want, info, fk):
    """1.5% clause at a tenth of the default step.  A failure is classified by re-running at DEFAULT_TF/40: if that brings
    every entry within 1.5% the excess is time-step error (fail_key <fk>-timestep), otherwise grid/other error (<fk>)."""
    F0 = run(DEFAULT_TF / 10)
    floor = _relerr(F0, want)
    if floor <= 0.015:
        d.case(key + ('1.5pct',), True, dict(info, tf=DEFAULT_TF / 10, max_rel_err=floor))
    else:
        fine = _relerr(run(DEFAULT_TF / 40), want)
        d.case(key + ('1.5pct',), False, dict(info, tf=DEFAULT_TF / 10, max_rel_err=floor, max_rel_err_at_tf_over_40=fine),
               fail_key=fk + ('-timestep' if fine <= 0.015 else ''))
    return F0, floor


def _ratio_case(d, key, run, want, tf_cap, F0, floor, info):
    """Order-of-convergence contract.  Model of the error against the oracle at step tf: e(tf) = a*tf + g with g the
    tf-independent grid/extrapolation floor.  (i) floor-subtracted: D(tf) = max_i |F_i(tf)-F_i(tf0)|/want_i with tf0 =
    DEFAULT_TF/10 the run whose error against the oracle is bounded by the 1.5% clause; first order means
    D(tf)/D(tf/2) = (tf-tf0)/(tf/2-tf0); asserted as 2*ratio/expected in [1.5,2.6].  (ii) direct: where the error against the
    oracle at tf/2 is >= 4x the error at tf0, err(tf)/err(tf/2) in [1.5,2.6].  Both need every epoch >= 10 steps at tf."""
    import numpy as np
    tfc = [t for t in TF_LADDER if t <= tf_cap]
    if not tfc or not np.all(np.isfinite(F0)):
        d.case(key + ('ratio',), True, dict(info, skipped='an epoch is shorter than 10 steps at tf=5e-4'), nontrivial=False)
        return
    tfc = tfc[0]
    tf0 = DEFAULT_TF / 10
    F1, F2 = run(tfc), run(tfc / 2)
    D1, D2 = _relerr(F1 - F0 + want, want), _relerr(F2 - F0 + want, want)
    if not (D2 >= 1e-5):
        d.case(key + ('ratio',), True, dict(info, skipped='time-step error below 1e-5 (not measurable)', tf=tfc, D1=D1, D2=D2), nontrivial=False)
    else:
        r = 2 * (D1 / D2) / ((tfc - tf0) / (tfc / 2 - tf0))
        d.case(key + ('ratio',), 1.5 <= r <= 2.6, dict(info, tf=tfc, D_tf=D1, D_half=D2, normalised_ratio=r), fail_key='timestep-order')
    e1, e2 = _relerr(F1, want), _relerr(F2, want)
    if e2 >= 4 * floor:
        r = e1 / e2
        d.case(key + ('ratio-direct',), 1.5 <= r <= 2.6, dict(info, tf=tfc, err_tf=e1, err_half=e2, ratio=r, floor=floor),
               fail_key='timestep-order-direct')


def _draw_history(rng, friendly):
    ne = rng.randint(1, 4)
    eps = []
    for _ in range(ne):
        nu = math.exp(rng.uniform(math.log(0.05), math.log(20)))
        lo = 0.005
        if friendly:                       # every epoch >= 10 steps at tf=2e-3 (dt = 4 nu tf)
            lo = min(max(0.005, 0.08 * nu), 3.0)
        T = math.exp(rng.uniform(math.log(lo), math.log(3)))
        eps.append((nu, T))
    return eps


CORNER_HISTORIES = [
    [(0.05, 3.0)], [(20.0, 0.005)], [(0.05, 0.005)], [(20.0, 3.0)], [(1.0, 1.0)],
    [(0.05, 0.1), (20.0, 0.5)], [(20.0, 0.5), (0.05, 0.05)], [(0.05, 0.02), (20.0, 0.3), (0.05, 0.02), (20.0, 0.3)],
    [(3.0, 0.005), (0.3, 0.005), (3.0, 0.005), (0.3, 0.005)], [(0.226, 0.0194), (0.0619, 0.39), (20.0, 0.297)],
    [(0.05, 0.5), (20.0, 0.1)],      # bottleneck then a short 400-fold expansion: dt = 4*nu*tf leaves 12 steps at tf=1e-4
]


# ----------------------------------------------------------------------------------------------- drivers
def drv_coal(tier, shard, nshards, per):
    import numpy as np
    import dadi
    from dadi import Numerics, PhiManip, Integration, Spectrum, Demographics1D
    nmax = 20 if tier == 'quick' else 30
    d = _driver('coal.%d' % shard,
                bound='shard %d: %d random + corner size histories, 1-4 epochs, nu in [0.05,20] and T in [0.005,3] log-uniform, '
                      'n in 2..%d, pts=(p,p+10,p+20) with p=max(60,n+30), linear and log extrapolation, entry points '
                      'Demographics1D.two_epoch/three_epoch (1-2 epochs), chained one_pop with constant nu, with nu/theta0 '
                      'passed as functions of time (each epoch its own one_pop call); theta0 in [0.1,10]. '
                      'Contract: every polymorphic entry within 1.5%% of the exact coalescent expectation at timescale_factor=1e-4; '
                      'first-order convergence in the time step where measurable (every epoch >= 10 steps at tf in {1.6e-2..5e-4}): '
                      'floor-subtracted error ratio for tf -> tf/2, normalised to 2, in [1.5,2.6], and direct error ratio in [1.5,2.6] '
                      'when the error at tf/2 is >= 4x the error at 1e-4.' % (shard, per, nmax))

    def generic(params, ns, pts):
        epochs, theta0, mode = params
        xx = Numerics.default_grid(pts)
        phi = PhiManip.phi_1D(xx, theta0=theta0)
        if mode == 'const':
            for nu, T in epochs:
                phi = Integration.one_pop(phi, xx, T, nu, theta0=theta0)
        else:   # 'func': every parameter a function of time (time-dependent driver, C kernel per step)
            for nu, T in epochs:
                phi = Integration.one_pop(phi, xx, T, nu=lambda t, nu=nu: nu, theta0=lambda t: theta0)
        return Spectrum.from_phi(phi, ns, (xx,))

    tf_saved = Integration.timescale_factor
    try:
        cases = []
        for eps in CORNER_HISTORIES[shard::nshards]:
            cases.append((eps, True))
        for i in range(per):
            cases.append((_draw_history(d.rng, friendly=(i % 2 == 0)), False))
        for ci, (eps, corner) in enumerate(cases):
            n = d.rng.choice([2, 3, nmax]) if d.rng.random() < 0.25 else d.rng.randint(2, nmax)
            if corner:
                n = nmax
            log = bool(d.rng.getrandbits(1))
            theta0 = 1.0
            mode = ['const', 'func'][ci % 2]
            if mode == 'const' and len(eps) <= 2 and ci % 4 == 0:
                mode = 'lib'
            if mode != 'lib':
                theta0 = math.exp(d.rng.uniform(math.log(0.1), math.log(10)))
            pts = _pts_for(n)
            if mode == 'lib':
                if len(eps) == 1:
                    func, params = Demographics1D.two_epoch, (eps[0][0], eps[0][1])
                else:
                    func, params = Demographics1D.three_epoch, (eps[0][0], eps[1][0], eps[0][1], eps[1][1])
            else:
                func, params = generic, (eps, theta0, mode)
            fex = (Numerics.make_extrap_log_func if log else Numerics.make_extrap_func)(func)
            want = np.array(sfs_piecewise(n, eps, theta0))

            def run(tf):
                Integration.timescale_factor = tf
                try:
                    fs = fex(params, (n,), pts)
                finally:
                    Integration.timescale_factor = tf_saved
                return _poly(fs) if fs.shape == (n + 1,) else np.full(n - 1, np.nan)

            info = dict(epochs=[list(e) for e in eps], n=n, pts=pts, log_extrap=log, mode=mode, theta0=theta0)
            key = (tuple(eps), n, log, mode)
            F0, floor = _onepct_case(d, key, run, want, info, 'coalescent-1.5pct')
            tf_cap = min(T / (40.0 * nu) for nu, T in eps)
            _ratio_case(d, key, run, want, tf_cap, F0, floor, info)
    finally:
        Integration.timescale_factor = tf_saved
    return d.results()


def drv_growth(tier, shard, per):
    import numpy as np
    import dadi
    from dadi import Numerics, Integration, Demographics1D
    nmax = 20 if tier == 'quick' else 30
    d = _driver('growth.%d' % shard,
                bound='shard %d: %d draws of Demographics1D.growth(nu,T) / bottlegrowth_1d(nuB,nuF,T) (nu as a function of time), '
                      'nu in [0.05,20], T in [0.005,3] log-uniform, n in 2..%d, pts=(p,p+10,p+20), p=max(60,n+30), linear/log '
                      'extrapolation; oracle: Kingman death process on the exact coalescent clock of exponential growth (mpmath '
                      'quadrature); 1.5%% at timescale_factor=1e-4 and first-order error ratios in [1.5,2.6] (as in coal.*) where the epoch is >= 40 steps.' % (shard, per, nmax))
    tf_saved = Integration.timescale_factor
    try:
        corners = [('growth', 1.0, 20.0, 0.05), ('growth', 1.0, 0.05, 3.0), ('bottle', 0.05, 20.0, 0.3), ('bottle', 20.0, 0.05, 1.0),
                   ('bottle', 2.0, 2.0, 0.5), ('growth', 1.0, 1.0, 0.7)]
        cases = corners[shard::4][:1] if tier == 'quick' else corners[shard::8]
        for i in range(per):
            lu = lambda a, b: math.exp(d.rng.uniform(math.log(a), math.log(b)))
            kind = 'growth' if i % 2 == 0 else 'bottle'
            nuF = lu(0.05, 20)
            nuB = 1.0 if kind == 'growth' else lu(0.05, 20)
            lo = 0.005 if i % 4 >= 2 else min(max(0.005, 0.32 * max(nuB, nuF)), 3.0)
            cases.append((kind, nuB, nuF, lu(lo, 3)))
        for kind, nuB, nuF, T in cases:
            n = d.rng.randint(2, nmax)
            log = bool(d.rng.getrandbits(1))
            pts = _pts_for(n)
            if kind == 'growth':
                func, params = Demographics1D.growth, (nuF, T)
            else:
                func, params = Demographics1D.bottlegrowth_1d, (nuB, nuF, T)
            fex = (Numerics.make_extrap_log_func if log else Numerics.make_extrap_func)(func)
            want = np.array(sfs_expgrowth(n, nuB, nuF, T))

            def run(tf):
                Integration.timescale_factor = tf
                try:
                    fs = fex(params, (n,), pts)
                finally:
                    Integration.timescale_factor = tf_saved
                return _poly(fs) if fs.shape == (n + 1,) else np.full(n - 1, np.nan)

            info = dict(model=kind, nuB=nuB, nuF=nuF, T=T, n=n, pts=pts, log_extrap=log)
            key = (kind, nuB, nuF, T, n, log)
            F0, floor = _onepct_case(d, key, run, want, info, 'growth-1.5pct')
            _ratio_case(d, key, run, want, T / (160.0 * max(nuB, nuF)), F0, floor, info)    # >= 40 steps: nu varies within the epoch
    finally:
        Integration.timescale_factor = tf_saved
    return d.results()


def drv_gridmin(tier):
    """Grid lists starting at the sample size: convergence under grid refinement (the 1.5% clause is asserted on p>=max(40,n+10))."""
    import numpy as np
    import dadi
    from dadi import Numerics, Integration, Demographics1D
    d = _driver('gridmin', bound='two_epoch/three_epoch at 6 histories x n in {2,5,10,20,30}, grid lists (n+a,n+a+10,n+a+20) for '
                                 'a=0,10,30,60 (smallest grid = sample size), timescale_factor=1e-4: spectrum finite, positive, of '
                                 'shape n+1; error vs exact coalescent expectation non-increasing '
                                 '(x1.1 slack, floor 2e-3) along the refinement sequence, <= 1.5% for a>=30')
    tf_saved = Integration.timescale_factor
    hist = [[(2.0, 0.5)], [(0.1, 0.1)], [(10.0, 0.05)], [(0.2, 0.3), (5.0, 0.2)], [(8.0, 1.0), (0.5, 0.1)], [(0.05, 0.01)]]
    ns = [2, 5, 10, 20, 30] if tier != 'quick' else [2, 10, 20]
    try:
        Integration.timescale_factor = DEFAULT_TF / 10
        for eps in hist:
            for n in ns:
                for log in (False, True):
                    if len(eps) == 1:
                        func, params = Demographics1D.two_epoch, eps[0]
                    else:
                        func, params = Demographics1D.three_epoch, (eps[0][0], eps[1][0], eps[0][1], eps[1][1])
                    fex = (Numerics.make_extrap_log_func if log else Numerics.make_extrap_func)(func)
                    want = np.array(sfs_piecewise(n, eps))
                    errs = []
                    for a in (0, 10, 30, 60):
                        pts = [max(n + a, 4), max(n + a, 4) + 10, max(n + a, 4) + 20]
                        fs = fex(params, (n,), pts)
                        g = _poly(fs)
                        okshape = fs.shape == (n + 1,) and bool(np.all(np.isfinite(g))) and bool(np.all(g > 0))
                        errs.append(_relerr(g, want) if okshape else float('inf'))
                    ok = errs[0] <= 0.5 and all(errs[i + 1] <= max(1.1 * errs[i], 2e-3) for i in range(3)) and max(errs[2:]) <= 0.015
                    d.case((tuple(eps), n, log), ok, dict(epochs=[list(e) for e in eps], n=n, log_extrap=log, errs=errs),
                           fail_key='grid-refinement')
    finally:
        Integration.timescale_factor = tf_saved
    return d.results()


def drv_seleq(tier, shard, nshards):
    import numpy as np
    import dadi
    from dadi import Numerics, PhiManip, Integration, Spectrum
    from dadi.DFE import DemogSelModels
    d = _driver('seleq.%d' % shard,
                bound='closed-form drift-selection-mutation equilibrium (graded Gauss-Legendre, numpy) vs '
                      '(a) DemogSelModels.equil(gamma), (b) from_phi(phi_1D(nu,theta0,gamma,h,beta)), (c) two_epoch_sel(nu<=0.3,T=3,gamma) '
                      'at timescale_factor=1e-4 (relaxed to the new equilibrium: exp(-T/nu)<=5e-5, |S|<=5, every entry within 1.5% at G1); '
                      'S=gamma*nu*4beta/(beta+1)^2 in [-1000,1000], h in {0,.1,...,1}, nu in [0.1,10], theta0 in [0.1,10], beta in [0.2,5], '
                      'n in 2..20, linear and log extrapolation, grid lists G1=(p,p+10,p+20), p=max(60,n+40), and G2=2*G1. Contract '
                      '(convergence under grid refinement to the closed form): entries >= 1e-6 of the largest within 1.5% at G2 and their '
                      'error at G2 <= max(half the error at G1, 1e-4); every entry within 1.5% at G1 for |S|<=3 and at G2 for |S|<=10')
    tf_saved = Integration.timescale_factor

    def phimodel(params, ns, pts):
        nu, theta0, gamma, h, beta = params
        xx = Numerics.default_grid(pts)
        phi = PhiManip.phi_1D(xx, nu=nu, theta0=theta0, gamma=gamma, h=h, beta=beta)
        return Spectrum.from_phi(phi, ns, (xx,))

    cases = []
    gam_mod = [-10.0, -3.0, -1.0, -0.1, -1e-4, 1e-4, 0.1, 1.0, 3.0, 10.0, 100.0, 1000.0]
    hs = [i / 10.0 for i in range(11)]
    # (a) equil
    for g in gam_mod:
        cases.append(('equil', 1.0, 1.0, g, 0.5, 1.0))
    # (b) phi_1D with all scalings; nu=1 rows first (expected to hold), then nu!=1 (the nu*gamma question)
    rng = d.rng
    nb = 30 if tier == 'quick' else 150
    for i in range(nb):
        lu = lambda a, b: math.exp(rng.uniform(math.log(a), math.log(b)))
        h = rng.choice(hs)
        beta = rng.choice([1.0, 1.0, lu(0.2, 5)])
        theta0 = rng.choice([1.0, lu(0.1, 10)])
        nu = 1.0 if i % 3 else lu(0.1, 10)
        k = 4 * beta / (beta + 1) ** 2
        S = rng.choice(gam_mod) if i % 2 else rng.choice([-1, 1]) * lu(1e-3, 10)
        cases.append(('phi', nu, theta0, S / (nu * k) if rng.random() < 0.5 else S, h, beta))
    # gamma = 0 with nu != 1 (must hold: no selection, nu enters linearly)
    for nu in (0.1, 3.0, 10.0):
        cases.append(('phi', nu, 2.0, 0.0, 0.3, 1.0))
        cases.append(('phi', nu, 1.0, 0.0, 0.5, 2.5))
    # (c) two_epoch_sel relaxed to equilibrium at nu
    for nu, g in [(0.1, -20.0), (0.2, 5.0), (0.3, -3.0), (0.15, 30.0), (0.3, -10.0), (0.1, 1.0)]:
        cases.append(('two_epoch_sel', nu, 1.0, g, 0.5, 1.0))
    # strong negative selection: convergence under grid refinement
    for S, h in [(-30.0, 0.5), (-100.0, 0.2), (-300.0, 0.5), (-1000.0, 0.9), (-50.0, 0.0), (-200.0, 1.0)]:
        cases.append(('phi', 1.0, 1.0, S, h, 1.0))

    try:
        for ci, (kind, nu, theta0, gamma, h, beta) in enumerate(cases):
            if ci % nshards != shard:
                continue
            n = rng.randint(2, 20)
            log = bool(rng.getrandbits(1))
            k = 4 * beta / (beta + 1) ** 2
            S = gamma * nu * k
            info = dict(kind=kind, nu=nu, theta0=theta0, gamma=gamma, h=h, beta=beta, n=n, log_extrap=log, S=S)
            key = (kind, nu, theta0, gamma, h, beta, n, log)
            mk = Numerics.make_extrap_log_func if log else Numerics.make_extrap_func
            p0 = max(60, n + 40)
            G1 = [p0, p0 + 10, p0 + 20]
            G2 = [2 * p0, 2 * p0 + 20, 2 * p0 + 40]
            fk = 'seleq-value'
            if kind == 'phi' and nu != 1.0 and gamma != 0:
                fk = 'phi1D-nu-selection-stationarity'      # known: phi_1D uses gamma, not gamma*nu
            if kind == 'two_epoch_sel':
                want = sel_sfs(n, gamma, 0.5, nu)          # equilibrium of a population of size nu under the same s: gamma*nu
                Integration.timescale_factor = DEFAULT_TF / 10
                try:
                    fs = mk(DemogSelModels.two_epoch_sel)((nu, 3.0, gamma), (n,), G1)
                finally:
                    Integration.timescale_factor = tf_saved
                err = _relerr(_poly(fs), want) if fs.shape == (n + 1,) else float('inf')
                d.case(key, err <= 0.015, dict(info, pts=G1, max_rel_err=err), fail_key='two-epoch-sel-equilibrium')
                continue
            want = sel_sfs(n, gamma, h, nu, theta0, beta)
            big = want >= 1e-6 * want.max()
            e_all, e_big = [], []
            for pts in (G1, G2):
                if kind == 'equil':
                    fs = mk(DemogSelModels.equil)([gamma], (n,), pts)
                else:
                    fs = mk(phimodel)((nu, theta0, gamma, h, beta), (n,), pts)
                got = _poly(fs)
                if fs.shape != (n + 1,) or not np.all(np.isfinite(got)):
                    e_all.append(float('inf'))
                    e_big.append(float('inf'))
                else:
                    r = np.abs(got / want - 1)
                    e_all.append(float(r.max()))
                    e_big.append(float(r[big].max()))
            ok = e_big[1] <= 0.015 and e_big[1] <= max(e_big[0] / 2, 1e-4)
            if abs(S) <= 3:
                ok = ok and e_all[0] <= 0.015
            if abs(S) <= 10:
                ok = ok and e_all[1] <= 0.015
            d.case(key, ok, dict(info, pts=[G1, G2], err_all_entries=e_all, err_entries_above_1e6_of_max=e_big), fail_key=fk)
    finally:
        Integration.timescale_factor = tf_saved
    return d.results()


def _gamma_grid(tier):
    ng = 12 if tier == 'quick' else 100
    neg = [-10.0 ** (-4 + 10.0 * i / (ng - 1)) for i in range(ng)]           # -1e-4 .. -1e6
    pos = [10.0 ** (-4 + 7.0 * i / (ng // 2 - 1)) for i in range(ng // 2)]   # 1e-4 .. 1e3
    special = [0.0, -1e6, 1e3, -300.0, 300.0, -299.999, -300.001, 299.999, 300.001, -354.0, -355.0, -709.0, -710.0, -745.0,
               -1e-7, 1e-7, -1e-10, 1e-10]
    return sorted(set(neg + pos + special))


def _phi_failkey(h, geff, nu=1.0):
    """geff = gamma*4beta/(beta+1)^2; the code's effective coefficient is geff or geff*nu depending on the tree."""
    for g in (geff, geff * nu):
        if h != 0.5 and -354.9 < g < -353.0:
            return 'phi1D-qadjust-guard-overflow'
        if h == 0.5 and 0 < abs(g) < 1e-6:
            return 'phi1D-genic-small-gamma-cancellation'
        if h != 0.5 and g < -2.0e6:
            # exp(-Q) is a spike of width ~1/|gamma| at x = 1 that the 41-point quadrature no longer resolves: int0 underflows to 0
            return 'phi1D-general-h-quadrature-unresolved-extreme-gamma'
    return 'phi1D-finite-nonneg'


def drv_phi(tier, h):
    import warnings
    import numpy as np
    import dadi
    from dadi import Numerics, PhiManip
    d = _driver('phi1D.h%02d' % int(round(h * 10)),
                bound='phi_1D(xx,nu,theta0,gamma,h=%.1f,beta) on default_grid(24) (and (16) in thorough): gamma grid of %d points on '
                      '[-1e6,-1e-4] U {0} U [1e-4,1e3] incl. both sides of +-300 and of the exp(-2gamma) overflow point, window '
                      '(-354.9,-353] scanned at 0.1; (nu,theta0,beta) in {(1,1,1),(0.1,3,1),(10,0.5,0.3),(2,1,4)}: every value '
                      'finite and >= 0, phi[0]==phi[1], result scales linearly in theta0' % (h, len(_gamma_grid(tier))))
    np.seterr(all='ignore')
    warnings.simplefilter('ignore')
    grids = [24] if tier == 'quick' else [24, 16]
    combos = [(1.0, 1.0, 1.0), (0.1, 3.0, 1.0), (10.0, 0.5, 0.3), (2.0, 1.0, 4.0)]
    gam = _gamma_grid(tier)
    window = [-354.9 + 0.1 * i for i in range(20)]
    for pts in grids:
        xx = Numerics.default_grid(pts)
        for ci, (nu, theta0, beta) in enumerate(combos):
            if tier == 'quick' and ci >= 2 and h not in (0.5,):
                continue
            k = 4 * beta / (beta + 1) ** 2
            for g in gam + [w / k for w in window] + ([w / (k * nu) for w in window] if nu != 1.0 else []):
                geff = g * k

                def fn():
                    phi = PhiManip.phi_1D(xx, nu=nu, theta0=theta0, gamma=g, h=h, beta=beta)
                    ok = phi.shape == xx.shape and bool(np.all(np.isfinite(phi))) and bool(np.all(phi >= 0)) and phi[0] == phi[1]
                    extra = {}
                    if not ok:
                        extra = dict(nonfinite_at=[int(i) for i in np.where(~np.isfinite(phi))[0][:5]],
                                     negative_at=[int(i) for i in np.where(phi < 0)[0][:5]])
                    return ok, extra
                d.check((pts, nu, theta0, beta, g), fn, dict(pts=pts, nu=nu, theta0=theta0, beta=beta, gamma=g, h=h, gamma_eff=geff),
                        fail_key=_phi_failkey(h, geff, nu))
            # linear scaling in theta0 and nu prefactor (one moderate gamma)
            a = PhiManip.phi_1D(xx, nu=nu, theta0=theta0, gamma=-2.5, h=h, beta=beta)
            b = PhiManip.phi_1D(xx, nu=nu, theta0=2 * theta0, gamma=-2.5, h=h, beta=beta)
            d.case((pts, nu, theta0, beta, 'theta0-linear'), bool(np.allclose(b, 2 * a, rtol=1e-12, atol=0)),
                   dict(pts=pts, nu=nu, theta0=theta0, beta=beta, h=h), fail_key='phi1D-theta0-linear')
    return d.results()


def drv_phi_switch(tier):
    """Continuity across the numerical regime switches."""
    import warnings
    import numpy as np
    import dadi
    from dadi import Numerics, PhiManip
    d = _driver('phi1D.switch',
                bound='one-sided limits of phi_1D across gamma=0 (delta in 1e-3..5e-324, both signs), gamma_eff=+-300 (genic guards), '
                      'gamma_eff=-354.89.. (exp(-2 gamma)=inf, Qadjust) and h=0.5 (closed form vs quadrature) for h in {0,.2,.5,.8,1}, '
                      'beta in {1,0.3}, nu in {1,4}, gamma for the h-switch in 14 values on [-1e5,1e3]; grid default_grid(24): '
                      '|a-b| <= 1e-6*max(|a|,|b|) + 1e-100*max|phi| + analytic variation (8*nu*|delta| relative for gamma=0)')
    np.seterr(all='ignore')
    warnings.simplefilter('ignore')
    xx = Numerics.default_grid(24)
    P = PhiManip.phi_1D

    def dist(a, b, extra_rel=0.0):
        if not (np.all(np.isfinite(a)) and np.all(np.isfinite(b))):
            return float('inf')
        sc = np.maximum(np.abs(a), np.abs(b))
        return float(np.max((np.abs(a - b) - extra_rel * sc) / (sc + 1e-100 * np.max(sc) + 1e-300)))

    for beta in (1.0, 0.3):
        k = 4 * beta / (beta + 1) ** 2
        for nu in (1.0, 4.0):
            for h in (0.0, 0.2, 0.5, 0.8, 1.0):
                base = dict(h=h, beta=beta, nu=nu)
                # gamma -> 0
                p0 = P(xx, nu=nu, gamma=0.0, h=h, beta=beta)
                for delta in (1e-3, 1e-5, 1e-7, 1e-9, 1e-12, 1e-15, 1e-17, 1e-100, 5e-324):
                    for sg in (1, -1):
                        g = sg * delta
                        dd = dist(P(xx, nu=nu, gamma=g, h=h, beta=beta), p0, extra_rel=8 * nu * delta)
                        d.case(('g0', h, beta, nu, g), dd <= 1e-6, dict(base, switch='gamma=0', gamma=g, rel_jump=dd),
                               fail_key='phi1D-genic-small-gamma-cancellation' if h == 0.5 else 'phi1D-continuity-gamma0')
                # |gamma_eff| = 300 and the exp overflow point
                thr = -709.782712893384 / 2
                for name, g0 in (('-300', -300.0), ('+300', 300.0), ('exp-overflow', thr)):
                    # the switch sits at gamma*k = g0 or gamma*nu*k = g0 depending on how nu enters; both are probed
                    for scale in sorted(set([k, k * nu])):
                        ga, gb = g0 * (1 - 1e-9) / scale, g0 * (1 + 1e-9) / scale
                        dd = dist(P(xx, nu=nu, gamma=ga, h=h, beta=beta), P(xx, nu=nu, gamma=gb, h=h, beta=beta), extra_rel=4e-6)
                        fk = 'phi1D-continuity-%s' % name
                        if name == 'exp-overflow' and h != 0.5:
                            fk = 'phi1D-qadjust-guard-overflow'
                        d.case((name, h, beta, nu, scale), dd <= 1e-6, dict(base, switch='gamma_eff=%s' % name, gammas=[ga, gb], rel_jump=dd),
                               fail_key=fk)
            # h -> 0.5
            for g in (-1e5, -2000.0, -400.0, -354.0, -300.0, -50.0, -1.0, -1e-3, 1e-3, 1.0, 50.0, 300.0, 301.0, 1000.0):
                pg = P(xx, nu=nu, gamma=g, h=0.5, beta=beta)
                for dh in (1e-9, -1e-9, 1e-12):
                    dd = dist(P(xx, nu=nu, gamma=g, h=0.5 + dh, beta=beta), pg, extra_rel=8 * nu * abs(g) * abs(dh))
                    d.case(('h', g, dh, beta, nu), dd <= 1e-6, dict(beta=beta, nu=nu, switch='h=0.5', gamma=g, dh=dh, rel_jump=dd),
                           fail_key=_phi_failkey(0.5 + dh, g * k, nu) if dd == float('inf') else 'phi1D-continuity-h0.5')
    return d.results()


def drv_stationary(tier, shard, nshards):
    import warnings
    import numpy as np
    import dadi
    from dadi import Numerics, PhiManip, Integration, Spectrum
    d = _driver('stationary.%d' % shard,
                bound='drift(pts) = max rel. change of from_phi(n=10) between phi_1D(nu,theta0,gamma,h,beta) and the same density '
                      'integrated by one_pop for T=2 under the same (nu,gamma,h,theta0,beta), pts in (40,80,160), default timescale_factor; '
                      'nu in {0.1,0.5,1,2,10}, gamma in {0,-3,5,-20,40}, h in {0.5,0.2,1.0}, beta in {1,3}, theta0 in {1,2.5}: '
                      'drift(160) <= max(drift(40)/2.25, 1e-7) (vanishes under refinement at >= 1.5x per doubling); the beta = 3 cases are run a second time with nu '
                      'passed as a function of time (time-dependent driver / compiled kernel)')
    np.seterr(all='ignore')
    warnings.simplefilter('ignore')
    n = 10
    nus = [1.0, 0.1, 0.5, 2.0, 10.0]
    gams = [0.0, -3.0, 5.0, -20.0, 40.0]
    hs = [0.5, 0.2, 1.0]
    cases = []
    for nu in nus:
        for g in gams:
            for h in hs:
                for beta, theta0 in ((1.0, 1.0), (3.0, 2.5)):
                    cases.append((nu, g, h, beta, theta0))
    if tier == 'quick':
        cases = [c for i, c in enumerate(cases) if c[3] == 1.0 and (c[2] == 0.5 or i % 3 == 0) and abs(c[1]) <= 20] + \
                [(1.0, -3.0, 0.5, 3.0, 2.5), (1.0, 5.0, 0.2, 3.0, 2.5), (2.0, 0.0, 0.5, 3.0, 2.5)]
    # the time-dependent driver (compiled kernel) is a different code path from the constant-parameter one: run the beta != 1 cases through both
    cases = [c + (False,) for c in cases] + [c + (True,) for c in cases if c[3] != 1.0]
    for ci, (nu, g, h, beta, theta0, via_func) in enumerate(cases):
        if ci % nshards != shard:
            continue
        drift = []
        for pts in (40, 80, 160):
            xx = Numerics.default_grid(pts)
            phi = PhiManip.phi_1D(xx, nu=nu, theta0=theta0, gamma=g, h=h, beta=beta)
            f0 = _poly(Spectrum.from_phi(phi, (n,), (xx,)))
            nu_arg = (lambda t, _nu=nu: _nu) if via_func else nu
            phi2 = Integration.one_pop(phi, xx, 2.0, nu=nu_arg, gamma=g, h=h, theta0=theta0, beta=beta)
            f1 = _poly(Spectrum.from_phi(phi2, (n,), (xx,)))
            drift.append(_relerr(f1, f0))
        ok = drift[2] <= max(drift[0] / 2.25, 1e-7)
        fk = 'phi1D-nu-selection-stationarity' if (nu != 1.0 and g != 0.0) else 'stationarity'
        if via_func:
            fk += '-time-dependent-driver'
        d.case((nu, g, h, beta, theta0) + (('func',) if via_func else ()), ok,
               dict(nu=nu, gamma=g, h=h, beta=beta, theta0=theta0, T=2.0, n=n, drift_40_80_160=drift, nu_passed_as_function=via_func), fail_key=fk)
    return d.results()


def drv_initial_t(tier):
    """An epoch integrated from initial_t to T lasts T - initial_t: constant parameters (the *_const_params shortcut) and the same constants
    passed as functions of time (the general driver) both agree with the integration of the same duration started at 0."""
    import numpy as np
    import dadi
    d = _driver('initial_t', bound='%d draws: grid 20..40 points, duration 0.01..0.5, initial_t 0.05..2, nu 0.2..5, gamma -5..5, h 0.5 or 0.2; '
                                   'one_pop(phi, xx, T, ..., initial_t=t0) with constants and with constant functions of time against '
                                   'one_pop(phi, xx, T - t0, ...) started at 0, rtol 1e-7' % (12 if tier == 'quick' else 120))
    rng = d.rng
    for i in range(12 if tier == 'quick' else 120):
        pts = rng.randint(20, 40)
        xx = dadi.Numerics.default_grid(pts)
        phi0 = dadi.PhiManip.phi_1D(xx)
        dur, t0 = rng.uniform(0.01, 0.5), rng.uniform(0.05, 2.0)
        nu, gamma, h = rng.uniform(0.2, 5.0), rng.uniform(-5, 5), rng.choice([0.5, 0.2])
        info = dict(pts=pts, duration=dur, initial_t=t0, nu=nu, gamma=gamma, h=h)

        def run(const):
            kw = dict(nu=nu, gamma=gamma, h=h) if const else dict(nu=lambda t: nu, gamma=lambda t: gamma, h=lambda t: h)
            ref = np.array(dadi.Integration.one_pop(phi0.copy(), xx, dur, **kw))
            got = np.array(dadi.Integration.one_pop(phi0.copy(), xx, t0 + dur, initial_t=t0, **kw))
            err = float(np.max(np.abs(got - ref) / (np.abs(ref) + 1e-300)))
            return err <= 1e-7, dict(rel_err=err)
        d.check(('const', i), lambda: run(True), info, fail_key='const-driver-duration-not-T-minus-initial_t')
        d.check(('func', i), lambda: run(False), info, fail_key='general-driver-duration-not-T-minus-initial_t')
    return d.results()


def drv_oracle(tier):
    """Self-checks of the oracles (no dadi numerics involved except reading the default timescale_factor)."""
    import numpy as np
    import mpmath as mp
    import dadi
    d = _driver('oracle', bound='oracle cross-checks: constant size = theta/b (n<=30, 1e-25); partial-fraction death-process oracle vs '
                                'mpmath matrix exponential of the Kingman generator (n<=12, 12 histories, 1e-20); exponential-growth '
                                'quadrature oracle vs piecewise-constant oracle at nuB=nuF and vs 200-step staircase (2% of the change); '
                                'selection oracle vs genic closed form integrated by mpmath (1e-5) and vs theta/b at gamma=0; '
                                'dadi.Integration.timescale_factor == 1e-3 at import')
    d.case('tf-default', dadi.Integration.timescale_factor == DEFAULT_TF, dict(tf=dadi.Integration.timescale_factor), fail_key='default-tf-changed')
    for n in (2, 3, 7, 20, 30):
        for eps in ([], [(1.0, 0.7)], [(1.0, 0.1), (1.0, 2.0)]):
            got = sfs_piecewise(n, eps, 3)
            ok = all(abs(g * b / 3.0 - 1) < 1e-14 for b, g in zip(range(1, n), got))
            d.case(('const', n, len(eps)), ok, dict(n=n, epochs=eps), fail_key='oracle')
    rng = d.rng
    for i in range(12):
        n = rng.randint(2, 12)
        eps = _draw_history(rng, False)
        a, b = sfs_piecewise(n, eps), sfs_expm(n, eps)
        d.case(('expm', n, tuple(eps)), max(abs(x / y - 1) for x, y in zip(a, b)) < 1e-12, dict(n=n, epochs=eps, a=a, b=b), fail_key='oracle')
    for n, nuB, nuF, T in ((8, 2.0, 2.0, 0.4), (5, 0.3, 0.3, 1.0)):
        a, b = sfs_expgrowth(n, nuB, nuF, T), sfs_piecewise(n, [(nuB, T)])
        d.case(('growth-const', n, nuB, T), max(abs(x / y - 1) for x, y in zip(a, b)) < 1e-12, dict(a=a, b=b), fail_key='oracle')
    for n, nuB, nuF, T in ((14, 20.0, 0.05, 3.0), (9, 0.05, 20.0, 0.01)):
        a, b = sfs_expgrowth(n, nuB, nuF, T), sfs_expgrowth(n, nuB, nuF, T, method='tanh-sinh', dps=60)
        d.case(('growth-quadrature', n, nuB, nuF, T), max(abs(x / y - 1) for x, y in zip(a, b)) < 1e-12, dict(a=a, b=b), fail_key='oracle')
    for n, nuB, nuF, T in ((8, 1.0, 5.0, 0.4), (6, 3.0, 0.2, 0.8)):
        K = 200
        stair = [(nuB * (nuF / nuB) ** ((i + 0.5) / K), T / K) for i in range(K)]
        a, b, c = sfs_expgrowth(n, nuB, nuF, T), sfs_piecewise(n, stair), [1.0 / bb for bb in range(1, n)]
        ok = all(abs(x - y) <= 0.02 * abs(x - z) + 1e-6 for x, y, z in zip(a, b, c))
        d.case(('growth-stair', n, nuB, nuF, T), ok, dict(a=a, b=b), fail_key='oracle')
    for n in ((2, 6) if tier == 'quick' else (2, 6, 15)):
        w = sel_sfs(n, 0.0, 0.3, 2.0, 1.5, 2.0)
        k = 4 * 2.0 / 9.0
        d.case(('sel-neutral', n), bool(np.allclose(w, [1.5 * 2.0 * k / b for b in range(1, n)], rtol=1e-10)), dict(n=n, got=list(w)), fail_key='oracle')
        for S in (-1000.0, -30.0, -2.0, 0.5, 40.0, 900.0):
            w = sel_sfs(n, S)
            Sm = mp.mpf(S)
            br = [0] + [mp.mpf(10) ** (-kk / 2.0) for kk in range(18, 1, -1)] + [.25, .5, .75] + [1 - mp.mpf(10) ** (-kk / 2.0) for kk in range(2, 19)] + [1]
            w2 = [float(mp.quad(lambda x: comb(n, i) * x ** (i - 1) * (1 - x) ** (n - i - 1) * mp.expm1(-2 * Sm * (1 - x)) / mp.expm1(-2 * Sm), br))
                  for i in range(1, n)]
            d.case(('sel-genic', n, S), max(abs(a / b - 1) for a, b in zip(w, w2)) < 1e-5, dict(n=n, S=S, a=list(w), b=w2), fail_key='oracle')
    return d.results()
