"""E4 bounded driver for C04: mass leaves only via the fixation/loss corners; frozen and isolated marginals are exact;
frozen/nomut populations get no mutations; frozen + migration is rejected.

Oracles are conservation identities evaluated with explicit trapezoid weights (own tensordot marginalisation), never a dadi
integration path as the only witness:
  * frozen marginal:     M_k[phi_out](x_j) = M_k[phi_in](x_j) for interior j (and the joint marginal of all frozen axes away
                         from the all-0 / all-1 points),
  * isolated marginal:   with m = gamma = 0, M_S[F_full(phi)] = F_S(M_S[phi]) away from the two S-corners, F_S run with the time
                         steps of the full run,
  * mass balance:        one step, mass_out - mass_in = sum_active dt*theta0/(2 x_1) - sum_k dt/nu_k (phi_k[0..0] W_0/dx_0 +
                         phi_k[-1..-1] W_1/dx_last), phi_k the state after the sweep of axis k (observed by replaying the step
                         with the per-axis kernels), and per sweep mass changes by exactly its corner term,
  * exact zeros for populations that must not receive mutations, ValueError for frozen + migration.
"""
import itertools
import math

from vf.core import Task
from vf.bounded import Driver
from props.bounded_C02 import make_grid, make_phi, draw_h, own_dt, trap_w, kname, FUNCS, PAIR_NAMES, GRID_KINDS, _small
from props.bounded_C03 import draw_model_params, functionalize, build_kwargs, p0_of, sinfo, mk, spec0, draw_spec, relerr

TOL = 1e-11
PTS = {2: (5, 12), 3: (5, 9), 4: (4, 7), 5: (4, 6)}


def tasks(tier):
    q = tier == 'quick'
    mult = 1 if q else 80
    ts = []
    for D in (2, 3, 4, 5):
        n = {2: 50, 3: 40, 4: 25, 5: 15}[D] * mult
        ts.append(Task('props.bounded_C04:drv_frozen_marginal', name='C04/bounded/frozen_marginal_%dpop' % D, D=D, n=n, tier=tier, timeout=900))
        ts.append(Task('props.bounded_C04:drv_isolated_marginal', name='C04/bounded/isolated_marginal_%dpop' % D, D=D, n=n, tier=tier, timeout=900))
        ts.append(Task('props.bounded_C04:drv_mass_balance', name='C04/bounded/mass_balance_%dpop' % D, D=D, n=2 * n, tier=tier, timeout=900))
        ts.append(Task('props.bounded_C04:drv_no_mutation', name='C04/bounded/no_mutation_%dpop' % D, D=D, n=n, tier=tier, timeout=900))
    ts.append(Task('props.bounded_C04:drv_frozen_migration', name='C04/bounded/frozen_migration_rejected', tier=tier, timeout=900))
    ts.append(Task('props.bounded_C04:drv_trapz', name='C04/bounded/trapz_marginal', n=(150 if q else 3000), tier=tier, timeout=900))
    return ts


# ------------------------------------------------------------------------------------------------
# own trapezoid machinery
# ------------------------------------------------------------------------------------------------

def marginal(phi, grids, keep):
    """Integrate out every axis not in `keep` with explicit trapezoid weights; remaining axes stay in increasing order."""
    import numpy as np
    out = np.asarray(phi, dtype=float)
    for ax in sorted((a for a in range(out.ndim) if a not in keep), reverse=True):
        out = np.tensordot(out, trap_w(grids[ax]), axes=([ax], [0]))
    return out


def mass(phi, grids):
    return float(marginal(phi, grids, ()))


def noncorner_mask(shape):
    import numpy as np
    m = np.ones(shape, dtype=bool)
    if len(shape):
        m[(0,) * len(shape)] = False
        m[tuple(s - 1 for s in shape)] = False
    return m


def interior_mask(shape):
    import numpy as np
    m = np.zeros(shape, dtype=bool)
    m[tuple(slice(1, s - 1) for s in shape)] = True
    return m


def masked_err(a, b, mask):
    import numpy as np
    if not (np.all(np.isfinite(a)) and np.all(np.isfinite(b))):
        return float('inf')
    if not mask.any():
        return 0.0
    sc = float(np.max(np.abs(b[mask])))
    return float(np.max(np.abs(a[mask] - b[mask])) / (sc if sc > 0 else 1.0))


def draw_grid_pts(rng, D):
    lo, hi = PTS[D]
    return make_grid(rng, rng.randint(lo, hi), rng.choice(GRID_KINDS[:4]))


def force_flags(rng, S, frozen, D):
    """Zero the migration rates that touch a frozen population (literal constants)."""
    for i, j in PAIR_NAMES[D]:
        if frozen[i] or frozen[j]:
            S['m%d%d' % (i + 1, j + 1)] = ('const', 0.0)
    return S


# ------------------------------------------------------------------------------------------------
# frozen marginals
# ------------------------------------------------------------------------------------------------

def drv_frozen_marginal(D, n, tier):
    import numpy as np
    import dadi
    from dadi import Integration, PhiManip
    fn = getattr(Integration, FUNCS[D])
    d = Driver('C04', 'frozen_marginal_%dpop' % D,
               bound='%d random runs of Integration.%s with every non-empty proper subset pattern of frozen populations drawn at random '
                     '(plus nomut flags in 2-D): grids of %d..%d points (uniform/exponential/quadratic/random monotone), 0.6..30 time steps, '
                     'the other populations with nu 0.05..20, gamma in [-20,20], h in [0,1] incl. 0,1/2,1, migration among themselves in '
                     '[0,10], theta0 in {0,1,1e-2..1e2}; arguments all constants (precomputed-coefficient path), or constants/lambdas/'
                     'functions of time; (i) marginal density of each frozen population at interior frequencies unchanged, (ii) joint '
                     'marginal of all frozen populations unchanged except at the all-0 and all-1 points, both to %g of the largest '
                     'marginal value; own trapezoid marginalisation, cross-checked against PhiManip.filter_pops to 1e-13'
                     % (n, FUNCS[D], PTS[D][0], PTS[D][1], TOL))
    rng, nprng = d.rng, d.nprng()
    saved = Integration.timescale_factor
    try:
        for ci in range(n):
            xx = draw_grid_pts(rng, D)
            grids = [xx] * D
            tsf = 10.0 ** rng.uniform(-3, -1)
            S, _, nomut = draw_model_params(rng, D)
            while True:
                frozen = [rng.random() < 0.45 for _ in range(D)]
                if any(frozen) and not all(frozen):
                    break
            for i, j in PAIR_NAMES[D]:
                if frozen[i] or frozen[j]:
                    S['m%d%d' % (i + 1, j + 1)] = ('const', 0.0)
                elif S['m%d%d' % (i + 1, j + 1)][1] == 0 and rng.random() < 0.7:
                    S['m%d%d' % (i + 1, j + 1)] = ('const', rng.uniform(0, 10))
            dt = own_dt(p0_of(S, D), D, tsf)
            T = dt * rng.choice([0.6, 1.0, rng.uniform(2, 8), rng.uniform(8, 30)])
            style = rng.choice(['const', 'func'])
            if style == 'func':
                S = force_flags(rng, functionalize(rng, S, T), frozen, D)
            th = draw_spec(rng, rng.choice([0.0, 1.0, 10.0 ** rng.uniform(-2, 2)]), T) if style == 'func' else \
                ('const', rng.choice([0.0, 1.0, 10.0 ** rng.uniform(-2, 2)]))
            phi0 = make_phi(rng, nprng, (len(xx),) * D)
            Integration.timescale_factor = tsf
            info = sinfo(S, frozen, nomut, D=D, xx=xx.tolist(), T=T, timescale_factor=tsf, theta0=list(th), style=style, phi0=_small(phi0))
            try:
                out = np.array(fn(phi0.copy(), xx, T, **build_kwargs(S, frozen, nomut, D, 1.0, th)), dtype=float, copy=True)
            except Exception as e:
                d.case(key=(D, ci), ok=False, info=dict(info, error=repr(e)), fail_key='frozen-marginal-exception')
                continue
            F = [k for k in range(D) if frozen[k]]
            worst = 0.0
            for k in F:
                m0, m1 = marginal(phi0, grids, (k,)), marginal(out, grids, (k,))
                worst = max(worst, masked_err(m1, m0, interior_mask(m0.shape)))
            d.case(key=(D, ci, 'single'), ok=worst <= TOL, info=dict(info, err=worst), fail_key='frozen-marginal')
            j0, j1 = marginal(phi0, grids, tuple(F)), marginal(out, grids, tuple(F))
            ej = masked_err(j1, j0, noncorner_mask(j0.shape))
            d.case(key=(D, ci, 'joint'), ok=ej <= TOL, info=dict(info, err=ej), fail_key='frozen-joint-marginal')
            # dadi's own marginalisation agrees with the explicit weights
            dm = PhiManip.filter_pops(out, xx, [k + 1 for k in F])
            ed = relerr(dm, j1)
            d.case(key=(D, ci, 'filter_pops'), ok=ed <= 1e-13, info=dict(info, err=ed), fail_key='filter-pops-vs-weights')
    finally:
        Integration.timescale_factor = saved
    return d.results()


# ------------------------------------------------------------------------------------------------
# isolated marginals (no migration, no selection)
# ------------------------------------------------------------------------------------------------

def drv_isolated_marginal(D, n, tier):
    import numpy as np
    import dadi
    from dadi import Integration
    fn = getattr(Integration, FUNCS[D])
    d = Driver('C04', 'isolated_marginal_%dpop' % D,
               bound='%d random runs of Integration.%s with all m = gamma = 0: grids of %d..%d points, nu_k 0.05..20 constants or functions '
                     'of time (exp/linear/sinusoidal/lambda), h arbitrary, theta0 in {0,1,1e-2..1e2}, random frozen flags (nomut in 2-D), '
                     '0.6..30 time steps; for every non-empty proper subset S of populations (all of them for 2-3 populations, 4 random '
                     'ones otherwise): the marginal over the other populations of the result equals, at every S-point other than all-0 '
                     'and all-1 (in particular at all interior frequencies), the integration of the marginal of the input by '
                     'one_pop..four_pops restricted to S, driven with the same sequence of time steps (one call per step, each '
                     'T <= its own dt), to %g of the largest compared value' % (n, FUNCS[D], PTS[D][0], PTS[D][1], TOL))
    rng, nprng = d.rng, d.nprng()
    saved = Integration.timescale_factor
    try:
        for ci in range(n):
            xx = draw_grid_pts(rng, D)
            grids = [xx] * D
            tsf = 10.0 ** rng.uniform(-3, -1)
            S, frozen, nomut = draw_model_params(rng, D)
            if all(frozen):
                frozen[rng.randrange(D)] = False
            for k in list(S):
                if k.startswith('m') or k.startswith('gamma'):
                    S[k] = ('const', 0.0)
            dt = own_dt(p0_of(S, D), D, tsf)
            T = dt * rng.choice([0.6, 1.0, rng.uniform(2, 8), rng.uniform(8, 30)])
            style = rng.choice(['const', 'func'])
            if style == 'func':
                S2 = functionalize(rng, S, T)
                for k in S2:
                    if k.startswith('nu') or k.startswith('h'):
                        S[k] = S2[k]
                if all(v[0] == 'const' for v in S.values()):
                    S['nu1'] = ('lambda0', S['nu1'][1])
            theta0 = rng.choice([0.0, 1.0, 10.0 ** rng.uniform(-2, 2)])
            phi0 = make_phi(rng, nprng, (len(xx),) * D)
            Integration.timescale_factor = tsf
            info = sinfo(S, frozen, nomut, D=D, xx=xx.tolist(), T=T, timescale_factor=tsf, theta0=theta0, style=style, phi0=_small(phi0))
            kw = build_kwargs(S, frozen, nomut, D, 1.0, ('const', theta0))
            try:
                out = np.array(fn(phi0.copy(), xx, T, **kw), dtype=float, copy=True)
            except Exception as e:
                d.case(key=(D, ci), ok=False, info=dict(info, error=repr(e)), fail_key='isolated-marginal-exception')
                continue
            nus = [mk(S['nu%d' % (k + 1)]) for k in range(D)]

            def nu_at(k, t):
                return nus[k](t) if callable(nus[k]) else nus[k]
            # the step sequence of the full run: dt = timescale_factor / max_k 1/(4 nu_k) from the parameters at the start of the step
            steps = []
            t = 0.0
            while t < T:
                dtk = min(tsf / (0.25 / nu_at(k, t)) for k in range(D))
                this = min(dtk, T - t)
                steps.append((t, t + this))
                t = t + this
            subsets = [s for r in range(1, D) for s in itertools.combinations(range(D), r)]
            if D >= 4:
                subsets = rng.sample(subsets, 4)
            for Sset in subsets:
                p = marginal(phi0, grids, Sset)
                sub = getattr(Integration, FUNCS[len(Sset)])
                skw = {}
                for new, k in enumerate(Sset):
                    sfx_new = '' if len(Sset) == 1 else str(new + 1)
                    skw['nu' + sfx_new] = kw['nu%d' % (k + 1)]
                    skw['h' + sfx_new] = kw['h%d' % (k + 1)]
                    if len(Sset) == 1:
                        skw['frozen'] = frozen[k]
                    else:
                        skw['frozen' + sfx_new] = frozen[k]
                th_sub = theta0
                if len(Sset) == 2:
                    skw['nomut1'], skw['nomut2'] = (nomut[Sset[0]], nomut[Sset[1]]) if D == 2 else (False, False)
                if len(Sset) == 1 and D == 2 and nomut[Sset[0]]:
                    th_sub = 0.0        # one_pop has no nomut flag
                skw['theta0'] = th_sub
                try:
                    for (ta, tb) in steps:
                        p = np.array(sub(np.array(p, dtype=float, copy=True), xx, tb, initial_t=ta, **skw), dtype=float, copy=True)
                except Exception as e:
                    d.case(key=(D, ci, Sset), ok=False, info=dict(info, subset=list(Sset), error=repr(e)), fail_key='isolated-marginal-exception')
                    continue
                got = marginal(out, grids, Sset)
                e_nc = masked_err(got, p, noncorner_mask(p.shape))
                e_in = masked_err(got, p, interior_mask(p.shape))
                d.case(key=(D, ci, Sset), ok=(e_in <= TOL and e_nc <= TOL), info=dict(info, subset=list(Sset), err_interior=e_in, err_noncorner=e_nc,
                       nsteps=len(steps)), fail_key=('isolated-marginal' if e_in > TOL else 'isolated-marginal-boundary'))
    finally:
        Integration.timescale_factor = saved
    return d.results()


# ------------------------------------------------------------------------------------------------
# mass balance over one step
# ------------------------------------------------------------------------------------------------

def drv_mass_balance(D, n, tier):
    import numpy as np
    import dadi
    import dadi.integration_c as int_c
    from dadi import Integration
    fn = getattr(Integration, FUNCS[D])
    d = Driver('C04', 'mass_balance_%dpop' % D,
               bound='%d random single steps (T = f dt, f in {1} U (0.05,1)) of Integration.%s: grids of %d..%d points, nu 0.05..20, gamma in '
                     '[-20,20], h in [0,1], distinct m in [0,10] among non-frozen populations, theta0 in {0,1,1e-2..1e3}, every pattern of '
                     'frozen (and nomut in 2-D) flags incl. all-but-one frozen, arguments all constants or all lambdas; the step is replayed '
                     'with own injection + dadi.integration_c.implicit_%dD* to observe the state after each sweep: (i) driver result equals '
                     'the replay to 1e-12, (ii) each sweep changes the trapezoid mass by exactly -dt/nu_k (phi[0..0] W0/dx_0 + phi[-1..-1] '
                     'W1/dx_last), nothing else, (iii) mass_out - mass_in = dt theta0/(2 x_1) * #(non-frozen, non-nomut) - sum of corner '
                     'outflows; (ii),(iii) to %g of mass_in + influx' % (n, FUNCS[D], PTS[D][0], PTS[D][1], D, TOL))
    rng, nprng = d.rng, d.nprng()
    saved = Integration.timescale_factor
    try:
        for ci in range(n):
            xx = draw_grid_pts(rng, D)
            grids = [xx] * D
            N = len(xx)
            dx = np.diff(xx)
            tsf = 10.0 ** rng.uniform(-3, -0.5)
            S, frozen, nomut = draw_model_params(rng, D)
            r = rng.random()
            if r < 0.25:
                frozen = [True] * D
                frozen[rng.randrange(D)] = False
            elif r < 0.5:
                frozen = [False] * D
            for i, j in PAIR_NAMES[D]:
                key = 'm%d%d' % (i + 1, j + 1)
                S[key] = ('const', 0.0) if (frozen[i] or frozen[j]) else ('const', rng.choice([0.0, rng.uniform(0, 10), rng.uniform(0, 10)]))
            dt = own_dt(p0_of(S, D), D, tsf)
            step = dt * (1.0 if rng.random() < 0.3 else rng.uniform(0.05, 1.0))
            theta0 = rng.choice([0.0, 1.0, 10.0 ** rng.uniform(-2, 3)])
            style = rng.choice(['const', 'func'])
            if style == 'func':
                S = {k: (('lambda0', v[1]) if not (k.startswith('m') and v[1] == 0) else v) for k, v in S.items()}
            phi0 = make_phi(rng, nprng, (N,) * D)
            Integration.timescale_factor = tsf
            info = sinfo(S, frozen, nomut, D=D, xx=xx.tolist(), T=step, timescale_factor=tsf, theta0=theta0, style=style, phi0=_small(phi0))
            try:
                out = np.array(fn(phi0.copy(), xx, step, **build_kwargs(S, frozen, nomut, D, 1.0, ('const', theta0))), dtype=float, copy=True)
            except Exception as e:
                d.case(key=(D, ci), ok=False, info=dict(info, error=repr(e)), fail_key='mass-balance-exception')
                continue
            # replay
            w = trap_w(xx)
            state = phi0.copy()
            nactive = 0
            for k in range(D):
                if frozen[k] or nomut[k]:
                    continue
                nactive += 1
                idx = tuple(1 if l == k else 0 for l in range(D))
                state[idx] += step * theta0 / 2 / xx[1] / (w[1] * w[0] ** (D - 1))
            influx = nactive * step * theta0 / (2 * xx[1])
            m_in = mass(phi0, grids)
            scale = abs(m_in) + influx
            scale = scale if scale > 0 else 1.0
            e_inj = abs(mass(state, grids) - m_in - influx) / scale
            P = p0_of(S, D)
            W0 = w[0] ** D
            W1 = w[-1] ** D
            total_out = 0.0
            worst_sweep = e_inj
            for k in range(D):
                if frozen[k]:
                    continue
                before = mass(state, grids)
                mlist = [P['m'][k][o] for o in range(D) if o != k]
                kern = getattr(int_c, 'implicit_' + kname(D, k))
                state = np.ascontiguousarray(state)
                kern(state, *grids, P['nu'][k], *mlist, P['gamma'][k], P['h'][k], step, 0)
                outflow = step / P['nu'][k] * (state[(0,) * D] * W0 / dx[0] + state[(N - 1,) * D] * W1 / dx[-1])
                total_out += outflow
                worst_sweep = max(worst_sweep, abs(mass(state, grids) - before + outflow) / scale)
            e_rep = relerr(out, state)
            e_bal = abs(mass(out, grids) - m_in - influx + total_out) / scale
            nontriv = not all(frozen)
            d.case(key=(D, ci, 'replay'), ok=e_rep <= 1e-12, info=dict(info, err=e_rep), nontrivial=nontriv, fail_key='mass-balance-replay')
            d.case(key=(D, ci, 'sweep'), ok=worst_sweep <= TOL, info=dict(info, err=worst_sweep), nontrivial=nontriv, fail_key='sweep-mass-leak')
            d.case(key=(D, ci, 'balance'), ok=e_bal <= TOL, info=dict(info, err=e_bal, influx=influx, outflow=total_out, mass_in=m_in),
                   nontrivial=nontriv, fail_key='mass-balance')
    finally:
        Integration.timescale_factor = saved
    return d.results()


# ------------------------------------------------------------------------------------------------
# no mutations into frozen / nomut populations
# ------------------------------------------------------------------------------------------------

def drv_no_mutation(D, n, tier):
    import numpy as np
    import dadi
    from dadi import Integration
    fn = getattr(Integration, FUNCS[D])
    d = Driver('C04', 'no_mutation_%dpop' % D,
               bound='%d random runs of Integration.%s started from phi = 0 with theta0 in [1e-2,1e3] (constant or function of time), '
                     '0.6..30 time steps, grids of %d..%d points, random parameters (nu 0.05..20, gamma, h, m among non-frozen populations), '
                     'every non-empty pattern of frozen flags (2-D: also nomut flags, the nomut population with gamma=0 and no immigration so '
                     'that nothing else can move mass along its axis); constants or functions of time: every entry with a positive index '
                     'along a frozen or nomut axis is exactly 0.0; all populations frozen/nomut => result identically 0; otherwise mass > 0'
                     % (n, FUNCS[D], PTS[D][0], PTS[D][1]))
    rng, nprng = d.rng, d.nprng()
    saved = Integration.timescale_factor
    try:
        for ci in range(n):
            xx = draw_grid_pts(rng, D)
            tsf = 10.0 ** rng.uniform(-3, -1)
            S, _, _ = draw_model_params(rng, D)
            frozen = [rng.random() < 0.4 for _ in range(D)]
            nomut = [False] * D
            if D == 2:
                nomut = [rng.random() < 0.5, rng.random() < 0.5]
            if not any(frozen) and not any(nomut):
                frozen[rng.randrange(D)] = True
            for i, j in PAIR_NAMES[D]:
                key = 'm%d%d' % (i + 1, j + 1)
                if frozen[i] or frozen[j] or nomut[i]:          # m_ij is migration into i
                    S[key] = ('const', 0.0)
                elif rng.random() < 0.7:
                    S[key] = ('const', rng.uniform(0, 10))
            for k in range(D):
                if nomut[k]:
                    S['gamma%d' % (k + 1)] = ('const', 0.0)
            dt = own_dt(p0_of(S, D), D, tsf)
            T = dt * rng.choice([0.6, 1.0, rng.uniform(2, 8), rng.uniform(8, 30)])
            style = rng.choice(['const', 'func'])
            th = ('const', 10.0 ** rng.uniform(-2, 3))
            if style == 'func':
                S = force_flags(rng, functionalize(rng, S, T), frozen, D)
                for i, j in PAIR_NAMES[D]:
                    if nomut[i]:
                        S['m%d%d' % (i + 1, j + 1)] = ('const', 0.0)
                for k in range(D):
                    if nomut[k]:
                        S['gamma%d' % (k + 1)] = ('const', 0.0)
                th = draw_spec(rng, th[1], T)
            Integration.timescale_factor = tsf
            info = sinfo(S, frozen, nomut, D=D, xx=xx.tolist(), T=T, timescale_factor=tsf, theta0=list(th), style=style)
            try:
                out = np.array(fn(np.zeros((len(xx),) * D), xx, T, **build_kwargs(S, frozen, nomut, D, 1.0, th)), dtype=float, copy=True)
            except Exception as e:
                d.case(key=(D, ci), ok=False, info=dict(info, error=repr(e)), fail_key='no-mutation-exception')
                continue
            bad = []
            for k in range(D):
                if frozen[k] or nomut[k]:
                    sl = [slice(None)] * D
                    sl[k] = slice(1, None)
                    if np.any(out[tuple(sl)] != 0.0):
                        bad.append(k + 1)
            silent = all(frozen[k] or nomut[k] for k in range(D))
            ok = not bad and (np.all(out == 0.0) if silent else float(np.sum(out)) > 0)
            d.case(key=(D, ci), ok=bool(ok), info=dict(info, populations_with_mass=bad, total=float(np.sum(out))),
                   fail_key='mutations-into-frozen-or-nomut' if bad else 'no-mutation-mass')
    finally:
        Integration.timescale_factor = saved
    return d.results()


# ------------------------------------------------------------------------------------------------
# frozen + migration is rejected
# ------------------------------------------------------------------------------------------------

def drv_frozen_migration(tier):
    import numpy as np
    import dadi
    from dadi import Integration
    d = Driver('C04', 'frozen_migration_rejected',
               bound='exhaustive for two_pops..five_pops: every single frozen population k x every single non-zero migration rate m_ij '
                     '(value 1e-300, 0.5 or 7; constant, numpy.float64, or lambda) -> ValueError iff k in {i,j} (a lambda is always rejected '
                     'when k in {i,j}); every pair of frozen populations with one rate; 6-point grid, T = 1e-3; all other parameters default; '
                     'quick: constants and lambdas; thorough: also numpy.float64 and three values')
    rng = d.rng
    xx = make_grid(rng, 6, 'exponential')
    vals = [0.5] if tier == 'quick' else [1e-300, 0.5, 7.0]
    for D in (2, 3, 4, 5):
        fn = getattr(Integration, FUNCS[D])
        phi0 = np.ones((6,) * D)
        fsets = [(k,) for k in range(D)] + (list(itertools.combinations(range(D), 2)) if D > 2 else [])
        for F in fsets:
            for (i, j) in PAIR_NAMES[D]:
                for v in vals:
                    for style in (['const', 'lambda'] if tier == 'quick' else ['const', 'float64', 'lambda']):
                        arg = v if style == 'const' else np.float64(v) if style == 'float64' else (lambda t, _v=v: _v)
                        kw = {'m%d%d' % (i + 1, j + 1): arg}
                        for k in F:
                            kw['frozen%d' % (k + 1)] = True
                        touches = any(k in (i, j) for k in F)
                        raised = None
                        try:
                            fn(phi0.copy(), xx, 1e-3, **kw)
                        except ValueError:
                            raised = 'ValueError'
                        except Exception as e:
                            raised = repr(e)
                        ok = (raised == 'ValueError') if touches else (raised is None)
                        d.case(key=(D, F, i, j, v, style), ok=ok, info=dict(D=D, frozen=[k + 1 for k in F], rate='m%d%d' % (i + 1, j + 1), value=v,
                               style=style, raised=raised, expected='ValueError' if touches else None),
                               fail_key='frozen-migration-not-rejected' if touches else 'unfrozen-migration-rejected')
    return d.results()


# ------------------------------------------------------------------------------------------------
# trapezoid marginalisation helpers of dadi
# ------------------------------------------------------------------------------------------------

def drv_trapz(n, tier):
    import numpy as np
    import dadi
    from dadi import Numerics, PhiManip
    d = Driver('C04', 'trapz_marginal',
               bound='%d random arrays of 1..5 dimensions (sizes 2..9 per axis, values of either sign), random monotone/uniform/exponential '
                     'grids: Numerics.trapz(y, xx, axis) (also negative axis and dx=) and PhiManip.remove_pop(phi, xx, popnum) equal '
                     'sum_i dx_i (y_i+y_{i+1})/2 along that axis (explicit index loop), PhiManip.filter_pops(phi, xx, tokeep) for a random '
                     'subset equals successive explicit integration; to 1e-13 of max|y|; inputs unmodified' % n)
    rng, nprng = d.rng, d.nprng()
    for ci in range(n):
        D = rng.randint(1, 5)
        same = rng.random() < 0.6
        if same:
            sizes = [rng.randint(2, 9)] * D
        else:
            sizes = [rng.randint(2, 9) for _ in range(D)]
        y = nprng.uniform(-1, 1, size=sizes) * 10.0 ** rng.uniform(-3, 3)
        y0 = y.copy()
        ax = rng.randrange(D)
        xx = make_grid(rng, sizes[ax], rng.choice(['uniform', 'exponential', 'random', 'interior']))
        dx = np.diff(xx)
        ym = np.moveaxis(y, ax, 0)
        want = np.zeros(ym.shape[1:])
        for i in range(sizes[ax] - 1):
            want = want + dx[i] * (ym[i] + ym[i + 1]) / 2.0
        info = dict(shape=sizes, axis=ax, xx=xx.tolist(), y=_small(y))
        try:
            g1 = Numerics.trapz(y, xx, axis=ax)
            g2 = Numerics.trapz(y, xx, axis=ax - D)
            g3 = Numerics.trapz(y, dx=dx, axis=ax)
            g4 = PhiManip.remove_pop(y, xx, ax + 1)
        except Exception as e:
            d.case(key=ci, ok=False, info=dict(info, error=repr(e)), fail_key='trapz-exception')
            continue
        errs = [relerr(g, want, float(np.max(np.abs(y)))) for g in (g1, g2, g3, g4)]     # |integral| <= max|y| * (x_last - x_0)
        d.case(key=(ci, 'trapz'), ok=max(errs) <= 1e-13 and np.array_equal(y, y0), info=dict(info, errs=errs), fail_key='trapz-value')
        if same and D >= 2:
            keep = sorted(rng.sample(range(D), rng.randint(1, D - 1)))
            try:
                g = PhiManip.filter_pops(y, xx, [k + 1 for k in keep])
            except Exception as e:
                d.case(key=(ci, 'filter'), ok=False, info=dict(info, keep=keep, error=repr(e)), fail_key='filter-pops-exception')
                continue
            wantf = marginal(y, [xx] * D, tuple(keep))
            e = relerr(g, wantf, float(np.max(np.abs(y))))
            d.case(key=(ci, 'filter'), ok=e <= 1e-13 and np.array_equal(y, y0), info=dict(info, keep=keep, err=e), fail_key='filter-pops-value')
    return d.results()
