"""C02 - every integration path in 1-5 populations solves the documented implicit scheme.

Functions under contract (sidecars in contracts/c_shared.py, contracts/c_kernels.py; nothing added to /repo):
  integration_shared.c : compute_dx, compute_xInt, compute_dfactor, compute_delj, compute_abc_nobc (+ lemma flux-form),
                         Vfunc, Vfunc_beta, Mfunc1D..5D (inlined into the kernel obligations against the documented formulas)
  tridiag.c            : tridiag_premalloc (loop invariants, ghost pivot history; + lemma rows), tridiag
  integration{1..5}D.c : 15 per-axis kernels + 5 precomputed-coefficient kernels (per-line contract, frame, bounds)
  Integration.py       : per-step wiring of the time-dependent drivers one_pop..five_pops (E2: one step, every parameter a function of time)
  integration_c.pyx    : argument order of every wrapper against the C prototype (text front end)
Bounded stand-in (props/bounded_C02.py): dense-matrix reference at round-off level for every kernel and driver.
"""
import re, time
from vf.core import Task, R
from vf.helpers import struct, guarded, bounded_tasks
from contracts import c_shared as CS

META = dict(
    level='proof',
    explanation='Each C function is symbolically executed from the clang AST of the current source against the contracts of its '
                'callees; loops by inductive invariants (compute_abc_nobc, both sweeps of the Thomas algorithm) or exact map-loop '
                'summaries; every kernel is shown, for an arbitrary line, to hand compute_abc_nobc and the tridiagonal solver exactly '
                'the documented V, M (migration INTO the swept population FROM each other one, selection with dominance), Delta, delj, '
                'the absorbing terms on the all-zero / all-one corner lines only, and rhs phi/dt; to write only its own line; and to '
                'keep every subscript in bounds. Two lemmas over the contracts (flux form of the a,b,c assembly; row equations of the '
                'Thomas recurrences) turn that into the conservative implicit system for all grids, sizes and parameters. '
                'Round-off-level agreement, the Python constant-parameter drivers\' numerics and whole-driver steps are bounded checks.',
    trusted_base=['double = real, int = integer (no overflow / round-off)', 'distinct pointer parameters do not alias (true at every call in integration_c.pyx)',
                  'malloc never fails; free is a no-op', 'exp uninterpreted', 'pivots of every line system non-zero (hypothesis of the row lemma)',
                  'grid strictly increasing, nu > 0 (beta > 0 in 1-D), extents >= 2',
                  'disjoint-line rule for the line loops (each iteration verified for an arbitrary line with all other lines havoc\'d; LEMMA.rowmajor)',
                  'vf/cvc.py executor and vf/polyring.py normaliser', 'integration_c.pyx itself is not compiled here: only its argument order is checked'],
    assumptions=['the Cython wrappers pass C-contiguous float64 buffers of the stated shapes (C20 covers the callers)'],
)


def tasks(tier):
    ts = []
    for f in ('compute_dx', 'compute_xInt', 'compute_dfactor', 'compute_delj'):
        ts.append(Task('props.C02:t_simple', name='C02/shared.' + f, fname=f, timeout=300))
    ts.append(Task('props.C02:t_named', name='C02/shared.compute_abc_nobc', which='abc', timeout=600))
    ts.append(Task('props.C02:t_named', name='C02/shared.flux-lemma', which='flux', timeout=600))
    ts.append(Task('props.C02:t_named', name='C02/tridiag.premalloc', which='tri', timeout=600))
    ts.append(Task('props.C02:t_named', name='C02/tridiag.lemma', which='thomas', timeout=600))
    ts.append(Task('props.C02:t_named', name='C02/tridiag.tridiag', which='tridiag', timeout=300))
    ts.append(Task('props.C02:t_named', name='C02/rowmajor', which='rowmajor', timeout=300))
    ts.append(Task('props.C02:t_named', name='C02/scalar-functions', which='scalars', timeout=300))
    from contracts.c_kernels import kernel_list
    for relpath, fname in kernel_list():
        ts.append(Task('props.C02:t_kernel', name='C02/kernel.' + fname, relpath=relpath, fname=fname, timeout=1200))
    for K, fz in ((1, ()), (2, ()), (2, (1,)), (3, ()), (3, (2,)), (4, ()), (4, (4,)), (5, ()), (5, (3,))):
        ts.append(Task('props.wire:run', name='C02/wire.driver-step.%d.%s' % (K, ''.join(map(str, fz)) or 'none'), fname='c02_driver_step', kwargs=dict(K=K, frozen=fz), timeout=600))
    for K in (1, 2, 3, 4, 5):
        ts.append(Task('props.wire:run', name='C02/wire.driver-two-steps.%d' % K, fname='c02_driver_two_steps', kwargs=dict(K=K), timeout=600))
    for K in (1, 2, 3, 4, 5):
        ts.append(Task('props.C02:t_layout', name='C02/wire.layout.%d' % K, K=K, timeout=600))
    for K in (1, 2, 3):
        ts.append(Task('props.wire:run', name='C02/wire.const-dispatch.%d' % K, fname='c02_const_dispatch', kwargs=dict(K=K), timeout=600))
    ts.append(Task('props.wire:run', name='C02/wire.const-1d-two-steps.4', fname='c02_const_1d_two_steps', kwargs=dict(n=4), timeout=600))
    ts.append(Task('props.wire:run', name='C02/wire.const-1d.4.late-start', fname='c02_const_1d', kwargs=dict(n=4, late_start=True), timeout=600))
    for K in (2, 3):
        ts.append(Task('props.wire:run', name='C02/wire.const-%dd-two-steps' % K, fname='c02_const_kd_two_steps', kwargs=dict(K=K), timeout=600))
    for n in (4, 5):
        ts.append(Task('props.wire:run', name='C02/wire.const-1d.%d' % n, fname='c02_const_1d', kwargs=dict(n=n), timeout=600))
    for fz in ((), (1,), (2,)):
        ts.append(Task('props.wire:run', name='C02/wire.const-2d.3.%s' % (''.join(map(str, fz)) or 'none'), fname='c02_const_2d', kwargs=dict(n=3, frozen=list(fz)), timeout=900))
    ts.append(Task('props.wire:run', name='C02/wire.const-3d.3.none', fname='c02_const_kd', kwargs=dict(K=3, n=3, frozen=[]), timeout=1500))
    if tier == 'thorough':
        ts.append(Task('props.wire:run', name='C02/wire.const-3d.3.2', fname='c02_const_kd', kwargs=dict(K=3, n=3, frozen=[2]), timeout=1500))
        ts.append(Task('props.wire:run', name='C02/wire.const-2d.4.none', fname='c02_const_kd', kwargs=dict(K=2, n=4, frozen=[]), timeout=1500))
    ts.append(Task('props.wire:run', name='C02/wire.compute_delj_py', fname='c02_compute_delj_py', timeout=300))
    ts.append(Task('props.C02:t_pyx', name='C02/pyx-argument-order', timeout=120))
    ts += bounded_tasks('C02', tier)
    return ts


def t_layout(K):
    """what reaches the compiled kernels (which read their arrays through raw pointers in C order) is a fresh C-contiguous copy of the density and a
    contiguous grid, whatever the memory layout of the caller's arrays: the object-following contract of C20, run here because a density in another
    layout makes every sweep act on the wrong axes"""
    from contracts import py_wiring as W
    rs = W.c20_integrator_alias(K) + (W.c20_integrator_alias(K, const_params=True) if K <= 3 else [])
    out = []
    for r in rs:
        if r['id'].endswith('.returns-fresh'):
            continue
        r['id'] = r['id'].replace('C20/', 'C02/', 1).replace('/alias', '/layout')
        if r.get('finding_key'):
            r['finding_key'] = r['finding_key'].replace('C20/', 'C02/', 1)
        out.append(r)
    return out


def t_simple(fname):
    from contracts import c_verify as V
    return V.verify_simple(fname, CS.SHARED)


def t_named(which):
    from contracts import c_verify as V
    if which == 'abc':
        return V.verify_abc()
    if which == 'flux':
        return V.flux_lemma()
    if which == 'tri':
        return V.verify_tridiag_premalloc()
    if which == 'thomas':
        return V.thomas_lemma() + V.product_forms_sound()
    if which == 'tridiag':
        return V.verify_tridiag()
    if which == 'rowmajor':
        return V.rowmajor_lemmas()
    if which == 'scalars':
        return scalar_functions()
    raise ValueError(which)


def scalar_functions():
    """Vfunc, Vfunc_beta, Mfunc1D..5D against the documented formulas (time in 2N generations)."""
    import z3
    from vf.cvc import CExec, func_params
    from vf.helpers import prove_eq
    ex = CExec([CS.SHARED])
    out = []
    x, nu, beta, g, h = z3.Reals('x nu beta gamma h')
    others = z3.Reals('y z a b')
    ms = z3.Reals('mxy mxz mxa mxb')
    sel = 2 * g * x * (1 - x) * (h + (1 - 2 * h) * x)
    specs = {'Vfunc': ([x, nu], x * (1 - x) / nu, [nu != 0]),
             'Vfunc_beta': ([x, nu, beta], x * (1 - x) / nu * (beta + 1) * (beta + 1) / (4 * beta), [nu != 0, beta != 0]),
             'Mfunc1D': ([x, g, h], sel, [])}
    for K in (2, 3, 4, 5):
        o, m = others[:K - 1], ms[:K - 1]
        mig = sum(mi * (oi - x) for mi, oi in zip(m, o))
        if K == 2:
            m = [z3.Real('m')]
            mig = m[0] * (o[0] - x)
        specs['Mfunc%dD' % K] = ([x] + list(o) + list(m) + [g, h], mig + sel, [])
    for name, (args, want, hy) in specs.items():
        oid = 'C02/integration_shared.c:%s/post' % name
        fn = CS.SHARED + '::' + name
        try:
            fd = ex.funcs[name][1]
            got = ex.inline_scalar(fd, args)
            out.append(prove_eq(oid, hy, got, want, func=fn, timeout_ms=20000))
        except Exception as e:
            out.append(R(oid, 'proof', 'undecided', detail='%r' % e, func=fn))
    return out


def t_kernel(relpath, fname):
    from contracts.c_kernels import verify_kernel
    res = verify_kernel(relpath, fname)
    bad = [r for r in res if r['verdict'] == 'refuted']
    if bad:
        w = native_search(fname)
        for r in bad:
            r['witness'] = dict(r['witness'] or {}, **w)
            r['finding_key'] = 'C02/kernel/%s/%s' % (fname, r['id'].split('/')[-1].split('.')[0])
    return res


def native_search(fname):
    """Replay: run the dense-reference bounded driver of the same kernel contract on the compiled current sources."""
    try:
        from props import bounded_C02 as B
        m = re.match(r'implicit_(precalc_)?(\d)D([xyzab])$', fname)
        if m.group(1):
            rs = B.drv_precalc(n=300, tier='quick')
        else:
            rs = B.drv_kernel(D=int(m.group(2)), k='xyzab'.index(m.group(3)), n=400, tier='quick')
        for r in rs:
            if r['verdict'] == 'failed':
                return dict(replayed=True, native_cases=(r['witness'] or {}).get('cases', [])[:2], native_detail=r['detail'][:600])
        return dict(replayed=False, note='dense-reference search over 400 random inputs found no failing input')
    except Exception as e:
        return dict(replayed=False, error=repr(e)[:300])


def t_pyx():
    """integration_c.pyx: every wrapper forwards its arguments to the C function in the order of the C prototype."""
    from vf.common import read_repo
    from vf.cvc import load_c, func_params
    oid = 'C02/integration_c.pyx'
    out = []
    try:
        pyx = read_repo('dadi/integration_c.pyx')
    except FileNotFoundError:
        return [R(oid, 'struct', 'undecided', detail='integration_c.pyx missing')]
    protos = {}
    for f in ['dadi/integration%dD.c' % k for k in range(1, 6)]:
        for n, fd in load_c(f)['funcs'].items():
            protos[n] = [p for p, _ in func_params(fd)]
    # cdef extern declarations: names must match the C prototypes positionally
    for m in re.finditer(r'void\s+(implicit_\w+)\s*\(([^)]*)\)', pyx):
        name, args = m.group(1), m.group(2)
        decl = [a.strip().split()[-1].lstrip('*') for a in args.replace('\n', ' ').split(',') if a.strip()]
        ok = name in protos and decl == protos[name]
        out.append(struct('%s:%s/extern-decl' % (oid, name), ok, 'extern declaration %s vs C prototype %s' % (decl, protos.get(name)), 'dadi/integration_c.pyx::' + name))
    # python wrappers: def implicit_X(...): ... c_implicit_X(<args>) or implicit_X(<args>)
    for m in re.finditer(r'def\s+(implicit_\w+)\s*\(([^)]*)\)\s*:(.*?)(?=\ndef\s|\Z)', pyx, re.S):
        name, params, body = m.group(1), m.group(2), m.group(3)
        call = re.search(r'(?:c_)?%s\s*\((.*?)\)\s*\n' % re.escape(name), body, re.S)
        if not call or name not in protos:
            out.append(struct('%s:%s/wrapper' % (oid, name), False, 'no call of the C function found in the wrapper', 'dadi/integration_c.pyx::' + name, undecided=True))
            continue
        args = [a.strip() for a in _split_args(call.group(1))]
        proto = protos[name]
        probs = []
        if len(args) != len(proto):
            probs.append('arity %d vs %d' % (len(args), len(proto)))
        for a, p in zip(args, proto):
            base = re.sub(r'<[^>]*>', '', a).strip()
            base = re.sub(r'\.data$', '', base).strip()
            if p in ('L', 'M', 'N', 'O', 'P'):
                want = 'phi.shape[%d]' % 'LMNOP'.index(p)
                if base != want:
                    probs.append('%s passed for extent %s (expected %s)' % (base, p, want))
            elif p in ('Mstart', 'Lstart'):
                if base != '0':
                    probs.append('%s passed for %s' % (base, p))
            elif p in ('Mend', 'Lend'):
                if not re.match(r'phi\.shape\[\d\]$', base):
                    probs.append('%s passed for %s' % (base, p))
            elif base != p:
                probs.append('%s passed in the slot of %s' % (base, p))
        out.append(struct('%s:%s/wrapper' % (oid, name), not probs, '; '.join(probs) or 'arguments forwarded in prototype order: %s' % args,
                          'dadi/integration_c.pyx::' + name))
    if not out:
        out.append(R(oid, 'struct', 'undecided', detail='no wrappers recognised in integration_c.pyx'))
    return out


def _split_args(s):
    out, depth, cur = [], 0, ''
    for ch in s:
        if ch in '([<':
            depth += 1
        if ch in ')]>':
            depth -= 1
        if ch == ',' and depth == 0:
            out.append(cur)
            cur = ''
        else:
            cur += ch
    if cur.strip():
        out.append(cur)
    return out


def replay(rec):
    import json
    print(json.dumps(rec, indent=1)[:4000])
    m = re.search(r'(implicit_\w+)', rec.get('obligation', ''))
    if m:
        print('native dense-reference search for', m.group(1))
        print(json.dumps(native_search(m.group(1)), indent=1, default=str)[:3000])
    return 0


MANIFEST_ENTRY = dict(
    category='proof',
    engine='cvc',
    technique='contracts on the real C kernels: VCs generated from the clang AST (loops by inductive invariants / exact map-loop summaries, '
              'callers against callee contracts), discharged by z3/cvc5 and an exact ring normaliser; two lemmas over the contracts; '
              'bounded dense-matrix reference as complement',
    text='For all grids, sizes, densities and parameters (over the reals): compute_dx/xInt/dfactor/delj/abc_nobc and the Thomas solver meet '
         'closed-form contracts; every one of the 15 per-axis kernels and 5 precomputed-coefficient kernels assembles, for an arbitrary '
         'line, exactly the documented conservative implicit system (drift 1/nu, selection with dominance, migration from every other '
         'population with the documented argument order, absorbing terms only on the all-zero / all-one corner lines, rhs phi/dt), solves it, '
         'writes only its own line and stays in bounds. Integration.py: one step and two consecutive steps of one_pop..five_pops (dt, influx and sweeps '
         're-evaluated at each step\'s own time), all-scalar parameters handed to the constant integrators slot by slot (T and initial_t unchanged), '
         'the 1-3-D constant integrators entry-wise equal to the kernel system and unchanged coefficients / per-step dt over two consecutive steps, a fresh C-contiguous '
         'copy of the density and a contiguous grid reaching the kernels whatever the memory layout of the arrays passed in. Round-off agreement, whole multi-step integrations '
         '(constant vs function-of-time parameters) are checked by the bounded dense-reference driver, not proved.',
    note='double=real, int=integer; no aliasing between distinct pointer parameters; pivots non-zero; exp uninterpreted; disjoint-line loop rule; '
         'Cython wrapper only checked for argument order (no Cython in the sandbox)',
)
