"""E4 bounded driver for C03: integration is linear in (phi, theta0) and invariant under re-expression relative to a
different reference population size (sizes, times * c; migration rates, selection coefficients, theta0 / c).

Both clauses are 2-safety identities between runs of the real dadi functions; no reference implementation is needed: the
oracle is the algebraic identity itself, evaluated with numpy on the outputs.
"""
import math

from vf.core import Task
from vf.bounded import Driver
from props.bounded_C02 import (make_grid, make_phi, draw_nu, draw_gamma, draw_m, draw_h, own_dt, FUNCS, PAIR_NAMES, GRID_KINDS,
                               _small)

TOL = 1e-10
TOL_DELJ = 1e-8     # rescaling with use_delj_trick on: compute_delj cancels for small |z| (reported as C02 .../delj-cancellation)
PTS_HI = {1: 30, 2: 14, 3: 10, 4: 7, 5: 6}


def tasks(tier):
    q = tier == 'quick'
    mult = 1 if q else 60
    ts = []
    for D in (1, 2, 3, 4, 5):
        n = {1: 60, 2: 60, 3: 40, 4: 20, 5: 10}[D] * mult
        ts.append(Task('props.bounded_C03:drv_linearity', name='C03/bounded/linearity_%dpop' % D, D=D, n=n, tier=tier, timeout=900))
        ts.append(Task('props.bounded_C03:drv_rescale', name='C03/bounded/rescale_%dpop' % D, D=D, n=n, tier=tier, timeout=900))
    for part in range(4):
        ts.append(Task('props.bounded_C03:drv_models', name='C03/bounded/models_%d' % part, part=part, n=(12 if q else 750), tier=tier, timeout=900))
    ts.append(Task('props.bounded_C03:drv_phi1d', name='C03/bounded/phi_1D', n=(60 if q else 3000), tier=tier, timeout=900))
    return ts


# ------------------------------------------------------------------------------------------------
# parameter specifications: constants or functions of time, with the transformation under a change of reference size
# ------------------------------------------------------------------------------------------------

def shape_val(spec, t):
    kind = spec[0]
    if kind == 'const':
        return spec[1]
    if kind == 'exp':
        return spec[1] * math.exp(spec[2] * t)
    if kind == 'lin':
        return spec[1] * (1.0 + spec[2] * t)
    if kind == 'sin':
        return spec[1] * (1.0 + spec[2] * math.sin(spec[3] * t))
    raise ValueError(kind)


def mk(spec, s=1.0, c=1.0, a=1.0, t0=0.0):
    """Argument to pass for `spec` (a function of t - t0) after multiplying values by s*a and stretching time by c."""
    if spec[0] == 'const':
        return spec[1] * s * a
    if spec[0] == 'lambda0':            # constant written as a function of time
        return lambda t, _v=spec[1] * s * a: _v
    return lambda t, _sp=spec, _s=s * a, _c=c, _t0=t0: _s * shape_val(_sp, t / _c - _t0)


def spec0(spec):
    return spec[1]


def draw_spec(rng, v, Tspan, unit=False):
    """Specification with value v at t=0; functions vary by O(1) over Tspan."""
    if rng.random() < 0.45 or v == 0:
        return ('const', v)
    r = rng.random()
    if r < 0.2:
        return ('lambda0', v)
    if unit:        # h must stay in [0,1]
        return ('sin', v, min(v, 1 - v) / max(v, 1e-9) * rng.uniform(0, 1), rng.uniform(1, 6) / Tspan) if 0 < v < 1 else ('lambda0', v)
    if r < 0.5:
        return ('exp', v, rng.uniform(-1.5, 1.5) / Tspan)
    if r < 0.75:
        return ('lin', v, rng.uniform(-0.5, 2.0) / Tspan)
    return ('sin', v, rng.uniform(0, 0.9), rng.uniform(1, 6) / Tspan)


def draw_model_params(rng, D, mild=False):
    """Constant parameter specs for one integration epoch of D populations: dict name -> spec, plus flags.
    mild: nu 0.2..2, |gamma| <= 5, m <= 1, so that |2 M dx/V| stays far below the exp-overflow threshold of compute_delj."""
    frozen = [False] * D
    nomut = [False] * D
    if D >= 2 and rng.random() < 0.35:
        frozen = [rng.random() < 0.35 for _ in range(D)]
    if D == 2 and rng.random() < 0.35:
        nomut = [rng.random() < 0.5, rng.random() < 0.5]
    S = {}
    for k in range(D):
        sfx = '' if D == 1 else str(k + 1)
        S['nu' + sfx] = ('const', 10.0 ** (rng.uniform(-0.7, 0.3) if mild else rng.uniform(-1.3, 1.3)))
        S['gamma' + sfx] = ('const', rng.choice([0.0, rng.uniform(-5, 5) if mild else rng.uniform(-20, 20), rng.uniform(-2, 2)]))
        S['h' + sfx] = ('const', draw_h(rng))
    if D == 1:
        S['beta'] = ('const', rng.choice([1.0, 10.0 ** rng.uniform(math.log10(0.2), math.log10(5))]))
    else:
        for i, j in PAIR_NAMES[D]:
            S['m%d%d' % (i + 1, j + 1)] = ('const', 0.0 if (frozen[i] or frozen[j]) else rng.choice([0.0, rng.uniform(0, 1 if mild else 10), rng.uniform(0, 1)]))
    return S, frozen, nomut


def functionalize(rng, S, T):
    """Turn some constants into functions of time that start at the same value and vary by O(1) over T."""
    out = {}
    for k, v in S.items():
        if k == 'beta':
            out[k] = v if rng.random() < 0.7 else ('lambda0', v[1])
        else:
            out[k] = draw_spec(rng, v[1], T, unit=k.startswith('h'))
    return out


def scale_of(name):
    for pre, e in (('nu', 1), ('gamma', -1), ('m', -1), ('h', 0), ('beta', 0), ('theta0', -1)):
        if name.startswith(pre):
            return e
    raise KeyError(name)


def build_kwargs(S, frozen, nomut, D, c=1.0, theta_spec=None, a=1.0, t0=0.0):
    kw = {}
    for name, spec in S.items():
        kw[name] = mk(spec, s=c ** scale_of(name), c=c, t0=t0)      # a zero rate stays the literal constant 0.0
    if theta_spec is not None:
        kw['theta0'] = mk(theta_spec, s=1.0 / c, c=c, a=a, t0=t0)
    if D >= 2:
        for k in range(D):
            kw['frozen%d' % (k + 1)] = frozen[k]
    if D == 2:
        kw['nomut1'], kw['nomut2'] = nomut
    return kw


def p0_of(S, D):
    """Parameter values at the reference time in the layout own_dt() expects."""
    if D == 1:
        return dict(nu=[spec0(S['nu'])], gamma=[spec0(S['gamma'])], h=[spec0(S['h'])], m=[[0.0]])
    m = [[0.0] * D for _ in range(D)]
    for i, j in PAIR_NAMES[D]:
        m[i][j] = spec0(S['m%d%d' % (i + 1, j + 1)])
    return dict(nu=[spec0(S['nu%d' % (k + 1)]) for k in range(D)], gamma=[spec0(S['gamma%d' % (k + 1)]) for k in range(D)],
                h=[spec0(S['h%d' % (k + 1)]) for k in range(D)], m=m)


def relerr(a, b, scale=None):
    import numpy as np
    a = np.asarray(a, dtype=float)
    b = np.asarray(b, dtype=float)
    if a.shape != b.shape or not (np.all(np.isfinite(a)) and np.all(np.isfinite(b))):
        return float('inf')
    s = scale if scale is not None else float(np.max(np.abs(b)))
    return float(np.max(np.abs(a - b)) / (s if s > 0 else 1.0))


def sinfo(S, frozen, nomut, **extra):
    i = dict(params={k: list(v) for k, v in S.items()}, frozen=frozen, nomut=nomut)
    i.update(extra)
    return i


def draw_epoch(rng, nprng, D, old=False, mild=False):
    """Grid, timescale factor, duration (a fraction of a step to a few dozen steps), parameters."""
    pts = rng.randint(4 if D < 5 else 3, PTS_HI[D])
    xx = make_grid(rng, pts, rng.choice(GRID_KINDS[:4]))
    tsf = 10.0 ** rng.uniform(-3, -1)
    S, frozen, nomut = draw_model_params(rng, D, mild)
    dt = 0.1 * (xx[1] - xx[0]) if old else own_dt(p0_of(S, D), D, tsf)      # old rule: old_timescale_factor * dx[0]
    T = dt * rng.choice([0.6, 1.0, rng.uniform(2, 8), rng.uniform(8, 30)])
    return xx, tsf, T, functionalize(rng, S, T), frozen, nomut


# ------------------------------------------------------------------------------------------------
# tasks
# ------------------------------------------------------------------------------------------------

def drv_linearity(D, n, tier):
    import numpy as np
    import dadi
    from dadi import Integration
    fn = getattr(Integration, FUNCS[D])
    d = Driver('C03', 'linearity_%dpop' % D,
               bound='%d random superpositions for Integration.%s: grids of %d..%d points (uniform/exponential/quadratic/random monotone), '
                     'durations 0.6..30 time steps (timescale_factor 1e-3..1e-1, initial_t 0 or random), nu 0.05..20, gamma in [-20,20], '
                     'h in [0,1], m in [0,10], beta 0.2..5 (1-D); each parameter a constant, a lambda returning the constant, or an '
                     'exponential/linear/sinusoidal function of time; frozen/nomut subsets; use_old_timestep off/on; use_delj_trick off/on '
                     '(when on: at least one time-dependent argument for 1-3 populations, nu 0.2..2, |gamma|<=5, m<=1 so that exp in '
                     'compute_delj cannot overflow - both reported under C02); theta0_i constants or functions, coefficients a in (0,3], b in [-3,3] '
                     '(b<0 only with theta0_2=0); F(a phi1+b phi2; a th1+b th2) = a F(phi1;th1)+b F(phi2;th2) to %g of '
                     '|a| max|F1|+|b| max|F2|' % (n, FUNCS[D], 4 if D < 5 else 3, PTS_HI[D], TOL))
    rng, nprng = d.rng, d.nprng()
    saved = (Integration.timescale_factor, Integration.use_delj_trick, Integration.use_old_timestep)
    try:
        for ci in range(n):
            old = rng.random() < 0.2
            delj = rng.random() < 0.25
            xx, tsf, T, S, frozen, nomut = draw_epoch(rng, nprng, D, old, mild=delj)
            if delj and D <= 3:
                # the all-constant path with the switch on raises IndexError (reported under C02); force a function of time
                key = 'nu' if D == 1 else 'nu1'
                if S[key][0] == 'const':
                    S[key] = ('lambda0', S[key][1])
            t0 = rng.choice([0.0, rng.uniform(0, 5 * T)])
            shape = (len(xx),) * D
            phi1, phi2 = make_phi(rng, nprng, shape), make_phi(rng, nprng, shape)
            a = rng.uniform(0.05, 3.0)
            th1 = draw_spec(rng, rng.choice([0.0, 1.0, 10.0 ** rng.uniform(-2, 2)]), T)
            if rng.random() < 0.3:
                b, th2 = -rng.uniform(0.05, 3.0), ('const', 0.0)
            else:
                b, th2 = rng.uniform(0.05, 3.0), draw_spec(rng, rng.choice([0.0, 1.0, 10.0 ** rng.uniform(-2, 2)]), T)
            Integration.timescale_factor, Integration.use_delj_trick, Integration.use_old_timestep = tsf, delj, old
            info = sinfo(S, frozen, nomut, D=D, xx=xx.tolist(), T=t0 + T, initial_t=t0, timescale_factor=tsf, delj=delj, use_old_timestep=old,
                         a=a, b=b, theta1=list(th1), theta2=list(th2), phi1=_small(phi1), phi2=_small(phi2))

            def run(phi, theta_f):
                kw = build_kwargs(S, frozen, nomut, D, t0=t0)
                kw['theta0'] = theta_f
                return np.array(fn(phi.copy(), xx, t0 + T, initial_t=t0, **kw), dtype=float, copy=True)
            f1, f2 = mk(th1, t0=t0), mk(th2, t0=t0)
            if callable(f1) or callable(f2):
                g1 = f1 if callable(f1) else (lambda t, _v=f1: _v)
                g2 = f2 if callable(f2) else (lambda t, _v=f2: _v)
                fc = lambda t: a * g1(t) + b * g2(t)
            else:
                fc = a * f1 + b * f2
            try:
                R1, R2 = run(phi1, f1), run(phi2, f2)
                Rc = run(a * phi1 + b * phi2, fc)
            except Exception as e:
                d.case(key=(D, ci), ok=False, info=dict(info, error=repr(e)), fail_key='linearity%d-exception' % D)
                continue
            scale = abs(a) * float(np.max(np.abs(R1))) + abs(b) * float(np.max(np.abs(R2)))
            err = relerr(Rc, a * R1 + b * R2, scale)
            d.case(key=(D, ci), ok=err <= TOL, info=dict(info, err=err), nontrivial=not all(frozen), fail_key='linearity%d' % D)
    finally:
        Integration.timescale_factor, Integration.use_delj_trick, Integration.use_old_timestep = saved
    return d.results()


def drv_rescale(D, n, tier):
    import numpy as np
    import dadi
    from dadi import Integration
    fn = getattr(Integration, FUNCS[D])
    d = Driver('C03', 'rescale_%dpop' % D,
               bound='%d random epochs for Integration.%s (inputs as in linearity_%dpop, default time-step rule; use_delj_trick on: mild '
                     'parameters as there and tolerance 1e-8 because compute_delj cancels for small |z|, C02 delj-cancellation), theta0 constant or function of time: result for (phi, T, t0, nu(t), m(t), gamma(t), '
                     'h(t), theta0(t)) equals the result for (phi, cT, c t0, c nu(t/c), m(t/c)/c, gamma(t/c)/c, h(t/c), theta0(t/c)/c), '
                     'c log-uniform in [0.05,20] or in {1/2,2,4}, to %g of max|phi_out|' % (n, FUNCS[D], D, TOL))
    rng, nprng = d.rng, d.nprng()
    saved = (Integration.timescale_factor, Integration.use_delj_trick, Integration.use_old_timestep)
    try:
        for ci in range(n):
            delj = rng.random() < 0.25
            xx, tsf, T, S, frozen, nomut = draw_epoch(rng, nprng, D, mild=delj)
            if delj and D <= 3 and ci % 2 == 0:
                # every other delj case goes through the time-dependent driver; the rest stay all-constant and exercise the
                # precomputed-coefficient drivers with the Chang-Cooper switch on
                key = 'nu' if D == 1 else 'nu1'
                if S[key][0] == 'const':
                    S[key] = ('lambda0', S[key][1])
            t0 = rng.choice([0.0, rng.uniform(0, 5 * T)])
            c = rng.choice([0.5, 2.0, 4.0]) if rng.random() < 0.15 else 10.0 ** rng.uniform(math.log10(0.05), math.log10(20))
            phi = make_phi(rng, nprng, (len(xx),) * D)
            th = draw_spec(rng, rng.choice([0.0, 1.0, 10.0 ** rng.uniform(-2, 2)]), T)
            Integration.timescale_factor, Integration.use_delj_trick, Integration.use_old_timestep = tsf, delj, False
            info = sinfo(S, frozen, nomut, D=D, xx=xx.tolist(), T=t0 + T, initial_t=t0, timescale_factor=tsf, delj=delj, c=c, theta0=list(th),
                         phi=_small(phi))
            try:
                R1 = np.array(fn(phi.copy(), xx, t0 + T, initial_t=t0, **build_kwargs(S, frozen, nomut, D, 1.0, th, t0=t0)), dtype=float, copy=True)
                Rc = np.array(fn(phi.copy(), xx, c * (t0 + T), initial_t=c * t0, **build_kwargs(S, frozen, nomut, D, c, th, t0=t0)), dtype=float, copy=True)
            except Exception as e:
                d.case(key=(D, ci), ok=False, info=dict(info, error=repr(e)), fail_key='rescale%d-exception' % D)
                continue
            err = relerr(Rc, R1)
            d.case(key=(D, ci), ok=err <= (TOL_DELJ if delj else TOL), info=dict(info, err=err), nontrivial=not all(frozen), fail_key='rescale%d' % D)
    finally:
        Integration.timescale_factor, Integration.use_delj_trick, Integration.use_old_timestep = saved
    return d.results()


# ---------------------------------------------- whole models ---------------------------------------------------------

def draw_program(rng, Dfinal):
    """A demographic history from the public API ending with Dfinal populations.  Steps are tuples."""
    prog = []
    D = 1

    def epoch():
        nonlocal prog
        prog.append(('int', rng.random()))      # parameters are drawn at run-construction time from a private rng seed
    prog.append(('init', 10.0 ** rng.uniform(-0.7, 0.7), rng.choice([1.0, 1.0, 10.0 ** rng.uniform(-0.5, 0.5)])))
    if rng.random() < 0.7:
        epoch()
    while D < Dfinal:
        if D == 1:
            prog.append(('split12',))
        elif D == 2:
            r = rng.random()
            prog.append(('split23_1',) if r < 0.3 else ('split23_2',) if r < 0.6 else ('admix23', rng.uniform(0.05, 0.95)))
        elif D == 3:
            f1 = rng.uniform(0, 1)
            f2 = rng.uniform(0, 1 - f1)
            prog.append(('3to4', f1, f2) if rng.random() < 0.7 else ('3to4', 0.0, 0.0))
        elif D == 4:
            f1 = rng.uniform(0, 1)
            f2 = rng.uniform(0, 1 - f1)
            f3 = rng.uniform(0, 1 - f1 - f2)
            prog.append(('4to5', f1, f2, f3) if rng.random() < 0.7 else ('4to5', 0.0, 0.0, 0.0))
        D += 1
        if rng.random() < 0.85 or D == Dfinal:
            epoch()
        if D == 2 and rng.random() < 0.4:
            prog.append(('pulse2', rng.choice([1, 2]), rng.uniform(0.02, 0.6)))
            if rng.random() < 0.7:
                epoch()
        if D == 3 and rng.random() < 0.3:
            f1 = rng.uniform(0, 0.5)
            prog.append(('pulse3', rng.choice([1, 2, 3]), f1, rng.uniform(0, 0.5)))
            epoch()
    if Dfinal >= 2 and rng.random() < 0.25:
        prog.append(('remove', rng.randint(1, Dfinal)))
    return prog


def run_program(dadi, prog, xx, tsf, c, a, seed, ns_per_pop):
    """Run the history with every size/time * c, rates / c, theta0 * a / c."""
    import numpy as np
    import random as _random
    from dadi import PhiManip, Integration
    prng = _random.Random(seed)          # identical parameter draws for every (c, a)
    phi = None
    theta0 = None
    for step in prog:
        kind = step[0]
        if kind == 'init':
            theta0 = step[2]
            phi = PhiManip.phi_1D(xx, nu=c * step[1], theta0=a * theta0 / c)
        elif kind == 'int':
            D = phi.ndim
            erng = _random.Random(prng.random())
            S, frozen, nomut = draw_model_params(erng, D)
            dt = own_dt(p0_of(S, D), D, tsf)
            T = dt * erng.choice([0.7, erng.uniform(2, 8), erng.uniform(8, 25)])
            S = functionalize(erng, S, T)
            kw = build_kwargs(S, frozen, nomut, D, c, ('const', theta0), a)
            phi = getattr(Integration, FUNCS[D])(phi.copy(), xx, c * T, **kw)
        elif kind == 'split12':
            phi = PhiManip.phi_1D_to_2D(xx, phi)
        elif kind == 'split23_1':
            phi = PhiManip.phi_2D_to_3D_split_1(xx, phi)
        elif kind == 'split23_2':
            phi = PhiManip.phi_2D_to_3D_split_2(xx, phi)
        elif kind == 'admix23':
            phi = PhiManip.phi_2D_to_3D_admix(phi, step[1], xx, xx, xx)
        elif kind == '3to4':
            phi = PhiManip.phi_3D_to_4D(phi, step[1], step[2], xx, xx, xx, xx)
        elif kind == '4to5':
            phi = PhiManip.phi_4D_to_5D(phi, step[1], step[2], step[3], xx, xx, xx, xx, xx)
        elif kind == 'pulse2':
            f = PhiManip.phi_2D_admix_1_into_2 if step[1] == 1 else PhiManip.phi_2D_admix_2_into_1
            phi = f(phi.copy(), step[2], xx, xx)
        elif kind == 'pulse3':
            f = {1: PhiManip.phi_3D_admix_2_and_3_into_1, 2: PhiManip.phi_3D_admix_1_and_3_into_2, 3: PhiManip.phi_3D_admix_1_and_2_into_3}[step[1]]
            phi = f(phi.copy(), step[2], step[3], xx, xx, xx)
        elif kind == 'remove':
            phi = PhiManip.remove_pop(phi, xx, step[1])
        else:
            raise ValueError(kind)
    phi = np.array(phi, dtype=float, copy=True)
    D = phi.ndim
    fs = dadi.Spectrum.from_phi(phi, [ns_per_pop] * D, [xx] * D)
    return phi, np.array(fs.data, dtype=float), np.array(fs.mask, dtype=bool)


def drv_models(part, n, tier):
    import numpy as np
    import dadi
    from dadi import Integration
    d = Driver('C03', 'models_%d' % part,
               bound='%d random demographic histories built from the public API ending with 1..5 populations: phi_1D (neutral), epochs of '
                     'one_pop..five_pops (parameters as in rescale_*, constants and functions of time, frozen/nomut flags), phi_1D_to_2D, '
                     'phi_2D_to_3D_split_1/2/admix, phi_3D_to_4D, phi_4D_to_5D, two- and three-population admixture pulses, remove_pop, '
                     'Spectrum.from_phi (sample size 3..6 per population); grids %s points, timescale_factor 1e-2..1e-1; the final phi '
                     'and spectrum for reference size factor c (log-uniform 0.05..20) equal those for c=1, and those for theta0*a equal '
                     'a times those for theta0, to %g of the maximum' % (n, 'D=1:8..30, 2:6..14, 3:5..10, 4:4..7, 5:4..6', TOL))
    rng, nprng = d.rng, d.nprng()
    saved = (Integration.timescale_factor, Integration.use_delj_trick, Integration.use_old_timestep)
    try:
        for ci in range(n):
            Dfinal = 1 + (ci + part) % 5
            prog = draw_program(rng, Dfinal)
            pts = rng.randint({1: 8, 2: 6, 3: 5, 4: 4, 5: 4}[Dfinal], PTS_HI[Dfinal])
            xx = make_grid(rng, pts, rng.choice(['exponential', 'uniform', 'quadratic', 'random']))
            tsf = 10.0 ** rng.uniform(-2, -1)
            c = 10.0 ** rng.uniform(math.log10(0.05), math.log10(20))
            a = 10.0 ** rng.uniform(-2, 2)
            seed = rng.random()
            ns = rng.randint(3, 6)
            Integration.timescale_factor, Integration.use_delj_trick, Integration.use_old_timestep = tsf, False, False
            info = dict(program=[list(s) for s in prog], seed=seed, xx=xx.tolist(), timescale_factor=tsf, c=c, a=a, ns=ns)
            try:
                p1, f1, m1 = run_program(dadi, prog, xx, tsf, 1.0, 1.0, seed, ns)
                pc, fc, mc = run_program(dadi, prog, xx, tsf, c, 1.0, seed, ns)
                pa, fa, ma = run_program(dadi, prog, xx, tsf, 1.0, a, seed, ns)
            except Exception as e:
                import traceback
                d.case(key=(part, ci), ok=False, info=dict(info, error=traceback.format_exc()[-800:]), fail_key='models-exception')
                continue
            keep = ~m1
            e_phi_c = relerr(pc, p1)
            e_fs_c = relerr(np.where(keep, fc, 0.0), np.where(keep, f1, 0.0))
            e_phi_a = relerr(pa, a * p1)
            e_fs_a = relerr(np.where(keep, fa, 0.0), a * np.where(keep, f1, 0.0))
            nontriv = float(np.max(np.abs(p1))) > 0
            d.case(key=(part, ci, 'rescale'), ok=(e_phi_c <= TOL and e_fs_c <= TOL), info=dict(info, err_phi=e_phi_c, err_fs=e_fs_c),
                   nontrivial=nontriv, fail_key='models-rescale')
            d.case(key=(part, ci, 'theta'), ok=(e_phi_a <= TOL and e_fs_a <= TOL), info=dict(info, err_phi=e_phi_a, err_fs=e_fs_a),
                   nontrivial=nontriv, fail_key='models-theta-linearity')
    finally:
        Integration.timescale_factor, Integration.use_delj_trick, Integration.use_old_timestep = saved
    return d.results()


def drv_phi1d(n, tier):
    import numpy as np
    import dadi
    from dadi import PhiManip
    d = Driver('C03', 'phi_1D',
               bound='%d random calls of PhiManip.phi_1D(xx, nu, theta0, gamma, h, beta): grids of 5..40 points, nu 0.05..20, theta0 1e-2..1e2, '
                     'gamma in [-30,30] or 0, h in {1/2, random in [0,1]}, beta in {1, 0.2..5}: (i) linear in theta0 (a th1 + b th2), '
                     '(ii) unchanged under (nu, theta0, gamma) -> (c nu, theta0/c, gamma/c), c in [0.05,20]; tolerance %g '
                     '(1e-6 for h != 1/2: scipy.integrate.quad)' % (n, TOL))
    rng = d.rng
    for ci in range(n):
        pts = rng.randint(5, 40)
        xx = make_grid(rng, pts, rng.choice(['exponential', 'uniform', 'quadratic', 'random']))
        nu = 10.0 ** rng.uniform(-1.3, 1.3)
        gamma = rng.choice([0.0, rng.uniform(-30, 30), rng.uniform(-3, 3)])
        h = rng.choice([0.5, 0.5, rng.uniform(0, 1)])
        beta = rng.choice([1.0, 10.0 ** rng.uniform(math.log10(0.2), math.log10(5))])
        th1, th2 = 10.0 ** rng.uniform(-2, 2), 10.0 ** rng.uniform(-2, 2)
        a, b = rng.uniform(0.05, 3), rng.uniform(0.05, 3)
        c = 10.0 ** rng.uniform(math.log10(0.05), math.log10(20))
        tol = TOL if h == 0.5 else 1e-6
        info = dict(xx=xx.tolist(), nu=nu, gamma=gamma, h=h, beta=beta, th1=th1, th2=th2, a=a, b=b, c=c)
        try:
            p1 = PhiManip.phi_1D(xx, nu, th1, gamma, h, beta=beta)
            p2 = PhiManip.phi_1D(xx, nu, th2, gamma, h, beta=beta)
            pl = PhiManip.phi_1D(xx, nu, a * th1 + b * th2, gamma, h, beta=beta)
            pc = PhiManip.phi_1D(xx, c * nu, th1 / c, gamma / c, h, beta=beta)
        except Exception as e:
            d.case(key=ci, ok=False, info=dict(info, error=repr(e)), fail_key='phi1d-exception')
            continue
        e_lin = relerr(pl, a * p1 + b * p2)
        e_c = relerr(pc, p1)
        d.case(key=(ci, 'lin'), ok=e_lin <= tol, info=dict(info, err=e_lin), fail_key='phi1d-theta-linearity')
        d.case(key=(ci, 'rescale'), ok=e_c <= tol, info=dict(info, err=e_c), nontrivial=True,
               fail_key=('phi1d-selection-rescale' if gamma != 0 else 'phi1d-neutral-rescale'))
    return d.results()
